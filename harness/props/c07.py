"""C07 — lock files give mutual exclusion and all-or-nothing replacement.

Model: lean/DulwichModel/Model/Lock.lean (+ Model/LockFS.lean); theorems: Props/C07.lean.
Tie:
  * translate() re-derives the `_GitFile` *program* from the AST of dulwich/file.py on every run (open
    flags, order of the calls in close(), which of them sit inside `try … finally: self.abort()`,
    `_closed = True` after the rename, the guards, what abort() does, `__exit__`, `__del__`) and the
    error handler of `Index.write`; the Lean model interprets that generated program and the theorems
    are stated about it, so an edit of the protocol changes Gen/Lock.lean and breaks the proofs.
  * run() drives real `_GitFile` handles under the deterministic scheduler (harness/sched.py, extended
    here with write/flush yield points) along schedules (exhaustive <= 2 pre-emptions for 2 actors,
    samples for 3, random, corpus) and compares every step with the Lean transition system.
Direct oracle (independent of the model): a mutual-exclusion monitor over the observed system calls and
directory snapshots, fault injection at every interposed call of every dulwich routine that writes
through the lock protocol, and (sched.callers2) pairs of real routines run against each other on the same
file over all interleavings with <= 2 pre-emptions at the lock/rename/unlink calls, the target being re-read
and re-parsed after every successful rename (complete, well-formed, every untouched entry preserved).
"""
from __future__ import annotations

import ast
import errno
import gc
import itertools
import json
import os
import shutil
import sys
import threading
import traceback
import warnings
from pathlib import Path

from .. import core, sched, translate as T
from ..core import hx, unhx

MOD = "c07"


# ------------------------------------------------------------------------------------------------
# translator: the `_GitFile` program, read off the AST

def _is_self_attr(node, attr):
    return isinstance(node, ast.Attribute) and isinstance(node.value, ast.Name) and node.value.id == "self" \
        and node.attr == attr


def _call_name(call: ast.Call) -> str:
    """dotted name of the callee: os.replace, self._file.flush, adjust_shared_perm, ..."""
    parts = []
    f = call.func
    while isinstance(f, ast.Attribute):
        parts.append(f.attr)
        f = f.value
    if isinstance(f, ast.Name):
        parts.append(f.id)
    else:
        parts.append("?")
    return ".".join(reversed(parts))


def _is_closed_guard(st) -> bool:
    return isinstance(st, ast.If) and _is_self_attr(st.test, "_closed") and len(st.body) == 1 \
        and isinstance(st.body[0], ast.Return) and st.body[0].value is None and not st.orelse


def _is_set_closed(st) -> bool:
    return isinstance(st, ast.Assign) and len(st.targets) == 1 and _is_self_attr(st.targets[0], "_closed") \
        and isinstance(st.value, ast.Constant) and st.value.value is True


def _is_docstring(st) -> bool:
    return isinstance(st, ast.Expr) and isinstance(st.value, ast.Constant) and isinstance(st.value.value, str)


def _adjust_perm_calls(tree) -> list[str]:
    """The os.* calls adjust_shared_perm(path, perm) makes on `path`, in source order."""
    fn = T.find_def(tree, "adjust_shared_perm")
    out = []
    for n in ast.walk(fn):
        if isinstance(n, ast.Call):
            nm = _call_name(n)
            if nm.startswith("os.") and nm not in ("os.fspath",) and n.args and isinstance(n.args[0], ast.Name) \
                    and n.args[0].id == "path":
                out.append((n.lineno, n.col_offset, nm[3:]))
    calls = [c for _, _, c in sorted(out)]
    for c in calls:
        if c not in ("stat", "chmod"):
            raise T.TranslateError(f"adjust_shared_perm: unexpected call os.{c} on the path")
    if calls != ["stat", "chmod"]:
        raise T.TranslateError(f"adjust_shared_perm: expected os.stat then os.chmod, found {calls}")
    return calls


def _rename_stmt(st) -> bool:
    """`if getattr(os,'replace',None) is not None: os.replace(lock, f) else: os.rename/_fancy_rename(lock, f)`
    or a bare call of one of these with (self._lockfilename, self._filename)."""
    calls = [n for n in ast.walk(st) if isinstance(n, ast.Call) and _call_name(n) in
             ("os.replace", "os.rename", "_fancy_rename")]
    if not calls:
        return False
    for c in calls:
        if len(c.args) != 2 or not _is_self_attr(c.args[0], "_lockfilename") or not _is_self_attr(c.args[1], "_filename"):
            raise T.TranslateError("close(): rename with unexpected arguments")
    # no other effectful statement may hide in there
    for n in ast.walk(st):
        if isinstance(n, (ast.Assign, ast.AugAssign, ast.Return, ast.Raise, ast.Try)):
            raise T.TranslateError("close(): rename statement contains more than the rename")
        if isinstance(n, ast.Call) and _call_name(n) not in ("os.replace", "os.rename", "_fancy_rename", "getattr"):
            raise T.TranslateError(f"close(): unexpected call {_call_name(n)} in the rename statement")
    return True


def _scan_close(tree):
    fn = T.find_def(tree, "_GitFile.close")
    perm_calls = _adjust_perm_calls(tree)
    st = {"guard": False, "pre": [], "replace": False, "replace_in_try": False, "mark": False,
          "fsync_conditional": False}

    def walk(stmts, in_try):
        for s in stmts:
            if _is_docstring(s):
                continue
            if _is_closed_guard(s):
                if st["pre"] or st["replace"]:
                    raise T.TranslateError("close(): `_closed` guard is not the first statement")
                st["guard"] = True
                continue
            if st["replace"]:
                if _is_set_closed(s):
                    st["mark"] = True
                    continue
                raise T.TranslateError(f"close(): statement after the rename not understood (line {s.lineno})")
            if isinstance(s, ast.Expr) and isinstance(s.value, ast.Call):
                nm = _call_name(s.value)
                if nm == "self._file.flush":
                    st["pre"].append(("flush", in_try))
                    continue
                if nm == "self._file.close":
                    st["pre"].append(("fclose", in_try))
                    continue
                if nm == "os.fsync":
                    st["pre"].append(("fsync", in_try))
                    continue
                if nm == "adjust_shared_perm":
                    if not s.value.args or not _is_self_attr(s.value.args[0], "_lockfilename"):
                        raise T.TranslateError("close(): adjust_shared_perm is not applied to the lock file")
                    st["pre"] += [(c, in_try) for c in perm_calls]
                    continue
            if isinstance(s, ast.If) and _is_self_attr(s.test, "_fsync") and not s.orelse and len(s.body) == 1 \
                    and isinstance(s.body[0], ast.Expr) and isinstance(s.body[0].value, ast.Call) \
                    and _call_name(s.body[0].value) == "os.fsync":
                st["pre"].append(("fsync", in_try))
                st["fsync_conditional"] = True
                continue
            if isinstance(s, ast.Try):
                if s.handlers or s.orelse:
                    raise T.TranslateError("close(): try statement with except/else clauses")
                fin = s.finalbody
                aborts = len(fin) == 1 and isinstance(fin[0], ast.Expr) and isinstance(fin[0].value, ast.Call) \
                    and _call_name(fin[0].value) == "self.abort"
                if fin and not aborts:
                    raise T.TranslateError("close(): finally clause is not `self.abort()`")
                walk(s.body, in_try or aborts)
                continue
            if _rename_stmt(s):
                st["replace"] = True
                st["replace_in_try"] = in_try
                continue
            raise T.TranslateError(f"close(): statement not understood (line {s.lineno}): {ast.dump(s)[:100]}")

    walk(fn.body, False)
    if not st["replace"]:
        raise T.TranslateError("close(): no rename of the lock file onto the target found")
    return st


def _scan_abort(tree):
    fn = T.find_def(tree, "_GitFile.abort")
    body = [s for s in fn.body if not _is_docstring(s)]
    guard = bool(body) and _is_closed_guard(body[0])
    if guard:
        body = body[1:]

    def is_file_close(st):
        return isinstance(st, ast.Expr) and isinstance(st.value, ast.Call) and _call_name(st.value) == "self._file.close"
    # shape A:  self._file.close(); <unlink block>
    # shape B:  try: self._file.close()  finally: <unlink block>      (the unlink runs even if the close raises)
    close_in_try = False
    if body and is_file_close(body[0]):
        body = body[1:]
    elif len(body) == 1 and isinstance(body[0], ast.Try) and len(body[0].body) == 1 and is_file_close(body[0].body[0]) \
            and not body[0].handlers and not body[0].orelse and body[0].finalbody:
        close_in_try = True
        body = body[0].finalbody
    else:
        raise T.TranslateError("abort(): does not start by closing the file object")
    removes = False
    for n in ast.walk(fn):
        if isinstance(n, ast.Call) and _call_name(n) in ("os.remove", "os.unlink"):
            if len(n.args) != 1 or not _is_self_attr(n.args[0], "_lockfilename"):
                raise T.TranslateError("abort(): removes something other than the lock file")
            removes = True
    if removes:
        if len(body) != 1 or not isinstance(body[0], ast.Try):
            raise T.TranslateError("abort(): expected `try: os.remove(lock); self._closed = True except FileNotFoundError`")
        tr = body[0]
        ok = len(tr.body) == 2 and isinstance(tr.body[0], ast.Expr) and isinstance(tr.body[0].value, ast.Call) \
            and _call_name(tr.body[0].value) in ("os.remove", "os.unlink") and _is_set_closed(tr.body[1]) \
            and len(tr.handlers) == 1 and isinstance(tr.handlers[0].type, ast.Name) \
            and tr.handlers[0].type.id == "FileNotFoundError" and len(tr.handlers[0].body) == 1 \
            and _is_set_closed(tr.handlers[0].body[0]) and not tr.orelse and not tr.finalbody
        if not ok:
            raise T.TranslateError("abort(): try/except around os.remove has an unexpected shape")
    else:
        # without the unlink the only thing abort() may do is mark the handle closed
        if not all(_is_set_closed(s) for s in body):
            raise T.TranslateError("abort(): body not understood")
    return {"guard": guard, "removes": removes, "close_in_try": close_in_try}


def _scan_init(tree):
    """EVERY os.open of the lock path in `_GitFile.__init__` (retry paths included), in source order, with its flags
    resolved through local variables (`flags = os.O_RDWR | …; os.open(lock, flags | os.O_EXCL, mask)`)."""
    fn = T.find_def(tree, "_GitFile.__init__")
    assigns = {}
    for n in ast.walk(fn):
        if isinstance(n, ast.Assign) and len(n.targets) == 1 and isinstance(n.targets[0], ast.Name):
            assigns.setdefault(n.targets[0].id, []).append(n)
        if isinstance(n, ast.AugAssign) and isinstance(n.target, ast.Name):
            assigns.setdefault(n.target.id, []).append(n)

    def flags_of(expr, before_line, depth=0):
        out = set()
        for n in ast.walk(expr):
            if isinstance(n, ast.Attribute) and isinstance(n.value, ast.Name) and n.value.id == "os" and n.attr.startswith("O_"):
                out.add(n.attr)
            elif isinstance(n, ast.Name) and n.id in assigns and depth < 5:
                # every assignment to that name that precedes the use (augmented ones add flags)
                for a in assigns[n.id]:
                    if a.lineno <= before_line:
                        out |= flags_of(a.value, a.lineno, depth + 1)
        return out
    opens = sorted((n for n in ast.walk(fn) if isinstance(n, ast.Call) and _call_name(n) == "os.open"),
                   key=lambda n: (n.lineno, n.col_offset))
    if not opens:
        raise T.TranslateError("_GitFile.__init__: no os.open found")
    per_open = []
    for c in opens:
        if not c.args or not _is_self_attr(c.args[0], "_lockfilename"):
            raise T.TranslateError("_GitFile.__init__: an os.open is not applied to the lock file name")
        fl = flags_of(c.args[1], c.lineno) if len(c.args) > 1 else set()
        per_open.append(fl)
    locked = False
    for n in ast.walk(fn):
        if isinstance(n, ast.Try) and any(x is opens[0] for x in ast.walk(n)):
            for h in n.handlers:
                names = [h.type.id] if isinstance(h.type, ast.Name) else \
                    [e.id for e in getattr(h.type, "elts", []) if isinstance(e, ast.Name)]
                if "FileExistsError" in names:
                    for r in ast.walk(h):
                        if isinstance(r, ast.Raise) and isinstance(r.exc, ast.Call) and _call_name(r.exc) == "FileLocked":
                            locked = True
    if not locked:
        raise T.TranslateError("_GitFile.__init__: FileExistsError is not turned into FileLocked")
    # a retry open must sit on a path that re-creates the directory (the model puts a mkdir step before it)
    mk = any(isinstance(n, ast.Call) and _call_name(n) in ("ensure_dir_exists", "os.makedirs", "os.mkdir") for n in ast.walk(fn))
    if len(opens) > 1 and not mk:
        raise T.TranslateError("_GitFile.__init__: several os.open calls but no directory creation between them: shape not understood")
    suffix = None
    for n in ast.walk(fn):
        if isinstance(n, ast.BinOp) and isinstance(n.op, ast.Add) and _is_self_attr(n.left, "_filename") \
                and isinstance(n.right, ast.Constant) and isinstance(n.right.value, str):
            suffix = n.right.value
    if suffix is None:
        raise T.TranslateError("_GitFile.__init__: lock file suffix not found")
    return {"flags": per_open[0], "opens": per_open, "suffix": suffix}


def _scan_exit_del(tree):
    ex = T.find_def(tree, "_GitFile.__exit__")
    body = [s for s in ex.body if not _is_docstring(s)]
    ok = len(body) == 1 and isinstance(body[0], ast.If) and isinstance(body[0].test, ast.Compare) \
        and isinstance(body[0].test.left, ast.Name) and body[0].test.left.id == "exc_type" \
        and isinstance(body[0].test.ops[0], ast.IsNot)

    def only_call(stmts):
        if len(stmts) == 1 and isinstance(stmts[0], ast.Expr) and isinstance(stmts[0].value, ast.Call):
            return _call_name(stmts[0].value)
        return None
    if not ok:
        raise T.TranslateError("_GitFile.__exit__: expected `if exc_type is not None: … else: …`")
    on_exc, normal = only_call(body[0].body), only_call(body[0].orelse)
    if on_exc not in ("self.abort", "self.close") or normal not in ("self.abort", "self.close"):
        raise T.TranslateError(f"_GitFile.__exit__: branches {on_exc}/{normal} not understood")
    de = T.find_def(tree, "_GitFile.__del__")
    del_aborts = any(isinstance(n, ast.Call) and _call_name(n) == "self.abort" for n in ast.walk(de))
    return {"exit_aborts_on_exc": on_exc == "self.abort", "exit_closes_normally": normal == "self.close",
            "del_aborts": del_aborts}


def _scan_index_write(repo: Path):
    tree = T.module_ast(repo / "dulwich" / "index.py")
    fn = T.find_def(tree, "Index.write")
    for n in ast.walk(fn):
        if isinstance(n, ast.Try) and n.handlers:
            for h in n.handlers:
                calls = [_call_name(c) for c in ast.walk(h) if isinstance(c, ast.Call)]
                if "f.close" in calls and "f.abort" not in calls:
                    return True
                if "f.abort" in calls:
                    return False
    # no handler at all (e.g. rewritten as `with`): the handle's __exit__ decides
    return False


def scan_program(repo: Path) -> dict:
    tree = T.module_ast(repo / "dulwich" / "file.py")
    init, close, abort, ed = _scan_init(tree), _scan_close(tree), _scan_abort(tree), _scan_exit_del(tree)
    return {"init": init, "close": close, "abort": abort, "exit_del": ed,
            "index_write_err_closes": _scan_index_write(repo)}


def _lb(b: bool) -> str:
    return "true" if b else "false"


def translate(repo: Path) -> dict:
    p = scan_program(repo)
    pre = ", ".join(f"(.{c}, {_lb(t)})" for c, t in p["close"]["pre"])
    fl = p["init"]["flags"]
    src = T.lean_header("dulwich/file.py: _GitFile.__init__ / close / abort / __exit__ / __del__, adjust_shared_perm; "
                        "dulwich/index.py: Index.write error handler") + f"""import DulwichModel.Model.LockFS

namespace Dulwich.Gen.Lock
open Dulwich.Lock
/-- `os.open(self._lockfilename, FLAGS, mask)`: O_CREAT / O_EXCL among the flags -/
def openCreat : Bool := {_lb("O_CREAT" in fl)}
def openExcl : Bool := {_lb("O_EXCL" in fl)}
/-- EVERY `os.open(self._lockfilename, …)` of `__init__` in source order (the first is the normal open, any further
one a retry after ENOENT and re-creating the parent directory): does it carry both O_CREAT and O_EXCL -/
def opens : List Bool := [{", ".join(_lb("O_CREAT" in f and "O_EXCL" in f) for f in p["init"]["opens"])}]
/-- flags of the first call, for the record -/
def openFlags : List String := [{", ".join('"' + f + '"' for f in sorted(fl))}]
/-- lock file name = target name ++ this -/
def lockSuffix : String := "{p["init"]["suffix"]}"
/-- close(): `if self._closed: return` comes first -/
def guardClose : Bool := {_lb(p["close"]["guard"])}
/-- close(): the calls before the rename, in source order; the flag says whether the call sits inside
the `try … finally: self.abort()` (a failure there is followed by abort()) -/
def closePre : List (PreCall × Bool) := [{pre}]
/-- close(): `if self._fsync:` guards the fsync -/
def fsyncConditional : Bool := {_lb(p["close"]["fsync_conditional"])}
/-- close(): the rename sits inside `try … finally: self.abort()` -/
def finallyAbort : Bool := {_lb(p["close"]["replace_in_try"])}
/-- close(): `self._closed = True` directly after the rename -/
def markClosedOnReplace : Bool := {_lb(p["close"]["mark"])}
/-- abort(): `if self._closed: return` comes first -/
def guardAbort : Bool := {_lb(p["abort"]["guard"])}
/-- abort(): `try: os.remove(self._lockfilename); self._closed = True  except FileNotFoundError: self._closed = True` -/
def abortRemoves : Bool := {_lb(p["abort"]["removes"])}
/-- abort(): `try: self._file.close()  finally: <the unlink block>` — the unlink runs even when closing the file
object raises (its implicit flush fails again when a write error persists) -/
def abortCloseInTry : Bool := {_lb(p["abort"]["close_in_try"])}
/-- `__exit__`: abort() when an exception is in flight, close() otherwise -/
def exitAbortsOnException : Bool := {_lb(p["exit_del"]["exit_aborts_on_exc"])}
def exitClosesNormally : Bool := {_lb(p["exit_del"]["exit_closes_normally"])}
/-- `__del__` calls abort() on a handle that was never closed -/
def delAborts : Bool := {_lb(p["exit_del"]["del_aborts"])}
/-- `Index.write`: the `except:` handler calls f.close() (renames) rather than f.abort() -/
def indexWriteErrCloses : Bool := {_lb(p["index_write_err_closes"])}
end Dulwich.Gen.Lock
"""
    return {"Lock": src}


# ------------------------------------------------------------------------------------------------
# extension of harness/sched.py: `write` / `flush` on the lock file's Python file object are yield
# points and fault-injection points too (they are where ENOSPC/EIO surface), without touching sched.py.

class _YFile:
    """Proxy for the file object `_GitFile` keeps in `self._file`: write()/flush() go through the
    interposer's handler (so they are scheduling / fault-injection points); everything else is passed on."""

    def __init__(self, real, ip, rel):
        self.__dict__["_real"] = real
        self.__dict__["_ip"] = ip
        self.__dict__["_rel"] = rel
        self.__dict__["_broken"] = False    # a PERSISTENT write error (disk full): every later flush fails too

    def _through(self, who, name, do):
        try:
            return self._ip.handler(who, name, (self._rel,), do)
        except BaseException as e:
            if getattr(e, "verif_persistent", False):
                self.__dict__["_broken"] = True
            raise

    @staticmethod
    def _persisting():
        raise OSError(errno.ENOSPC, "No space left on device (persisting)")

    def write(self, data):
        who = self._ip.actor()
        if who is None:
            return self._real.write(data)
        return self._through(who, "write", lambda: self._real.write(data))

    def writelines(self, lines):
        for ln in lines:
            self.write(ln)

    def flush(self):
        who = self._ip.actor()
        if who is None:
            return self._real.flush()
        return self._through(who, "flush", self._persisting if self._broken else (lambda: self._real.flush()))

    def close(self):
        """Closing the file object is a yield / fault point ("fclose") while it is still open: its implicit flush is
        where a persistent write error surfaces a second time.  CPython closes the descriptor even when close()
        raises, and closing a closed file object is a no-op that cannot fail."""
        if self._real.closed:
            return None
        who = self._ip.actor()
        if who is None:
            return self._real.close()
        try:
            return self._ip.handler(who, "fclose", (self._rel,),
                                    self._persisting if self._broken else (lambda: self._real.close()))
        except BaseException:
            try:
                self._real.close()
            except Exception:
                pass
            raise

    def __iter__(self):
        return iter(self._real)

    def __getattr__(self, name):
        return getattr(self._real, name)


class _FileYields:
    """Context manager: while active, `os.fdopen(fd, 'wb', …)` on a descriptor that a registered actor
    obtained through the interposed `os.open` returns a _YFile."""

    def __init__(self, ip: sched.Interposer):
        self.ip = ip

    def __enter__(self):
        self.real = os.fdopen
        real, ip = self.real, self.ip

        def fdopen(fd, *a, **k):
            f = real(fd, *a, **k)
            if ip.actor() is not None and isinstance(fd, int) and fd in ip.fd_paths:
                mode = a[0] if a else k.get("mode", "r")
                if "w" in mode or "a" in mode or "+" in mode:
                    return _YFile(f, ip, ip.fd_paths[fd])
            return f
        os.fdopen = fdopen
        return self

    def __exit__(self, *exc):
        os.fdopen = self.real


def _scrub(e: BaseException):
    """Drop the frames an exception keeps alive (they reference the `_GitFile` handle); the harness decides
    when a handle is finalised, not the garbage collector."""
    try:
        traceback.clear_frames(e.__traceback__)
    except Exception:
        pass
    e.__traceback__ = None
    e.__context__ = None
    e.__cause__ = None


FAULTS = {
    "enospc": lambda: OSError(errno.ENOSPC, "No space left on device (injected)"),
    "eperm": lambda: PermissionError(errno.EPERM, "Operation not permitted (injected)"),
    "kbint": lambda: KeyboardInterrupt("injected"),
    "eio": lambda: OSError(errno.EIO, "Input/output error (injected)"),
    "enospc-persistent": lambda: _persistent_enospc(),
}


def _persistent_enospc():
    """ENOSPC that persists: once it has hit a write()/flush() of a file object, every later flush of that file
    object — including the implicit one in its close() — fails as well (what a full disk does)."""
    e = OSError(errno.ENOSPC, "No space left on device (injected, persistent)")
    e.verif_persistent = True
    return e

FAULT_KINDS = ["enospc", "eperm", "kbint"]
# (os.makedirs itself is not a yield point: the os.mkdir it makes is; the stat of its exists() probe is released at once)
SCHED_CALLS = {"open-x", "open-w", "fsync", "stat", "chmod", "replace", "remove", "mkdir", "rmdir"}
OPEN_CALLS = ("open-x", "open-w")   # open-w: the lock file opened without O_EXCL (only a mutated program does that)
LOCK_CALLS = {"open-x", "write", "flush", "fsync", "fclose", "stat", "chmod", "replace", "remove"}


# ------------------------------------------------------------------------------------------------
# op scripts

class Script:
    """One actor: GitFile(f, 'wb', fsync=…, shared_perm=…) then `body`; `hW`/`hC` = what the caller does when
    write()/close() raises.  ops: ('w', bytes) | 'c' | 'a'."""

    def __init__(self, body, hW=("a",), hC=(), fsync=True, perm=False, mk=False, pruner=False):
        """mk: the caller does ensure_dir_exists(parent) before GitFile(...);  pruner: not a writer at all, one
        os.rmdir(parent) with errors suppressed (what remove_if_equals does to emptied ref directories, lock-free)"""
        self.body, self.hW, self.hC, self.fsync, self.perm = list(body), list(hW), list(hC), fsync, perm
        self.mk, self.pruner = mk, pruner

    @staticmethod
    def _ops(ops):
        return ".".join(("w" + hx(o[1])) if isinstance(o, tuple) else o for o in ops) or "_"

    def spec(self) -> str:
        if self.pruner:
            return "R"
        return (f"{int(self.fsync)}{int(self.perm)}{int(self.mk)}:{self._ops(self.body)}:{self._ops(self.hW)}:"
                f"{self._ops(self.hC)}")

    def to_json(self):
        return {"spec": self.spec()}

    @staticmethod
    def from_spec(s: str) -> "Script":
        if s == "R":
            return Script([], pruner=True)
        flags, body, hW, hC = s.split(":")
        if len(flags) == 2:      # cases recorded before the parent directory was modelled
            flags += "0"

        def ops(t):
            if t == "_":
                return []
            return [("w", unhx(x[1:])) if x[0] == "w" else x for x in t.split(".")]
        return Script(ops(body), ops(hW), ops(hC), flags[0] == "1", flags[1] == "1", mk=flags[2] == "1")

    def intended(self):
        """content this caller means to commit: the writes before its first close() (None if it never closes)"""
        out = b""
        for o in self.body:
            if isinstance(o, tuple):
                out += o[1]
            elif o == "c":
                return out
            else:
                return None
        return None

    def disciplined(self) -> bool:
        """with/abort discipline: never close() after an error"""
        return "c" not in self.hW and "c" not in self.hC


def W(*ds, end="c", **kw):
    return Script([("w", d) for d in ds] + ([end] if end else []), **kw)


PRUNER = Script([], pruner=True)


# ------------------------------------------------------------------------------------------------
# running scripts on real `_GitFile` handles under a schedule

class RealRun:
    def __init__(self):
        self.events = []        # (actor index, call, outcome)
        self.steps = []         # executed schedule: (actor index, fault kind or None)
        self.snaps = []         # snaps[k] = (listing, content of f) after k events
        self.lock_owner = []    # lock_owner[k] = creator of f.lock after k events (None if absent)
        self.closed = {}        # actor index -> handle._closed (handles that exist)
        self.results = {}
        self.written = {}       # actor index -> data successfully written so far, per event index
        self.api = {}           # actor index -> [(op kind 'w'|'c'|'a', 'ok'|'raised')]: the API calls the caller made
        self.dirs = []          # dirs[k] = does the parent directory exist after k events
        self.dir0 = True
        self.error = None


def run_real(root: Path, scripts: list[Script], schedule, init: bytes | None, file_yields=True,
             start_is_step=False, dir0=True) -> RealRun:
    """Drive one `_GitFile` handle per script on root/f following `schedule`:
    a list of (actor index, fault kind | None); entries naming an actor that is not pending are skipped, after
    the list the lowest pending actor runs.  With start_is_step the scheduler's initial park of each thread
    counts as a schedule entry (the convention of harness/sched.py's plain lists)."""
    from dulwich.file import GitFile, FileLocked, PERM_GROUP, ensure_dir_exists
    root = Path(os.path.realpath(root))
    if root.exists():
        shutil.rmtree(root)
    root.mkdir(parents=True)
    # the protected file lives in a directory of its own, which may be missing / pruned / re-created
    pdir = root / "d"
    target = pdir / "f"
    if dir0:
        pdir.mkdir()
        if init is not None:
            target.write_bytes(init)
    else:
        init = None
    rr = RealRun()
    names = [f"a{i:02d}" for i in range(len(scripts))]
    idx = {n: i for i, n in enumerate(names)}
    handles = {}
    wlog = {i: b"" for i in range(len(scripts))}
    sc = sched.Scheduler(str(root), calls=SCHED_CALLS, watch_reads=True, timeout=30.0)

    def make(i, s: Script):
        def do(f, op):
            kind = "w" if isinstance(op, tuple) else op
            log = rr.api.setdefault(i, [])
            log.append((kind, "raised"))
            if isinstance(op, tuple):
                f.write(op[1])
                wlog[i] += op[1]
            elif op == "c":
                f.close()
            else:
                f.abort()
            log[-1] = (kind, "ok")

        def fn():
            if s.pruner:
                try:
                    os.rmdir(str(pdir))
                except OSError:
                    pass
                return "pruned"
            try:
                if s.mk:
                    ensure_dir_exists(str(pdir))
                f = GitFile(str(target), "wb", fsync=s.fsync, shared_perm=PERM_GROUP if s.perm else None)
            except FileLocked:
                return "locked"
            except BaseException as e:  # noqa: BLE001
                _scrub(e)
                return "open-failed"
            handles[i] = f
            cur = None
            try:
                for op in s.body:
                    cur = op
                    do(f, op)
                return "done"
            except BaseException as e:  # noqa: BLE001
                _scrub(e)
                h = s.hW if isinstance(cur, tuple) else (s.hC if cur == "c" else [])
                try:
                    for op in h:
                        do(f, op)
                except BaseException as e2:  # noqa: BLE001
                    _scrub(e2)
                    return "failed-in-handler"
                return "failed"
        return fn

    for i, s in enumerate(scripts):
        sc.spawn(names[i], make(i, s))

    def snapshot():
        try:
            listing = sorted(os.listdir(pdir))
            there = True
        except FileNotFoundError:
            listing, there = [], False
        try:
            content = target.read_bytes()
        except FileNotFoundError:
            content = None
        rr.dirs.append(there)
        return listing, content

    seq = list(schedule)
    state = {"owner": None, "nev": 0}

    def boring(call, paths):
        # the exists() probe of os.makedirs: a stat of something that is not the lock file
        return call == "stat" and not (paths and paths[0].endswith(".lock"))

    def absorb(history):
        # fold new real events into the log
        evs = [e for e in history if e[1] != "start" and not boring(e[1], e[2])]
        while state["nev"] < len(evs):
            who, call, paths, outcome = evs[state["nev"]]
            i = idx[who]
            rr.events.append((i, call, outcome))
            if call in OPEN_CALLS and outcome == "ok":
                state["owner"] = i
            state["nev"] += 1
            snap = snapshot()
            rr.snaps.append(snap)
            rr.lock_owner.append(state["owner"] if "f.lock" in snap[0] else None)
            rr.written[len(rr.events)] = dict(wlog)

    def choose(pending, history):
        absorb(history)
        for a in sorted(pending):
            if boring(*pending[a]):
                return a
        if not start_is_step:
            for a in sorted(pending):
                if pending[a][0] == "start":
                    return a
        while seq:
            i, fk = seq.pop(0)
            a = names[i]
            if a in pending:
                if pending[a][0] == "start":
                    return a  # (start_is_step) consumes the entry, nothing to inject
                rr.steps.append((i, fk))
                return (a, FAULTS[fk]()) if fk else a
        a = sorted(pending)[0]
        if pending[a][0] != "start":
            rr.steps.append((idx[a], None))
        return a

    rr.dir0 = dir0
    rr.snaps.append(snapshot())
    rr.lock_owner.append(None)
    rr.written[0] = dict(wlog)
    gc_was = gc.isenabled()
    gc.disable()
    old_umask = os.umask(0o022)
    try:
        with warnings.catch_warnings():
            warnings.simplefilter("ignore")
            if file_yields:
                with _FileYields(sc.ip):
                    hist = sc.run(choose)
            else:
                hist = sc.run(choose)
            absorb(sc.history)
            for i, r in sc.results.items():
                rr.results[idx[i]] = r.value if r.exc is None else "exc:" + type(r.exc).__name__
            for i, f in handles.items():
                rr.closed[i] = bool(f._closed)
            # finalise what is still open (uninterposed) so that nothing fires later from the collector
            for f in handles.values():
                if not f._closed:
                    try:
                        f._file.close()
                    except Exception:
                        pass
                    f._closed = True
    except RuntimeError as e:
        rr.error = str(e)
    finally:
        os.umask(old_umask)
        if gc_was:
            gc.enable()
    return rr


ABORT_FCLOSE_CLS = "abort-file-close-error-skips-unlink:lock-left-until-finalizer"


def canon_outcome(o: str) -> str:
    return "inject" if o.startswith("inject:") else o


def canon_event(call: str, outcome: str):
    """os.makedirs of ensure_dir_exists is the model's `mkdir` (EEXIST is swallowed by ensure_dir_exists); a
    failing rmdir of a pruner (ENOTEMPTY / ENOENT, suppressed) is one outcome"""
    oc = canon_outcome(outcome)
    if call in ("makedirs", "mkdir"):
        return "mkdir", ("ok" if oc in ("ok", "FileExistsError") else oc)
    if call == "rmdir":
        return "rmdir", (oc if oc in ("ok", "inject") else "OSError")
    return call, oc


def real_trace(rr: RealRun) -> list[str]:
    out = []
    for k, (i, call, outcome) in enumerate(rr.events):
        listing, content = rr.snaps[k + 1]
        own = rr.lock_owner[k + 1]
        c, oc = canon_event(call, outcome)
        out.append(f"{c}:{oc}:{'x' if content is None else hx(content)}:"
                   f"{'x' if own is None else own}:{int(rr.dirs[k + 1])}")
    return out


def model_line(scripts, steps, init, prog="gen", dir0=True) -> str:
    st = ",".join(f"{i}{'!' if fk else ''}" for i, fk in steps) or "_"
    return (f"c07.run {prog} {'x' if (init is None or not dir0) else hx(init)} {int(dir0)} "
            f"{'|'.join(s.spec() for s in scripts)} {st}")


def parse_model(out: str):
    if " | " not in out:
        return None, {}
    tr, fin = out.split(" | ")
    fin = dict(kv.split("=", 1) for kv in fin.split())
    return (tr.split(";") if tr else []), fin


# ------------------------------------------------------------------------------------------------
# the direct oracle: a mutual-exclusion monitor over what really happened (no model involved)

def monitor(scripts, init, rr: RealRun):
    """Returns a list of (what, cls) violations of the property's words."""
    bad = []
    inside = set()
    failed = set()          # actors that saw an exception from one of their calls
    rm_faulted = set()
    committed = {}
    pre_close_fault = set()
    fclose_failed = set()
    prev_content = rr.snaps[0][1]
    if "f.lock" in rr.snaps[0][0]:
        bad.append(("stale lock before anybody started", "harness"))
    for k, (i, call, outcome) in enumerate(rr.events):
        listing, content = rr.snaps[k + 1]
        owner_before = rr.lock_owner[k]
        oc = canon_outcome(outcome)
        if call in OPEN_CALLS and oc == "ok":
            if inside:
                bad.append((f"step {k}: actor {i} obtained the lock while {sorted(inside)} still hold(s) it",
                            "two-holders"))
            inside.add(i)
        elif call in ("replace", "remove") and oc == "ok":
            if owner_before != i or i not in inside:
                bad.append((f"step {k}: actor {i} {call}d a lock file it does not hold "
                            f"(created by actor {owner_before}, holders {sorted(inside)})", "foreign-lock-disturbed"))
            inside.discard(i)
            if call == "replace":
                committed[i] = content
                if content != rr.written[k + 1][i]:
                    bad.append((f"step {k}: after actor {i}'s rename `f` is not what it wrote through its handle",
                                "rename-wrong-content"))
                if scripts[i].disciplined():
                    if i in failed:
                        bad.append((f"step {k}: actor {i} renamed its lock file into place after one of its calls "
                                    f"had failed", "commit-after-failure"))
                    elif content != scripts[i].intended():
                        bad.append((f"step {k}: actor {i} committed incomplete content", "partial-commit"))
        elif call == "remove" and oc == "FileNotFoundError":
            if i in inside:
                bad.append((f"step {k}: the lock file of holder {i} had vanished when it released it",
                            "foreign-lock-disturbed"))
            inside.discard(i)
        elif call in ("replace", "stat", "chmod") and oc == "FileNotFoundError":
            if i in inside:
                bad.append((f"step {k}: the lock file of holder {i} had vanished under it ({call})",
                            "foreign-lock-disturbed"))
        if call in ("mkdir", "makedirs", "rmdir"):
            pass    # directory housekeeping (EEXIST / ENOTEMPTY are expected and swallowed by the callers)
        elif oc not in ("ok",) and not (call == "remove" and oc == "FileNotFoundError") and \
                not (call in OPEN_CALLS and oc == "FileExistsError"):
            failed.add(i)
            if call == "remove":
                rm_faulted.add(i)
            if call in ("flush", "fsync", "stat", "chmod") and oc in ("inject", "ValueError"):
                pre_close_fault.add(i)
            if call == "fclose":
                fclose_failed.add(i)
        # readers: `f` only changes at a successful rename, never disappears
        if content != prev_content and not (call == "replace" and oc == "ok"):
            bad.append((f"step {k}: `f` changed at a step that is not a successful rename ({call}:{oc})",
                        "target-changed-outside-rename"))
        if content is None and init is not None and rr.dir0:
            bad.append((f"step {k}: `f` is missing", "target-missing"))
        prev_content = content
        # holders still have their lock file in place
        if inside and "f.lock" not in listing:
            bad.append((f"step {k}: holder(s) {sorted(inside)} but no lock file", "foreign-lock-disturbed"))
    # at the end every handle has been closed/aborted by its caller: no lock may be left behind
    listing, content = rr.snaps[-1]
    if rr.error is None and "f.lock" in listing:
        holder = rr.lock_owner[-1]
        rel = [(op, res) for op, res in rr.api.get(holder, []) if op in ("c", "a")]
        if holder in rm_faulted:
            pass    # unlink itself failed: nothing the code can do
        elif not rel:
            pass    # the caller never called close()/abort() (after the failure): its fault, not the protocol's
        elif rel[-1][1] == "raised" and holder in fclose_failed:
            bad.append((f"abort() of actor {holder} raised from closing the file object before the unlink and left "
                        f"`f.lock` behind (only the finaliser would remove it)", ABORT_FCLOSE_CLS))
        elif rel[-1] == ("c", "raised") and holder in pre_close_fault:
            bad.append((f"close() of actor {holder} failed before the rename and left `f.lock` behind "
                        f"(only the finaliser would remove it)", "close-fault-before-rename:lock-left-until-finalizer"))
        else:
            bad.append((f"lock file left behind by actor {holder} although its caller's last call was "
                        f"{rel[-1]}", "lock-leaked"))
    return bad


# ------------------------------------------------------------------------------------------------
# one case = scripts + schedule: real run, monitor, model comparison

def check_case(ctx, stream, root, scripts, schedule, init, tag=None, model=True, plain=False, lines=None, dir0=True):
    if not dir0:
        init = None
    rr = run_real(root, scripts, schedule, init, file_yields=not plain, start_is_step=plain, dir0=dir0)
    case = {"scripts": [s.spec() for s in scripts], "schedule": [[i, fk] for i, fk in schedule],
            "executed": [[i, fk] for i, fk in rr.steps], "init": None if init is None else hx(init), "plain": plain,
            "dir0": dir0}
    if rr.error is not None:
        raise core.InfraError(f"scheduler failed on {case}: {rr.error}")
    nfault = sum(1 for _, fk in rr.steps if fk)
    ctx.count(stream, (tuple(case["scripts"]), tuple(map(tuple, case["executed"])), case["init"]), True,
              tag or f"{len(scripts)}actors:{nfault}faults")
    for what, cls in monitor(scripts, init, rr):
        ctx.oracle_fail(stream, dict(case, events=[list(e) for e in rr.events]), what, cls)
    if model and not plain:
        lines.append((stream, case, model_line(scripts, rr.steps, init, dir0=dir0), real_trace(rr),
                      "".join("1" if rr.closed.get(i) else "0" for i in range(len(scripts)))))
    return rr


def flush_model(ctx, lines):
    if not lines:
        return
    outs = ctx.driver.batch([l[2] for l in lines])
    for (stream, case, line, real, closed), out in zip(lines, outs):
        tr, fin = parse_model(out)
        if tr is None:
            ctx.disagree(stream, case, out[:200], ";".join(real)[:400])
            continue
        if tr != real:
            k = next((j for j in range(min(len(tr), len(real))) if tr[j] != real[j]), min(len(tr), len(real)))
            ctx.disagree(stream, dict(case, first_diff_step=k), ";".join(tr)[:600], ";".join(real)[:600])
        elif fin.get("closed") != closed or "0" in fin.get("done", "0"):
            ctx.disagree(stream, case, f"final {fin}", f"closed={closed} (all actors finished)")
    lines.clear()


# ------------------------------------------------------------------------------------------------
# streams under the scheduler

def solo_len(root, s: Script, init) -> int:
    """number of yield points of the script on its own, parent directory present (an upper bound when it is not)"""
    rr = run_real(root, [s], [], init)
    if rr.error:
        raise core.InfraError("solo run failed: " + rr.error)
    return len(rr.events)


PAIR_SCRIPTS = [
    ("wwc/wc", W(b"A1", b"A2"), W(b"B1")),
    ("wc-nofsync/wc", W(b"A", fsync=False), W(b"B")),
    ("wc-perm/wc-perm", W(b"A", perm=True), W(b"BB", perm=True)),
    ("wa/wc", W(b"A", end="a"), W(b"B")),
    ("wc+a/wc+c", Script([("w", b"A"), "c", "a"]), Script([("w", b"B"), "c", "c"])),
    ("wa+c/a", Script([("w", b"A"), "a", "c"]), Script(["a"])),
    ("c-empty/wcw", Script(["c"]), Script([("w", b"B"), "c", ("w", b"late")])),
    ("with-finalised/with", W(b"A", hC=["a"]), W(b"B", hC=["a"], perm=True)),
]


# LOCK ACQUISITION WHEN THE PARENT DIRECTORY IS MISSING / PRUNED: (name, a, b, directory present initially, init)
DIR_PAIRS = [
    ("nomk/mk:dir-absent", W(b"A"), W(b"B", mk=True), False, None),
    ("mk/mk:dir-absent", W(b"A1", b"A2", mk=True), W(b"B", mk=True, fsync=False), False, None),
    ("mk/nomk:dir-absent", W(b"A", mk=True, end="a"), W(b"B"), False, None),
    ("mk/pruner:dir-empty", W(b"A", mk=True), PRUNER, True, None),
    ("nomk/pruner:dir-empty", W(b"A", fsync=False), PRUNER, True, None),
    ("mk/pruner:dir-with-file", W(b"A", mk=True), PRUNER, True, b"old"),
]


def _stream_exhaustive2(ctx, root, lines):
    """all interleavings with <= 2 pre-emptions of two actors, for a catalogue of script pairs"""
    stream = "sched.exhaustive2"
    total = 0
    for name, a, b in PAIR_SCRIPTS:
        for init in (b"old",) if name != "wwc/wc" else (b"old", None):
            la, lb = solo_len(root, a, init), solo_len(root, b, init)
            maxp = 3 if ctx.thorough else 2
            for sch in sched.enumerate_schedules({"0": la, "1": lb}, maxp):
                rr = check_case(ctx, stream, root, [a, b], [(int(x), None) for x in sch], init, tag=name, lines=lines)
                total += 1
            if name == "wwc/wc" and init is not None:
                ctx.sample({"stream": stream, "scripts": [a.spec(), b.spec()], "schedule": "".join(sch),
                            "real_trace": real_trace(rr)})
        flush_model(ctx, lines)
    for name, a, b, dir0, init in DIR_PAIRS:
        la, lb = solo_len(root, a, init), solo_len(root, b, init)
        for sch in sched.enumerate_schedules({"0": la, "1": lb}, 3 if ctx.thorough else 2):
            check_case(ctx, stream, root, [a, b], [(int(x), None) for x in sch], init, tag=name, lines=lines, dir0=dir0)
            total += 1
        flush_model(ctx, lines)
    ctx.extra_cov["exhaustive2_schedules"] = total
    ctx.extra_cov["exhaustive2_max_preemptions"] = 3 if ctx.thorough else 2


def _stream_faults2(ctx, root, lines):
    """a fault at every position of a few base interleavings, every fault kind"""
    stream = "sched.faults2"
    pairs = [("wwc-perm/wc", W(b"A1", b"A2", perm=True, hC=["a"]), W(b"B", hC=["a"])),
             ("with/with", W(b"A", perm=True), W(b"B")),
             ("wc/wa", W(b"A", hC=["a"]), W(b"B", end="a", hC=["a"])),
             ("indexwrite-style/wc", Script([("w", b"A1"), ("w", b"A2"), "c"], hW=["c"], hC=["c"], perm=True), W(b"B"))]
    n = 0
    for name, a, b in pairs:
        la, lb = solo_len(root, a, b"old"), solo_len(root, b, b"old")
        bases = [[0] * la + [1] * lb, [1] * lb + [0] * la, [0] * 2 + [1] + [0] * la + [1] * lb,
                 [0] * (la - 1) + [1] + [0] * 3 + [1] * lb]
        kinds = FAULT_KINDS + (["eio"] if ctx.thorough else [])
        for base in bases:
            for pos in range(len(base)):
                for fk in kinds:
                    sch = [(x, fk if j == pos else None) for j, x in enumerate(base)]
                    check_case(ctx, stream, root, [a, b], sch, b"old", tag=f"{name}:{fk}", lines=lines)
                    n += 1
        flush_model(ctx, lines)
    ctx.extra_cov["fault_schedules_2actors"] = n


def _stream_faultseq(ctx, root, lines):
    """fault SEQUENCES: a call fails and the same actor's next call fails too — how a persistent error (disk
    full) looks to the protocol: flush fails in close(), then the implicit flush of `self._file.close()` inside
    abort() fails again."""
    stream = "sched.faultseq"
    pairs = [("with/with", W(b"A", perm=True), W(b"B")),
             ("with-finalised/with-finalised", W(b"A1", b"A2", hC=["a"]), W(b"B", hC=["a"], fsync=False)),
             ("wa/with", W(b"A", end="a"), W(b"B"))]
    n = 0
    for name, a, b in pairs:
        la, lb = solo_len(root, a, b"old"), solo_len(root, b, b"old")
        bases = [[0] * (la + 2) + [1] * (lb + 2), [0] * 2 + [1] + [0] * (la + 2) + [1] * (lb + 2),
                 [1] * (lb + 2) + [0] * (la + 2)]
        for base in bases:
            for pos in range(len(base)):
                nxt = next((j for j in range(pos + 1, len(base)) if base[j] == base[pos]), None)
                if nxt is None:
                    continue
                for fk in (FAULT_KINDS if ctx.thorough else ["enospc"]):
                    sch = [(x, fk if j in (pos, nxt) else None) for j, x in enumerate(base)]
                    check_case(ctx, stream, root, [a, b], sch, b"old", tag=f"{name}:{fk}x2", lines=lines)
                    n += 1
        flush_model(ctx, lines)
    ctx.extra_cov["fault_sequences_2actors"] = n


def devfull_probe(root: Path):
    """A REAL persistent ENOSPC, not an injected one: the handle's file object is replaced by one on /dev/full, so
    every flush genuinely fails.  Returns None when /dev/full is unavailable, else a dict of what was seen."""
    from dulwich.file import GitFile
    if not os.path.exists("/dev/full"):
        return None
    root = Path(os.path.realpath(root))
    shutil.rmtree(root, ignore_errors=True)
    root.mkdir(parents=True)
    p = str(root / "f")
    with open(p, "wb") as fh:
        fh.write(b"old")
    out = {}
    gc_was = gc.isenabled()
    gc.disable()
    try:
        with warnings.catch_warnings():
            warnings.simplefilter("ignore")
            h = GitFile(p, "wb")
            real = h._file
            h._file = os.fdopen(os.open("/dev/full", os.O_WRONLY), "wb")
            real.close()
            try:
                with h:
                    h.write(b"new")
                out["raised"] = None
            except OSError as e:
                out["raised"] = f"OSError errno={e.errno}"
                out["lock_while_handling"] = os.path.exists(p + ".lock")
                out["_closed"] = bool(h._closed)
                _scrub(e)
                del e
            del h
            gc.collect()
            out["lock_after_finaliser"] = os.path.exists(p + ".lock")
            with open(p, "rb") as fh:
                out["content"] = fh.read().decode()
            if os.path.exists(p + ".lock"):
                os.remove(p + ".lock")
    finally:
        if gc_was:
            gc.enable()
    return out


def _rand_script(rng, who: int) -> Script:
    tagb = bytes([65 + who])
    r = rng.random()
    if r < 0.6:
        body = [("w", tagb * rng.randint(0, 3)) for _ in range(rng.randint(0, 3))] + [rng.choice(["c", "c", "a"])]
    else:
        body = [rng.choice([("w", tagb * rng.randint(1, 2)), "c", "a"]) for _ in range(rng.randint(1, 4))]
    hW = rng.choice([["a"], ["a"], ["a"], ["c"], []])
    hC = rng.choice([[], ["a"], ["a"], ["c"]])
    return Script(body, hW, hC, fsync=rng.random() < 0.7, perm=rng.random() < 0.4, mk=rng.random() < 0.3)


def _stream_three(ctx, root, lines):
    """three actors: a sample of the <=2-pre-emption interleavings plus random ones"""
    stream = "sched.three"
    rng = ctx.rng
    trio = [W(b"A"), W(b"B", perm=True), W(b"C", fsync=False)]
    ls = [solo_len(root, s, b"old") for s in trio]
    allsch = list(sched.enumerate_schedules({str(i): l for i, l in enumerate(ls)}, 2))
    ctx.extra_cov["three_actor_le2preempt_total"] = len(allsch)
    n = ctx.budget(150)
    pick = allsch if len(allsch) <= n else rng.sample(allsch, n)
    for sch in pick:
        check_case(ctx, stream, root, trio, [(int(x), None) for x in sch], b"old", tag="enum<=2", lines=lines)
    # the window the old defect needed: X renames, Y opens, X's next step, Z opens — for every role assignment
    for perm in itertools.permutations(range(3)):
        x, y, z = perm
        sch = [(x, None)] * (ls[x]) + [(y, None)] + [(x, None)] + [(z, None)] + [(y, None)] * ls[y] + [(z, None)] * ls[z]
        check_case(ctx, stream, root, trio, sch, b"old", tag="rename-open-window", lines=lines)
    flush_model(ctx, lines)
    # a writer whose caller creates the directory, one whose caller does not, and a pruner
    for dir0 in (True, False):
        trio_d = [W(b"A", mk=True), W(b"B", fsync=False), PRUNER]
        lsd = [solo_len(root, x, None) for x in trio_d]
        alld = list(sched.enumerate_schedules({str(i): l for i, l in enumerate(lsd)}, 2))
        nd = ctx.budget(80)
        for sch in (alld if len(alld) <= nd else rng.sample(alld, nd)):
            check_case(ctx, stream, root, trio_d, [(int(x), None) for x in sch], None, tag=f"dir:{int(dir0)}:enum<=2",
                       lines=lines, dir0=dir0)
    flush_model(ctx, lines)
    for _ in range(ctx.budget(150)):
        sch = []
        rem = list(ls)
        while any(rem):
            i = rng.choice([j for j in range(3) if rem[j]])
            run_len = rng.randint(1, rem[i])
            sch += [(i, None)] * run_len
            rem[i] -= run_len
        check_case(ctx, stream, root, trio, sch, b"old", tag="random", lines=lines)
    flush_model(ctx, lines)


def _stream_random(ctx, root, lines):
    """random scripts (also undisciplined callers), 2-3 actors, random schedules with random faults"""
    stream = "sched.random"
    rng = ctx.rng
    for _ in range(ctx.budget(500)):
        n = rng.choice([2, 2, 3])
        scripts = [_rand_script(rng, i) for i in range(n)]
        init = rng.choice([b"old", b"old", None, b""])
        dir0 = True
        if rng.random() < 0.3:      # directory trouble: a pruner among the actors and/or no directory to begin with
            if rng.random() < 0.7:
                scripts[rng.randrange(n)] = PRUNER
            dir0 = rng.random() < 0.5
            init = None if (not dir0 or rng.random() < 0.7) else init
        sch = []
        for _ in range(rng.randint(4, 10 * n)):
            fk = rng.choice(FAULT_KINDS) if rng.random() < 0.12 else None
            sch.append((rng.randrange(n), fk))
        rr = check_case(ctx, stream, root, scripts, sch, init, lines=lines, dir0=dir0)
        if len(ctx.samples) < 4 and any(fk for _, fk in rr.steps) and len(rr.events) > 8:
            ctx.sample({"stream": stream, "scripts": [x.spec() for x in scripts],
                        "executed": [f"{i}{'!' + fk if fk else ''}" for i, fk in rr.steps], "real_trace": real_trace(rr)})
    flush_model(ctx, lines)


# the recorded three-actor schedule of the repaired defect, in this module's step convention:
# A: open-x write flush fsync fclose replace | B: open-x | A: (old program: remove — unlinks B's lock) | C: open-x
OLD_DEFECT_STEPS = [(0, None)] * 6 + [(1, None), (0, None), (2, None)]
OLD_DEFECT_SCRIPTS = [W(b"A"), W(b"B"), W(b"C")]


def _run_corpus(ctx, root, lines):
    d = core.VERIF / "corpus" / "C07"
    stream = "corpus"
    for f in sorted(d.glob("*.json")):
        c = json.loads(f.read_text())
        if "actors" in c and isinstance(c.get("schedule"), list) and c["schedule"] and isinstance(c["schedule"][0], str):
            # harness/sched.py convention: actor names, the initial park counts as a step, plain os.* yield points
            names = sorted(c["actors"])
            scripts = [W(bytes([65 + i])) for i in range(len(names))]
            sch = [(names.index(a), None) for a in c["schedule"]]
            check_case(ctx, stream, root, scripts, sch, b"old", tag=f.stem + ":plain", plain=True, lines=lines)
            if f.stem == "three_actor_foreign_lock_removed":
                # the same window in this module's convention (write/flush are yield points too), with the model
                check_case(ctx, stream, root, OLD_DEFECT_SCRIPTS, OLD_DEFECT_STEPS, b"old", tag=f.stem + ":steps",
                           lines=lines)
                out = ctx.driver.batch([model_line(OLD_DEFECT_SCRIPTS, OLD_DEFECT_STEPS, b"old", prog="old")])[0]
                tr, fin = parse_model(out)
                ctx.count(stream, ("old-program", out), True, "old-program-model")
                # on the OLD program the model must show the defect: C acquires while B still owns
                if not (tr and tr[-1].startswith("open-x:ok") and fin.get("owns") == "011"):
                    ctx.disagree(stream, {"witness": f.name}, out[:300],
                                 "expected the pre-dd7ffc5 program to let C in while B owns the lock")
        elif c.get("kind") == "devfull":
            r = devfull_probe(root.parent / "devfull")
            if r is None:
                ctx.notes.append("/dev/full not available: real persistent-ENOSPC witness skipped")
                continue
            ctx.count(stream, ("devfull", json.dumps(r, sort_keys=True)), True, f.stem)
            ctx.extra_cov["devfull_probe"] = r
            if r.get("content") != "old":
                ctx.oracle_fail(stream, {"witness": f.name, "seen": r}, "a write that failed with a real ENOSPC "
                                "(/dev/full) changed the target", "devfull:target-changed")
            if r.get("lock_after_finaliser"):
                ctx.oracle_fail(stream, {"witness": f.name, "seen": r}, "lock left for good after a real ENOSPC", "lock-leaked")
            elif r.get("raised") and r.get("lock_while_handling"):
                ctx.oracle_fail(stream, {"witness": f.name, "seen": r},
                                "`with GitFile(...)` failed with a real, persistent ENOSPC (/dev/full): close() and the "
                                "abort() in its finally both raise from flushing, the unlink is skipped and `f.lock` is "
                                "still there while the caller handles the error", ABORT_FCLOSE_CLS)
        elif c.get("kind") == "callers2":
            _stream_callers2(ctx, Path(os.path.realpath(ctx.scratch)) / "corpus-callers2", only_pairs={tuple(c["pair"])},
                             fixed_schedule=c["schedule"], stream="corpus.callers2")
        elif c.get("kind") == "caller-fault":
            _stream_fault_callers(ctx, Path(os.path.realpath(ctx.scratch)) / "corpus-callers", only={c["routine"]},
                                  only_fault=(c["fail_at"], c["fault"]), stream="corpus.callers", extra=False)
        elif "scripts" in c:   # a case recorded by this module
            scripts = [Script.from_spec(s) for s in c["scripts"]]
            sch = [(i, fk) for i, fk in c["schedule"]]
            init = None if c.get("init") is None else unhx(c["init"])
            check_case(ctx, stream, root, scripts, sch, init, tag=f.stem, plain=bool(c.get("plain")), lines=lines,
                       dir0=c.get("dir0", True))
    flush_model(ctx, lines)


# ------------------------------------------------------------------------------------------------
# fault injection inside every dulwich routine that writes through the lock protocol
# (direct oracle on the real file system; no model involved)

FIXED_TIME = 1_700_000_000


def _commit(tree_id, parents, msg):
    from dulwich.objects import Commit
    c = Commit()
    c.tree = tree_id
    c.parents = parents
    c.author = c.committer = b"V Erif <verif@example.com>"
    c.author_time = c.commit_time = FIXED_TIME
    c.author_timezone = c.commit_timezone = 0
    c.message = msg
    return c


def _entry(sha, size=6):
    from dulwich.index import IndexEntry
    return IndexEntry((FIXED_TIME, 0), (FIXED_TIME, 0), 1, 2, 0o100644, 1000, 1000, size, sha, 0, 0)


def build_template(tpl: Path) -> dict:
    """A small non-bare repository with loose + packed refs, an index, config, shallow, alternates,
    commit-graph.  Returns the ids the scenarios use."""
    from dulwich.repo import Repo
    from dulwich.objects import Blob, Tree
    if tpl.exists():
        shutil.rmtree(tpl)
    tpl.parent.mkdir(parents=True, exist_ok=True)
    r = Repo.init(str(tpl), mkdir=True)
    blob = Blob.from_string(b"hello\n")
    tree = Tree()
    tree.add(b"a.txt", 0o100644, blob.id)
    c1 = _commit(tree.id, [], b"one\n")
    c2 = _commit(tree.id, [c1.id], b"two\n")
    for o in (blob, tree, c1, c2):
        r.object_store.add_object(o)
    r.refs[b"refs/heads/master"] = c1.id
    r.refs[b"refs/heads/topic"] = c1.id
    r.refs[b"refs/tags/v1"] = c1.id
    r.refs[b"refs/heads/x/y"] = c1.id      # the only ref below refs/heads/x/: deleting it prunes the directory
    r.refs.add_packed_refs({b"refs/heads/packed": c1.id, b"refs/tags/v0": c1.id})
    from dulwich.index import Index
    idx = Index(os.path.join(r.controldir(), "index"), read=False)
    idx[b"a.txt"] = _entry(blob.id)
    idx.write()
    r.update_shallow({c1.id}, None)
    alt = tpl / "alt-objects"
    alt.mkdir()
    r.object_store.add_alternate_path(str(alt))
    r.object_store.write_commit_graph()
    r.close()
    return {"blob": blob.id, "tree": tree.id, "c1": c1.id, "c2": c2.id}


def _scenarios(ids):
    """(name, op(worktree path)) for every routine that writes through GitFile(…, 'wb')."""
    from dulwich.repo import Repo
    from dulwich.objects import Blob
    c1, c2, blob = ids["c1"], ids["c2"], ids["blob"]
    kw = dict(committer=b"V Erif <verif@example.com>", timestamp=FIXED_TIME, timezone=0, message=b"verif")

    def with_repo(fn):
        def op(w):
            r = Repo(str(w))
            try:
                return fn(r, w)
            finally:
                r.close()
        return op

    def index_write(r, w):
        idx = r.open_index()
        idx[b"b.txt"] = _entry(blob, 7)
        idx[b"dir/c.txt"] = _entry(blob, 8)
        idx.write()

    def index_write_shared(r, w):
        from dulwich.index import Index
        from dulwich.file import PERM_GROUP
        idx = Index(os.path.join(r.controldir(), "index"), shared_perm=PERM_GROUP)
        idx[b"b.txt"] = _entry(blob, 7)
        idx.write()

    def index_write_skiphash(r, w):
        from dulwich.index import Index
        idx = Index(os.path.join(r.controldir(), "index"), skip_hash=True)
        idx[b"b.txt"] = _entry(blob, 7)
        idx.write()

    def locked_index(r, w):
        from dulwich.index import locked_index as li
        with li(os.path.join(r.controldir(), "index")) as idx:
            idx[b"b.txt"] = _entry(blob, 7)

    def set_if_equals(r, w):
        assert r.refs.set_if_equals(b"refs/heads/master", c1, c2, **kw)

    def set_new(r, w):
        assert r.refs.set_if_equals(b"refs/heads/new/deep", None, c2, **kw)

    def add_if_new(r, w):
        assert r.refs.add_if_new(b"refs/heads/new2", c2, **kw)

    def set_symbolic(r, w):
        r.refs.set_symbolic_ref(b"HEAD", b"refs/heads/topic", **kw)

    def remove_packed(r, w):
        assert r.refs.remove_if_equals(b"refs/heads/packed", c1, **kw)

    def remove_loose(r, w):
        assert r.refs.remove_if_equals(b"refs/heads/topic", c1, **kw)

    def add_packed(r, w):
        r.refs.add_packed_refs({b"refs/heads/topic": c1, b"refs/tags/v0": None})

    def pack_refs(r, w):
        r.refs.pack_refs(all=True)

    def locked_ref(r, w):
        from dulwich.refs import locked_ref as lr
        with lr(r.refs, b"refs/heads/master") as ref:
            assert ref.ensure_equals(c1)
            ref.set(c2)

    def config_write(r, w):
        c = r.get_config()
        c.set((b"user",), b"name", b"Somebody")
        c.set((b"remote", b"origin"), b"url", b"https://example.com/x.git")
        c.write_to_path()

    def loose_object(r, w):
        r.object_store.add_object(Blob.from_string(b"a new loose object\n"))

    def add_objects_pack(r, w):
        objs = [(Blob.from_string(b"packed %d\n" % i), None) for i in range(3)]
        r.object_store.add_objects(objs)

    def write_pack_fn(r, w):
        from dulwich.pack import write_pack
        objs = [(Blob.from_string(b"wp %d\n" % i), None) for i in range(2)]
        write_pack(os.path.join(str(w), "standalone-pack"), objs, r.object_format)

    def pack_index(r, w):
        from dulwich.pack import write_pack, PackData
        p = os.path.join(str(w), "px")
        if not os.path.exists(p + ".pack"):
            raise RuntimeError("prepared pack missing")
        pd = PackData(p + ".pack", object_format=r.object_format)
        try:
            pd.create_index(p + ".idx2")
        finally:
            pd.close()

    def commit_graph_store(r, w):
        r.object_store.write_commit_graph(refs=[c2], reachable=True)

    def commit_graph_module(r, w):
        from dulwich.commit_graph import write_commit_graph
        # a CLOSED history (every parent is in the written set), so that a file is written under every version of
        # generate_commit_graph (some drop or mark commits whose parents are outside the set)
        write_commit_graph(os.fsencode(r.controldir()), r.object_store, [c1, c2])

    def shallow(r, w):
        r.update_shallow({c2}, None)

    def alternates(r, w):
        other = Path(w) / "alt2"
        other.mkdir(exist_ok=True)
        r.object_store.add_alternate_path(str(other))

    def named_file(r, w):
        r._put_named_file("description", b"a repository\n")

    def named_file_shared(r, w):
        c = r.get_config()
        c.set((b"core",), b"sharedRepository", b"group")
        c.write_to_path()
        r2 = Repo(str(w))
        try:
            r2._put_named_file("description", b"a shared repository\n")
        finally:
            r2.close()

    sc = [("Index.write", index_write), ("Index.write[shared_perm]", index_write_shared),
          ("Index.write[skip_hash]", index_write_skiphash), ("locked_index", locked_index),
          ("refs.set_if_equals", set_if_equals), ("refs.set_if_equals[new]", set_new), ("refs.add_if_new", add_if_new),
          ("refs.set_symbolic_ref", set_symbolic), ("refs.remove_if_equals[packed]", remove_packed),
          ("refs.remove_if_equals[loose]", remove_loose), ("refs.add_packed_refs", add_packed),
          ("refs.pack_refs", pack_refs), ("locked_ref", locked_ref), ("ConfigFile.write_to_path", config_write),
          ("object_store.add_object[loose]", loose_object), ("object_store.add_objects[pack+idx]", add_objects_pack),
          ("pack.write_pack", write_pack_fn), ("PackData.create_index", pack_index),
          ("object_store.write_commit_graph", commit_graph_store), ("commit_graph.write_commit_graph", commit_graph_module),
          ("repo.update_shallow", shallow), ("object_store.add_alternate_path", alternates),
          ("repo._put_named_file", named_file), ("repo._put_named_file[sharedRepository]", named_file_shared)]
    return [(n, with_repo(f)) for n, f in sc]


def _prepare_extra(tpl: Path, ids):
    """things some scenarios need in the template (a standalone pack to index)"""
    from dulwich.repo import Repo
    from dulwich.objects import Blob
    from dulwich.pack import write_pack
    r = Repo(str(tpl))
    try:
        write_pack(os.path.join(str(tpl), "px"), [(Blob.from_string(b"px %d\n" % i), None) for i in range(2)],
                   r.object_format)
    finally:
        r.close()


def _read_tree(w: Path) -> dict:
    out = {}
    for dp, dn, fn in os.walk(w):
        for f in fn:
            p = os.path.join(dp, f)
            try:
                with open(p, "rb") as fh:
                    out[os.path.relpath(p, w)] = fh.read()
            except OSError:
                pass
    return out


def _locks(w: Path) -> list[str]:
    return sorted(os.path.relpath(os.path.join(dp, f), w) for dp, dn, fn in os.walk(w) for f in fn if f.endswith(".lock"))


class FaultRun:
    pass


def run_with_fault(w: Path, op, k: int | None, kind: str | None, old: dict, new: dict | None, targets: set | None):
    """Run op on worktree `w` with the k-th interposed call raising; returns a FaultRun with what was seen."""
    fr = FaultRun()
    fr.reader_bad = []
    fr.raised = None
    fr.n_at_raise = None

    def boundary(j, pending):
        if targets is None or new is None:
            return
        for t in targets:
            try:
                with open(os.path.join(w, t), "rb") as fh:
                    c = fh.read()
            except FileNotFoundError:
                c = None
            if c != old.get(t) and c != new.get(t):
                fr.reader_bad.append((j, t))
    fail_at = {k: FAULTS[kind]()} if k is not None else {}
    rec = sched.Recorder(str(w), on_boundary=boundary, reads=False, fail_at=fail_at)
    gc_was = gc.isenabled()
    gc.disable()
    old_umask = os.umask(0o022)
    try:
        with warnings.catch_warnings():
            warnings.simplefilter("ignore")
            with rec, _FileYields(rec.ip):
                try:
                    op(w)
                except BaseException as e:  # noqa: BLE001
                    fr.raised = type(e).__name__ + ": " + str(e)[:80]
                    # what the caller of the failed routine finds while it handles the exception
                    fr.locks_at_raise = _locks(w)
                    fr.n_at_raise = len(rec.events)
                    _scrub(e)
                    del e
            rec.fail_at.clear()
            fail_at.clear()
            fr.events = [(c, p, o) for _, c, p, o in rec.events]
            gc.collect()   # CPython finalises the dropped handles now (__del__ -> abort())
            fr.locks_after_gc = _locks(w)
            if fr.raised is None:
                fr.locks_at_raise = fr.locks_after_gc
    finally:
        os.umask(old_umask)
        if gc_was:
            gc.enable()
    fr.after = _read_tree(w)
    return fr


def _targets_of(events) -> set:
    return {p[0][:-5] for c, p, o in events if c in OPEN_CALLS and p and p[0].endswith(".lock")}


def _judge_fault(ctx, stream, name, k, kind, fr, ref_events, old, new, targets):
    """The property's words on one fault run."""
    call, paths, _ = ref_events[k] if k is not None and k < len(ref_events) else ("-", (), "")
    case = {"routine": name, "fail_at": k, "call": call, "paths": list(paths), "fault": kind,
            "raised": fr.raised, "events": [[c, list(p), o] for c, p, o in fr.events][-12:]}
    inj = next((j for j, e in enumerate(fr.events) if e[2].startswith("inject:")), None)
    tset = set(targets) | _targets_of(fr.events)
    # targets the routine deliberately unlinks itself (ref deletion under the lock) are not "writes"
    unlinked = {p[0] for c, p, o in fr.events if c in ("remove", "unlink") and o == "ok" and p and not p[0].endswith(".lock")}
    is_index_write = name.startswith("Index.write")

    def renamed_after_failure(t):
        """was the lock file of `t` renamed into place after the injected failure?"""
        return inj is not None and any(c == "replace" and o == "ok" and len(p) == 2 and p[1] == t
                                       for c, p, o in fr.events[inj + 1:])
    for t in sorted(tset):
        got = fr.after.get(t)
        if t in unlinked:
            continue
        if fr.raised is not None:
            # a write of `t` that completed before the failure stands; one that was in progress or had not
            # started must leave the old content
            if got != old.get(t) and renamed_after_failure(t):
                partial = got != new.get(t)
                cls = "index-write:error-path-renames-lock-into-place" if is_index_write \
                    else f"{name}:target-renamed-after-failure"
                ctx.oracle_fail(stream, dict(case, target=t, partial=partial),
                                f"{name} raised {fr.raised!r} but `{t}` no longer has its old content "
                                f"({'a truncated/partial file' if partial else 'the new content'} was renamed into place "
                                f"after the failure)", cls)
        if got != old.get(t) and got != new.get(t):
            cls = "index-write:error-path-renames-lock-into-place" if (is_index_write and renamed_after_failure(t)) \
                else f"{name}:partial-content"
            ctx.oracle_fail(stream, dict(case, target=t), f"after {name} `{t}` is neither the old nor the complete new "
                            f"content", cls)
    for j, t in fr.reader_bad[:1]:
        cls = "index-write:error-path-renames-lock-into-place" if (is_index_write and renamed_after_failure(t)) \
            else f"{name}:reader-saw-partial"
        ctx.oracle_fail(stream, dict(case, target=t, boundary=j), f"a reader of `{t}` would have seen partial content "
                        f"before call {j} of {name}", cls)
    # the lock must be released when the routine is over (unless the unlink of the lock itself was what failed)
    lock_rm_failed = any(c in ("remove", "unlink") and o.startswith("inject:") and p and p[0].endswith(".lock")
                         for c, p, o in fr.events)
    if fr.locks_after_gc and not lock_rm_failed:
        ctx.oracle_fail(stream, dict(case, locks=fr.locks_after_gc),
                        f"{name}: lock file(s) {fr.locks_after_gc} left behind for good", f"{name}:lock-leaked")
    elif fr.locks_at_raise and not lock_rm_failed:
        in_close_pre = call in ("flush", "fsync", "stat", "chmod") and paths and paths[0].endswith(".lock")
        upto = fr.n_at_raise if fr.n_at_raise is not None else len(fr.events)
        # closing the file object inside abort() raised and nothing unlinked that lock afterwards
        fc = [j for j, (c, p, o) in enumerate(fr.events[:upto]) if c == "fclose" and o != "ok" and p
              and p[0] in fr.locks_at_raise]
        abort_fclose = bool(fc) and not any(c == "remove" and p and p[0] == fr.events[fc[-1]][1][0]
                                            for c, p, o in fr.events[fc[-1] + 1:upto])
        removed_after = inj is not None and any(c == "remove" and p and p[0].endswith(".lock")
                                                for c, p, o in fr.events[inj + 1:upto])
        if abort_fclose:
            cls = ABORT_FCLOSE_CLS
        elif in_close_pre and not removed_after:
            cls = "close-fault-before-rename:lock-left-until-finalizer"
        else:
            cls = f"{name}:lock-left-until-finalizer"
        ctx.oracle_fail(stream, dict(case, locks=fr.locks_at_raise),
                        f"{name} raised {fr.raised!r} and `{fr.locks_at_raise[0]}` is still there while the caller handles "
                        f"the exception (only the handle's finaliser removes it)", cls)


def _stream_fault_callers(ctx, base: Path, only=None, only_fault=None, stream="fault.callers", extra=True):
    tpl = base / "tpl"
    ids = build_template(tpl)
    _prepare_extra(tpl, ids)
    old = _read_tree(tpl)
    w = base / "w"
    kinds_all = FAULT_KINDS + (["eio"] if ctx.thorough else [])
    cov = {}
    for name, op in _scenarios(ids):
        if only and name not in only:
            continue
        # reference run: the program of interposed calls, the new content
        if w.exists():
            shutil.rmtree(w)
        shutil.copytree(tpl, w, symlinks=True)
        ref = run_with_fault(w, op, None, None, old, None, None)
        if ref.raised is not None:
            # the routine's API moved or it rejects this input in this tree: nothing to inject into, say so and go on
            ctx.notes.append(f"fault.callers: scenario {name} raises without any fault in this tree ({ref.raised}); skipped")
            cov[name] = {"skipped": f"raises without fault: {ref.raised}"}
            continue
        new = ref.after
        targets = _targets_of(ref.events)
        if not targets:
            # not a tooling failure: the routine (as it is in this tree) decided it had nothing to write
            ctx.notes.append(f"fault.callers: scenario {name} opened no lock file in this tree (nothing to inject into); "
                             f"calls seen: {[c for c, _, _ in ref.events][:8]}")
            cov[name] = {"calls": len(ref.events), "lock_protocol_calls": 0, "targets": [], "skipped": "no lock file opened"}
            continue
        if ref.locks_after_gc:
            ctx.oracle_fail(stream, {"routine": name}, f"{name} left {ref.locks_after_gc} behind without any fault", f"{name}:lock-leaked")
        cov[name] = {"calls": len(ref.events), "lock_protocol_calls": 0, "targets": sorted(targets)}
        widx = [k for k, (call, paths, _) in enumerate(ref.events) if call == "write"]
        keep_w = set(widx)
        if len(widx) > 12 and not ctx.thorough:
            keep_w = set(widx[:4] + widx[-4:] + ctx.rng.sample(widx[4:-4], 4))
        cov[name]["write_calls"] = len(widx)
        cov[name]["write_calls_faulted"] = len(keep_w)
        for k, (call, paths, _) in enumerate(ref.events):
            on_lock = bool(paths) and (paths[0].endswith(".lock"))
            if on_lock:
                cov[name]["lock_protocol_calls"] += 1
            if call == "write" and k not in keep_w and only_fault is None:
                continue
            if only_fault is not None and k != (widx[-1] if only_fault[0] == "last-write" and widx else only_fault[0]):
                continue
            kinds = kinds_all if on_lock else [kinds_all[k % len(kinds_all)]]
            if on_lock and call in ("write", "flush"):
                kinds = kinds + ["enospc-persistent"]
            if only_fault is not None:
                kinds = [only_fault[1]]
            for kind in kinds:
                shutil.rmtree(w)
                shutil.copytree(tpl, w, symlinks=True)
                fr = run_with_fault(w, op, k, kind, old, new, targets)
                ctx.count(stream, (name, k, kind), True, f"{name}:{call}")
                _judge_fault(ctx, stream, name, k, kind, fr, ref.events, old, new, targets)
    if extra:
        ctx.extra_cov["fault_injection_routines"] = cov
    # F7 without any injected fault: an entry whose size does not fit the 32-bit field
    if extra and (not only or "Index.write" in only):
        shutil.rmtree(w, ignore_errors=True)
        shutil.copytree(tpl, w, symlinks=True)

        def big(wt):
            from dulwich.repo import Repo
            r = Repo(str(wt))
            try:
                idx = r.open_index()
                idx[b"b.txt"] = _entry(ids["blob"], 7)
                idx[b"big.bin"] = _entry(ids["blob"], 1 << 32)
                idx.write()
            finally:
                r.close()
        fr = run_with_fault(w, big, None, None, old, None, None)
        ctx.count(stream, ("Index.write", "size>=2^32"), True, "Index.write:size>=2^32")
        if fr.raised is None:
            ctx.notes.append("Index.write accepted an entry of size 2^32 (no error path exercised)")
        else:
            t = ".git/index"
            if fr.after.get(t) != old.get(t):
                renamed = any(c == "replace" and o == "ok" for c, p, o in fr.events)
                ctx.oracle_fail(stream, {"routine": "Index.write", "entry_size": 1 << 32, "raised": fr.raised,
                                         "old_len": len(old.get(t, b"")), "new_len": len(fr.after.get(t) or b"")},
                                f"Index.write raised {fr.raised!r} on an entry of size 2^32 and replaced the index by a "
                                f"truncated file ({len(old.get(t, b''))} -> {len(fr.after.get(t) or b'')} bytes)",
                                "index-write:error-path-renames-lock-into-place" if renamed else "Index.write:target-changed-after-failed-write")
            if fr.locks_after_gc:
                ctx.oracle_fail(stream, {"routine": "Index.write", "entry_size": 1 << 32}, "lock left behind", "Index.write:lock-leaked")


# ------------------------------------------------------------------------------------------------
# sched.callers2: two real lock-protocol ROUTINES against each other on the same file, interleaved at the
# lock / rename / unlink calls; an independent monitor reads the target after every successful rename

import re as _re

CALLER_CALLS = {"open-x", "open-w", "replace", "rename", "remove", "unlink", "mkdir", "rmdir"}
_HEX40 = _re.compile(rb"^[0-9a-f]{40}$")


class COp:
    """One routine as an actor.  `touch`: the entries of each protected file this operation asks to change
    ({"packed": {ref names}, "config": {(section, key)}, "index": {paths}, "shallow": {shas}, "alternates": {lines}});
    `refs`: {loose ref name: contents (bytes) this operation may legitimately leave in that file}."""

    def __init__(self, name, fn, touch=None, refs=None):
        self.name, self.fn, self.touch, self.refs = name, fn, touch or {}, refs or {}


def _parse_packed(data: bytes):
    """independent reader of packed-refs: {name: sha}; raises ValueError on a malformed line"""
    out, last = {}, None
    if data and not data.endswith(b"\n"):
        raise ValueError("last line is not terminated")
    for ln in data.split(b"\n"):
        if not ln or ln.startswith(b"#"):
            continue
        if ln.startswith(b"^"):
            if last is None or not _HEX40.match(ln[1:]):
                raise ValueError(f"bad peeled line {ln[:60]!r}")
            continue
        parts = ln.split(b" ")
        if len(parts) != 2 or not _HEX40.match(parts[0]) or not parts[1].startswith(b"refs/"):
            raise ValueError(f"bad line {ln[:60]!r}")
        out[parts[1]] = parts[0]
        last = parts[1]
    return out


def _parse_config(data: bytes):
    from io import BytesIO
    from dulwich.config import ConfigFile
    cf = ConfigFile.from_file(BytesIO(data))
    out = {}
    for section in cf.sections():
        for k, v in cf.items(section):
            out[(tuple(section), k)] = v
    if data.strip() and not out:
        raise ValueError("no key parsed from a non-empty file")
    return out


def _parse_index(path: str):
    from dulwich.index import Index
    idx = Index(path)
    return {k: idx[k].sha for k in idx}


def _parse_lines(data: bytes, hexonly: bool):
    if data and not data.endswith(b"\n"):
        raise ValueError("last line is not terminated")
    lines = [ln for ln in data.split(b"\n") if ln]
    if hexonly:
        for ln in lines:
            if not _HEX40.match(ln):
                raise ValueError(f"bad line {ln[:60]!r}")
    return {ln: True for ln in lines}


def _kind_of(rel: str):
    if rel == ".git/packed-refs":
        return "packed"
    if rel == ".git/config":
        return "config"
    if rel == ".git/index":
        return "index"
    if rel == ".git/shallow":
        return "shallow"
    if rel == ".git/objects/info/alternates":
        return "alternates"
    if rel == ".git/HEAD" or rel.startswith(".git/refs/"):
        return "ref"
    return None


def _read_kind(w: Path, rel: str, kind: str):
    """Parsed entries of a protected file (None if it does not exist); raises ValueError when it is not a complete,
    well-formed file of its kind."""
    path = os.path.join(w, rel)
    try:
        with open(path, "rb") as fh:
            data = fh.read()
    except FileNotFoundError:
        return None
    try:
        if kind == "packed":
            return _parse_packed(data)
        if kind == "config":
            return _parse_config(data)
        if kind == "index":
            return _parse_index(path)
        if kind == "shallow":
            return _parse_lines(data, True)
        if kind == "alternates":
            return _parse_lines(data, False)
        if kind == "ref":
            if not _re.match(rb"^([0-9a-f]{40}|ref: refs/\S+)\n$", data):
                raise ValueError(f"not a ref value: {data[:60]!r}")
            return {"value": data}
    except ValueError:
        raise
    except Exception as e:  # noqa: BLE001 - any parser failure means: not a well-formed file
        raise ValueError(f"{type(e).__name__}: {str(e)[:100]}")
    return {}


class CallersRun:
    def __init__(self):
        self.events, self.steps, self.bad, self.results, self.error = [], [], [], {}, None


def run_callers(tpl: Path, w: Path, ops: list[COp], schedule, baseline: dict) -> CallersRun:
    """Both operations on a fresh copy of the template, each with its own Repo object (as separate processes
    would have), interleaved along `schedule` (actor indices; the initial park of a thread is a step too)."""
    if w.exists():
        shutil.rmtree(w)
    shutil.copytree(tpl, w, symlinks=True)
    cr = CallersRun()
    names = [f"a{i}" for i in range(len(ops))]
    idx = {n: i for i, n in enumerate(names)}
    sc = sched.Scheduler(str(w), calls=CALLER_CALLS, watch_reads=False, timeout=30.0)

    def make(op):
        def fn():
            from dulwich.repo import Repo
            r = Repo(str(w))
            try:
                return op.fn(r, w)
            finally:
                r.close()
        return fn
    for i, op in enumerate(ops):
        sc.spawn(names[i], make(op))
    touched = {}
    for op in ops:
        for k, v in op.touch.items():
            touched.setdefault(k, set()).update(v)
    allowed_refs = {}
    for op in ops:
        for k, v in op.refs.items():
            allowed_refs.setdefault(k, set()).update(v)
    holders = {}
    state = {"nev": 0}

    def judge(rel, when):
        kind = _kind_of(rel)
        if kind is None:
            return
        try:
            got = _read_kind(w, rel, kind)
        except ValueError as e:
            cr.bad.append((f"{when}: `{rel}` is not a complete, well-formed {kind} file ({e})", f"callers2:{kind}:malformed"))
            return
        if got is None:
            return
        if kind == "ref":
            name = rel[len(".git/"):].encode()
            base = baseline.get(rel)
            ok = set(allowed_refs.get(name, ())) | ({base["value"]} if base else set())
            if name in allowed_refs and got["value"] not in ok:
                cr.bad.append((f"{when}: `{rel}` holds {got['value'][:50]!r}, which neither writer meant to write",
                               "callers2:ref:foreign-content"))
            return
        base = baseline.get(rel) or {}
        lost = [k for k, v in base.items() if k not in touched.get(kind, ()) and got.get(k) != v]
        if lost:
            cr.bad.append((f"{when}: `{rel}` lost or changed {len(lost)} entr{'y' if len(lost) == 1 else 'ies'} that neither "
                           f"operation asked to change, e.g. {lost[0]!r} ({len(got)} of {len(base)} entries left)",
                           f"callers2:{kind}:untouched-entry-lost"))

    def absorb(history):
        evs = [e for e in history if e[1] != "start"]
        while state["nev"] < len(evs):
            who, call, paths, outcome = evs[state["nev"]]
            k = state["nev"]
            state["nev"] += 1
            i = idx[who]
            cr.events.append((i, call, list(paths), outcome))
            if outcome != "ok":
                continue
            if call in OPEN_CALLS and paths[0].endswith(".lock"):
                h = holders.setdefault(paths[0], set())
                if h:
                    cr.bad.append((f"step {k}: actor {i} obtained `{paths[0]}` while {sorted(h)} hold(s) it", "two-holders"))
                h.add(i)
            elif call in ("replace", "rename") and paths[0].endswith(".lock"):
                h = holders.setdefault(paths[0], set())
                if i not in h:
                    cr.bad.append((f"step {k}: actor {i} renamed `{paths[0]}` which it does not hold", "foreign-lock-disturbed"))
                h.discard(i)
                judge(paths[1], f"step {k} (after actor {i}'s rename)")
            elif call in ("remove", "unlink") and paths[0].endswith(".lock"):
                h = holders.setdefault(paths[0], set())
                if i not in h:
                    cr.bad.append((f"step {k}: actor {i} unlinked `{paths[0]}` which it does not hold", "foreign-lock-disturbed"))
                h.discard(i)

    seq = list(schedule)

    def choose(pending, history):
        absorb(history)
        while seq:
            i = seq.pop(0)
            if names[i] in pending:
                cr.steps.append(i)
                return names[i]
        a = sorted(pending)[0]
        cr.steps.append(idx[a])
        return a
    gc_was = gc.isenabled()
    gc.disable()
    old_umask = os.umask(0o022)
    try:
        with warnings.catch_warnings():
            warnings.simplefilter("ignore")
            sc.run(choose)
            absorb(sc.history)
            for n, r in sc.results.items():
                if r.exc is not None:
                    cr.results[idx[n]] = "exc:" + type(r.exc).__name__
                    _scrub(r.exc)
                else:
                    cr.results[idx[n]] = "ok"
            sc.results.clear()
            gc.collect()
    except RuntimeError as e:
        cr.error = str(e)
    finally:
        os.umask(old_umask)
        if gc_was:
            gc.enable()
    if cr.error is None:
        for rel in sorted(baseline):
            judge(rel, "final state")
        left = _locks(w)
        if left:
            cr.bad.append((f"lock file(s) {left} left behind after both operations finished", "callers2:lock-leaked"))
    return cr


def _caller_ops(ids):
    c1, c2, tree, blob = ids["c1"], ids["c2"], ids["tree"], ids["blob"]
    kw = dict(committer=b"V Erif <verif@example.com>", timestamp=FIXED_TIME, timezone=0, message=b"verif")
    PK, TOPIC, MASTER, V0, NEW2 = (b"refs/heads/packed", b"refs/heads/topic", b"refs/heads/master", b"refs/tags/v0",
                                   b"refs/heads/new2")
    XY, XZ = b"refs/heads/x/y", b"refs/heads/x/z"

    def sha(x):
        return {x + b"\n"}

    def lidx(path, name):
        def fn(r, w):
            from dulwich.index import locked_index
            with locked_index(os.path.join(r.controldir(), "index")) as idx:
                idx[path] = _entry(blob, 7)
        return COp(name, fn, touch={"index": {path}})

    def idx_write(r, w):
        idx = r.open_index()
        idx[b"d.txt"] = _entry(blob, 9)
        idx.write()

    def cfg(section, key, val, name):
        def fn(r, w):
            c = r.get_config()
            c.set(section, key, val)
            c.write_to_path()
        return COp(name, fn, touch={"config": {(section, key)}})

    def lref(expect, name):
        def fn(r, w):
            from dulwich.refs import locked_ref
            with locked_ref(r.refs, MASTER) as lr:
                if lr.ensure_equals(expect):
                    lr.set(c2)
        return COp(name, fn, refs={MASTER: sha(c2)})

    def alt(dirname):
        def fn(r, w):
            d = Path(w) / dirname
            d.mkdir(exist_ok=True)
            r.object_store.add_alternate_path(str(d))
        return COp(f"add_alternate_path[{dirname}]", fn, touch={"alternates": set()})
    O = {
        "rm_packed": COp("remove_if_equals[packed ref]", lambda r, w: r.refs.remove_if_equals(PK, c1, **kw), {"packed": {PK}}),
        "apr_del_packed": COp("add_packed_refs{packed: None}", lambda r, w: r.refs.add_packed_refs({PK: None}), {"packed": {PK}}),
        "apr_del_v0": COp("add_packed_refs{v0: None}", lambda r, w: r.refs.add_packed_refs({V0: None}), {"packed": {V0}}),
        "apr_topic": COp("add_packed_refs{topic}", lambda r, w: r.refs.add_packed_refs({TOPIC: c1}), {"packed": {TOPIC}}),
        "apr_master": COp("add_packed_refs{master}", lambda r, w: r.refs.add_packed_refs({MASTER: c1}), {"packed": {MASTER}}),
        "pack_all": COp("pack_refs(all)", lambda r, w: r.refs.pack_refs(all=True),
                        {"packed": {MASTER, TOPIC, b"refs/tags/v1", PK, V0}}),
        "add_new_c2": COp("add_if_new(new2,c2)", lambda r, w: r.refs.add_if_new(NEW2, c2, **kw), refs={NEW2: sha(c2) | sha(c1)}),
        "add_new_c1": COp("add_if_new(new2,c1)", lambda r, w: r.refs.add_if_new(NEW2, c1, **kw), refs={NEW2: sha(c2) | sha(c1)}),
        "set_m_c2": COp("set_if_equals(master,c1->c2)", lambda r, w: r.refs.set_if_equals(MASTER, c1, c2, **kw),
                        {"packed": {MASTER}}, {MASTER: sha(c2)}),
        "set_m_tree": COp("set_if_equals(master,c1->X)", lambda r, w: r.refs.set_if_equals(MASTER, c1, tree, **kw),
                          {"packed": {MASTER}}, {MASTER: sha(tree)}),
        "rm_master": COp("remove_if_equals(master,c1)", lambda r, w: r.refs.remove_if_equals(MASTER, c1, **kw),
                         {"packed": {MASTER}}, {MASTER: set()}),
        "rm_topic": COp("remove_if_equals(topic,c1)", lambda r, w: r.refs.remove_if_equals(TOPIC, c1, **kw),
                        {"packed": {TOPIC}}, {TOPIC: set()}),
        "set_t_c2": COp("set_if_equals(topic,c1->c2)", lambda r, w: r.refs.set_if_equals(TOPIC, c1, c2, **kw),
                        {"packed": {TOPIC}}, {TOPIC: sha(c2)}),
        "sym_topic": COp("set_symbolic_ref(HEAD->topic)", lambda r, w: r.refs.set_symbolic_ref(b"HEAD", TOPIC, **kw),
                         refs={b"HEAD": {b"ref: refs/heads/topic\n"}}),
        "sym_master": COp("set_symbolic_ref(HEAD->master)", lambda r, w: r.refs.set_symbolic_ref(b"HEAD", MASTER, **kw),
                          refs={b"HEAD": {b"ref: refs/heads/master\n"}}),
        "lref": lref(c1, "locked_ref(master): if ==c1 set c2"),
        "lref_noop": lref(c2, "locked_ref(master): expectation fails, nothing written"),
        "cfg_user": cfg((b"user",), b"name", b"Somebody", "config rmw user.name"),
        "cfg_editor": cfg((b"core",), b"editor", b"ed", "config rmw core.editor"),
        "idx_b": lidx(b"b.txt", "locked_index add b.txt"),
        "idx_c": lidx(b"c.txt", "locked_index add c.txt"),
        "idx_w": COp("Index.write add d.txt", idx_write, {"index": {b"d.txt"}}),
        "shallow_add": COp("update_shallow(+c2)", lambda r, w: r.update_shallow({c2}, None), {"shallow": {c2}}),
        "shallow_un": COp("update_shallow(-c1)", lambda r, w: r.update_shallow(None, {c1}), {"shallow": {c1}}),
        "alt2": alt("alt2"), "alt3": alt("alt3"),
        # LOCK ACQUISITION WHEN THE PARENT DIRECTORY IS MISSING: remove_if_equals prunes refs/heads/x/ (lock-free rmdir)
        # while another writer creates a ref below it (ensure_dir_exists, then the lock)
        "rm_xy": COp("remove_if_equals(x/y) [prunes x/]", lambda r, w: r.refs.remove_if_equals(XY, c1, **kw),
                     {"packed": {XY}}, {XY: set()}),
        "set_xz": COp("set_if_equals(x/z new)", lambda r, w: r.refs.set_if_equals(XZ, None, c2, **kw),
                      {"packed": {XZ}}, {XZ: sha(c2) | sha(c1)}),
        "add_xz": COp("add_if_new(x/z)", lambda r, w: r.refs.add_if_new(XZ, c1, **kw), {"packed": {XZ}}, {XZ: sha(c2) | sha(c1)}),
        "set_xy": COp("set_if_equals(x/y,c1->c2)", lambda r, w: r.refs.set_if_equals(XY, c1, c2, **kw),
                      {"packed": {XY}}, {XY: sha(c2)}),
    }
    pairs = [("rm_packed", "apr_del_packed"), ("rm_packed", "apr_del_v0"), ("rm_packed", "pack_all"), ("apr_del_packed", "rm_packed"),
             ("apr_topic", "apr_master"), ("apr_topic", "rm_packed"), ("apr_del_v0", "apr_del_packed"),
             ("pack_all", "set_m_c2"), ("pack_all", "rm_master"), ("pack_all", "rm_packed"),
             ("add_new_c2", "add_new_c1"), ("set_m_c2", "set_m_tree"), ("set_m_c2", "rm_master"), ("rm_master", "set_m_c2"),
             ("rm_topic", "set_t_c2"), ("rm_topic", "apr_topic"), ("sym_topic", "sym_master"),
             ("lref", "set_m_tree"), ("lref_noop", "set_m_tree"), ("lref_noop", "lref"),
             ("cfg_user", "cfg_editor"), ("idx_b", "idx_c"), ("idx_w", "idx_b"), ("shallow_add", "shallow_un"),
             ("alt2", "alt3"),
             ("rm_xy", "set_xz"), ("rm_xy", "add_xz"), ("set_xz", "rm_xy"), ("set_xz", "add_xz"), ("rm_xy", "set_xy")]
    return O, pairs


# (writer A, pruner B, writer C) on refs below refs/heads/x/
CALLER_TRIPLES = [("set_xz", "rm_xy", "add_xz"), ("add_xz", "rm_xy", "set_xz")]


def _callers_baseline(tpl: Path) -> dict:
    base = {}
    for rel in [".git/packed-refs", ".git/config", ".git/index", ".git/shallow", ".git/objects/info/alternates", ".git/HEAD",
                ".git/refs/heads/master", ".git/refs/heads/topic", ".git/refs/tags/v1", ".git/refs/heads/x/y"]:
        try:
            got = _read_kind(tpl, rel, _kind_of(rel))
        except ValueError as e:
            raise core.InfraError(f"template file {rel} does not parse: {e}")
        if got is not None:
            base[rel] = got
    return base


def _stream_callers2(ctx, base: Path, only_pairs=None, fixed_schedule=None, stream="sched.callers2", verbose=False):
    tpl = base / "tpl"
    ids = build_template(tpl)
    baseline = _callers_baseline(tpl)
    O, pairs = _caller_ops(ids)
    w = base / "w"
    cov = {}
    rng = ctx.rng
    for an, bn in pairs:
        if only_pairs and (an, bn) not in only_pairs:
            continue
        if fixed_schedule is not None and len(next(iter(only_pairs))) != 2:
            continue
        a, b = O[an], O[bn]
        lens = []
        skip = None
        for op in (a, b):
            cr = run_callers(tpl, w, [op], [], baseline)
            if cr.error:
                raise core.InfraError(f"callers2 solo run of {op.name} failed: {cr.error}")
            if cr.results.get(0) != "ok":
                skip = f"{op.name} does not run on its own in this tree ({cr.results.get(0)})"
            for what, cls in cr.bad:
                ctx.oracle_fail(stream, {"ops": [op.name], "schedule": [], "events": cr.events}, f"{op.name} alone: {what}", cls)
            lens.append(len(cr.steps))
        if skip:
            ctx.notes.append(f"sched.callers2: pair {an}/{bn} skipped: {skip}")
            continue
        one = list(sched.enumerate_schedules({"0": lens[0], "1": lens[1]}, 1))
        two = [x for x in sched.enumerate_schedules({"0": lens[0], "1": lens[1]}, 2) if x not in one]
        cap = ctx.budget(30)
        pick = one + (two if (ctx.thorough or len(two) <= cap) else rng.sample(two, cap))
        if fixed_schedule is not None:
            pick, one, two = [[str(x) for x in fixed_schedule]], [], []
        locked = 0
        for sch in pick:
            steps = [int(x) for x in sch]
            cr = run_callers(tpl, w, [a, b], steps, baseline)
            if cr.error:
                raise core.InfraError(f"callers2 {a.name} / {b.name} schedule {steps}: {cr.error}")
            case = {"pair": [an, bn], "ops": [a.name, b.name], "schedule": steps, "executed": cr.steps,
                    "results": cr.results, "events": [list(e) for e in cr.events]}
            ctx.count(stream, (an, bn, tuple(cr.steps)), True, f"{an}/{bn}")
            locked += any(v == "exc:FileLocked" for v in cr.results.values())
            if verbose:
                for k, e in enumerate(cr.events):
                    print("replay step", k, e)
                print("replay results", cr.results)
            for what, cls in cr.bad:
                ctx.oracle_fail(stream, case, f"{a.name} || {b.name}: {what}", cls)
        cov[f"{an}/{bn}"] = {"yield_points": lens, "schedules": len(pick), "le1_preemption": len(one), "le2_total": len(one) + len(two),
                             "runs_with_FileLocked": locked}
    if fixed_schedule is None:
        ctx.extra_cov["callers2_pairs"] = cov
    # three real callers: a pruner of the directory and two writers of the same ref below it.  Two holders of one lock
    # need a writer paused inside its critical section: the window family  A^k  B*  A^j  C^m  A*  C*  (B = the pruner)
    for tri in CALLER_TRIPLES:
        if only_pairs and tuple(tri) not in only_pairs:
            continue
        ops = [O[n] for n in tri]
        if fixed_schedule is not None:
            fam = [list(fixed_schedule)]
        else:
            lens = []
            for op in ops:
                cr = run_callers(tpl, w, [op], [], baseline)
                if cr.error:
                    raise core.InfraError(f"callers2 solo run of {op.name} failed: {cr.error}")
                lens.append(len(cr.steps))
            fam = []
            for k in range(1, lens[0] + 1):
                for j in range(1, 5):
                    for m in range(1, lens[2] + 1):
                        fam.append([0] * k + [1] * (lens[1] + 2) + [0] * j + [2] * m + [0] * (lens[0] + 4) + [2] * (lens[2] + 4))
            cap = ctx.budget(120, mult=8)
            if len(fam) > cap:
                fam = rng.sample(fam, cap)
        n3 = 0
        for steps in fam:
            cr = run_callers(tpl, w, ops, steps, baseline)
            if cr.error:
                raise core.InfraError(f"callers2 {tri} schedule {steps}: {cr.error}")
            case = {"pair": list(tri), "ops": [o.name for o in ops], "schedule": steps, "executed": cr.steps,
                    "results": cr.results, "events": [list(e) for e in cr.events]}
            ctx.count(stream, (tuple(tri), tuple(cr.steps)), True, "/".join(tri))
            n3 += 1
            if verbose:
                for k, e in enumerate(cr.events):
                    print("replay step", k, e)
                print("replay results", cr.results)
            for what, cls in cr.bad:
                ctx.oracle_fail(stream, case, " || ".join(o.name for o in ops) + f": {what}", cls)
        if fixed_schedule is None:
            ctx.extra_cov.setdefault("callers2_triples", {})["/".join(tri)] = n3


def run(ctx: core.Ctx):
    base = Path(os.path.realpath(ctx.scratch))
    root = base / "sched"
    lines: list = []
    prog = ctx.driver.batch(["c07.program"])[0]
    ctx.extra_cov["program_read_from_source"] = prog
    ctx.assumptions += [
        "atomic steps are system calls (open(O_EXCL), rename, unlink atomic; POSIX local file system); NFS-style "
        "non-atomic O_EXCL, Windows rename semantics and _fancy_rename are not modelled",
        "buffered writes: data reaches the lock file's inode at flush/close; the lock file's content is not "
        "compared per step, only the content of `f`, the directory listing and each call's outcome",
        "one _GitFile handle per actor; actors are threads of one process driven at interposed os.* calls plus "
        "write()/flush() of the handle's file object",
    ]
    streams = [lambda: _run_corpus(ctx, root, lines), lambda: _stream_exhaustive2(ctx, root, lines),
               lambda: _stream_faults2(ctx, root, lines), lambda: _stream_faultseq(ctx, root, lines),
               lambda: _stream_three(ctx, root, lines),
               lambda: _stream_random(ctx, root, lines), lambda: _stream_fault_callers(ctx, base / "callers"),
               lambda: _stream_callers2(ctx, base / "callers2")]
    for st in streams:
        st()
        flush_model(ctx, lines)
        if len(ctx.oracle_failures) > 300:
            # the verdict is settled (VIOLATION with concrete cases); do not spend minutes collecting more
            ctx.notes.append("stopped early: more than 300 oracle failures")
            break


def search(ctx: core.Ctx):
    """Failing-input search after a broken obligation / correspondence: no model involved, only the monitor and
    the fault oracle, with a larger budget and aimed at the windows around rename/unlink/open."""
    base = Path(os.path.realpath(ctx.scratch))
    root = base / "search"
    rng = ctx.rng
    stream = "search.sched"
    # 1. disagreeing cases first, then their neighbourhood (every single-step deviation of the schedule)
    for dgr in ctx.disagreements[:20]:
        c = dgr["case"]
        if "scripts" not in c:
            continue
        scripts = [Script.from_spec(x) for x in c["scripts"]]
        init = None if c.get("init") is None else unhx(c["init"])
        sch = [(i, fk) for i, fk in c.get("executed") or c["schedule"]]
        check_case(ctx, stream, root, scripts, sch, init, tag="disagreeing", model=False, plain=bool(c.get("plain")))
        for pos in range(len(sch)):
            for alt in range(len(scripts)):
                if alt != sch[pos][0]:
                    check_case(ctx, stream, root, scripts, sch[:pos] + [(alt, None)] + sch[pos:], init,
                               tag="neighbour", model=False)
        if ctx.oracle_failures:
            return
    # 2. the rename/open/next-step window for every pair and trio of the catalogue
    cat = [a for _, a, b in PAIR_SCRIPTS] + [b for _, a, b in PAIR_SCRIPTS]
    for _ in range(ctx.budget(300)):
        n = rng.choice([2, 3, 3])
        scripts = [rng.choice(cat) if rng.random() < 0.7 else _rand_script(rng, i) for i in range(n)]
        ls = [solo_len(root, sc_, b"old") for sc_ in scripts]
        order = list(range(n))
        rng.shuffle(order)
        x = order[0]
        cut = rng.randint(max(1, ls[x] - 2), ls[x])
        sch = [(x, None)] * cut
        for y in order[1:]:
            sch += [(y, None)] * rng.randint(1, 2) + [(x, None)]
        fk = rng.choice(FAULT_KINDS + [None, None, None])
        if fk:
            pos = rng.randrange(len(sch))
            sch[pos] = (sch[pos][0], fk)
        check_case(ctx, stream, root, scripts, sch, rng.choice([b"old", None]), tag="window", model=False)
    if ctx.oracle_failures:
        return
    # 3. exhaustive <= 3 pre-emptions for the basic pair, all faults on the callers
    a, b = W(b"A1", b"A2"), W(b"B", perm=True)
    la, lb = solo_len(root, a, b"old"), solo_len(root, b, b"old")
    for sch in sched.enumerate_schedules({"0": la, "1": lb}, 3):
        check_case(ctx, stream, root, [a, b], [(int(x), None) for x in sch], b"old", tag="enum<=3", model=False)
    if ctx.oracle_failures:
        return
    _stream_random(ctx, root, lines=[])   # (model lines are collected but not evaluated)
    _stream_fault_callers(ctx, base / "search-callers")


def replay(ctx: core.Ctx, data: dict) -> int:
    base = Path(os.path.realpath(ctx.scratch))
    kind = data.get("kind")
    c = data.get("case", data)
    # Gen/Lock.lean and the driver must describe the tree that is being replayed against
    ctx.lean = core.lean_check("C07")
    if kind == "broken-obligation":
        print("replay: proof obligations", "hold" if ctx.lean.ok else f"are broken: {ctx.lean.problems}")
        for dgr in data.get("disagreements", []):
            cc = dgr["case"]
            if "scripts" in cc:
                lines = []
                check_case(ctx, "replay", base / "replay", [Script.from_spec(x) for x in cc["scripts"]],
                           [(i, fk) for i, fk in cc.get("executed") or cc["schedule"]],
                           None if cc.get("init") is None else unhx(cc["init"]), lines=lines)
                flush_model(ctx, lines)
        bad = (not ctx.lean.ok) or ctx.disagreements or ctx.oracle_failures
        if bad:
            print(f"VIOLATION property=C07 replay={data.get('_path', '<replayed>')}" +
                  ("" if ctx.oracle_failures else " no-failing-input-found"))
            return 1
        print("replay: property holds on this case")
        return 0
    if "scripts" in c:
        scripts = [Script.from_spec(x) for x in c["scripts"]]
        sch = [(i, fk) for i, fk in (c.get("schedule") if c.get("plain") else (c.get("executed") or c["schedule"]))]
        init = None if c.get("init") is None else unhx(c["init"])
        lines = []
        rr = check_case(ctx, "replay", base / "replay", scripts, sch, init, plain=bool(c.get("plain")), lines=lines,
                        dir0=c.get("dir0", True))
        for k, e in enumerate(rr.events):
            print("replay step", k, e, "->", rr.snaps[k + 1], "lock creator:", rr.lock_owner[k + 1])
        flush_model(ctx, lines)
        for d in ctx.disagreements:
            print("replay: model/implementation disagreement:", d["model"][:300], "VS", d["impl"][:300])
    elif "pair" in c:
        _stream_callers2(ctx, base / "replay-callers2", only_pairs={tuple(c["pair"])}, fixed_schedule=c["schedule"],
                         stream="replay", verbose=True)
    elif "routine" in c:
        _stream_fault_callers(ctx, base / "replay-callers", only={c["routine"]},
                              only_fault=(c.get("fail_at"), c.get("fault")) if isinstance(c.get("fail_at"), int) else None)
    else:
        print("replay: case not understood")
        return 2
    for f in ctx.oracle_failures:
        print("replay: oracle failure:", f["class"], "-", f["what"])
    for kf, n in ctx.known_hit.items():
        print(f"KNOWN-FINDING: property=C07 {kf} (hit {n}x)")
    if ctx.oracle_failures:
        print(f"VIOLATION property=C07 replay={data.get('_path', '<replayed>')}")
        return 1
    print("replay: property holds on this case" + (" (known finding reproduced)" if ctx.known_hit else ""))
    return 0
