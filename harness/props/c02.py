"""C02 — pack and pack-index round trip, internally consistent, interoperable with C git.

Model: lean/DulwichModel/Model/Pack.lean, Model/PackIndex.lean; theorems: Props/C02.lean.
Tie: translate() regenerates Gen/Pack.lean (type numbers, header/offset codec masks and shifts, pack and
index magics/versions, fan-out size, large-offset flag, table offsets, the bound handed to the bisection);
run() drives the correspondence streams (model vs real code) and the direct oracle (real write -> real
read, C git as third party).
"""
from __future__ import annotations

import ast
from pathlib import Path

from .. import core, translate as T
from ..core import hx, unhx

MOD = "c02"
DEPENDS = ["C03"]


# ------------------------------------------------------------------------------------------------
# translator

def _ints(tree, qual: str, expect_len: int) -> list[int]:
    d = T.find_def(tree, qual)
    v = T.int_constants(d)
    if len(v) != expect_len:
        raise T.TranslateError(f"{qual}: expected {expect_len} integer literals, found {v}")
    return v


def _bytes_consts(tree, qual: str) -> list[bytes]:
    d = T.find_def(tree, qual)
    out = []
    for n in ast.walk(d):
        if isinstance(n, ast.Constant) and isinstance(n.value, bytes):
            out.append((n.lineno, n.col_offset, n.value))
    return [v for _, _, v in sorted(out)]


def _same(name: str, vals) -> int:
    vals = list(vals)
    if not vals or any(v != vals[0] for v in vals):
        raise T.TranslateError(f"{name}: the sources disagree with each other: {vals}")
    return vals[0]


def _pows(tree, qual: str) -> list[int]:
    """Values of all `a ** b` literal expressions in a function, in source order."""
    d = T.find_def(tree, qual)
    out = []
    for n in ast.walk(d):
        if isinstance(n, ast.BinOp) and isinstance(n.op, ast.Pow):
            out.append((n.lineno, n.col_offset, T.eval_literal(n)))
    return [v for _, _, v in sorted(out)]


def _bisect_shape(tree):
    """The comparison operators of bisect_find_sha and the bound _object_offset hands to it."""
    b = T.find_def(tree, "bisect_find_sha")
    loops = [n for n in ast.walk(b) if isinstance(n, ast.While)]
    if len(loops) != 1 or not isinstance(loops[0].test, ast.Compare) or len(loops[0].test.ops) != 1:
        raise T.TranslateError("bisect_find_sha: expected exactly one `while a <op> b` loop")
    t = loops[0].test
    if not (isinstance(t.left, ast.Name) and t.left.id == "start" and isinstance(t.comparators[0], ast.Name)
            and t.comparators[0].id == "end"):
        raise T.TranslateError("bisect_find_sha: loop condition is not over start/end")
    if isinstance(t.ops[0], ast.LtE):
        inclusive = 1
    elif isinstance(t.ops[0], ast.Lt):
        inclusive = 0
    else:
        raise T.TranslateError("bisect_find_sha: unexpected loop comparison")
    ifs = [n for n in ast.walk(loops[0]) if isinstance(n, ast.If)]
    ops = []
    for n in sorted(ifs, key=lambda n: (n.lineno, n.col_offset)):
        if isinstance(n.test, ast.Compare) and isinstance(n.test.left, ast.Name) and n.test.left.id == "file_sha":
            ops.append(type(n.test.ops[0]).__name__)
    if ops != ["Lt", "Gt"]:
        raise T.TranslateError(f"bisect_find_sha: expected `file_sha < sha` / `file_sha > sha`, got {ops}")
    o = T.find_def(tree, "FilePackIndex._object_offset")
    calls = [n for n in ast.walk(o) if isinstance(n, ast.Call) and isinstance(n.func, ast.Name)
             and n.func.id == "bisect_find_sha"]
    if len(calls) != 1 or len(calls[0].args) != 4:
        raise T.TranslateError("_object_offset: expected one bisect_find_sha(start, end, sha, unpack) call")
    a0, a1 = calls[0].args[0], calls[0].args[1]
    if not (isinstance(a0, ast.Name) and a0.id == "start"):
        raise T.TranslateError("_object_offset: first bisect argument is not `start`")
    if isinstance(a1, ast.Name) and a1.id == "end":
        slack = 0
    elif isinstance(a1, ast.BinOp) and isinstance(a1.op, ast.Sub) and isinstance(a1.left, ast.Name) \
            and a1.left.id == "end" and isinstance(a1.right, ast.Constant) and isinstance(a1.right.value, int):
        slack = a1.right.value
    else:
        raise T.TranslateError("_object_offset: second bisect argument is neither `end` nor `end - k`")
    # `end = self._fan_out_table[idx]`, `start = self._fan_out_table[idx - 1]`
    subs = []
    for n in ast.walk(o):
        if isinstance(n, ast.Assign) and isinstance(n.targets[0], ast.Name) and n.targets[0].id in ("start", "end") \
                and isinstance(n.value, ast.Subscript):
            subs.append((n.targets[0].id, ast.unparse(n.value.slice)))
    if sorted(subs) != [("end", "idx"), ("start", "idx - 1")]:
        raise T.TranslateError(f"_object_offset: fan-out subscripts changed: {subs}")
    return inclusive, slack


def translate(repo: Path) -> dict:
    tree = T.module_ast(repo / "dulwich" / "pack.py")
    ofs, ref = T.const_value(tree, "OFS_DELTA"), T.const_value(tree, "REF_DELTA")
    ph = _ints(tree, "pack_object_header", 13)
    dh = _ints(tree, "_decode_object_header", 9)
    do = _ints(tree, "_decode_delta_base_offset", 9)
    tm = _ints(tree, "take_msb_bytes_at", 5)
    tm2 = _ints(tree, "take_msb_bytes", 5)
    pk_magic = _bytes_consts(tree, "pack_header_chunks")
    if not pk_magic or pk_magic[0] != _bytes_consts(tree, "read_pack_header_at")[0]:
        raise T.TranslateError("pack magic differs between writer and reader")
    pk_ver = _ints(tree, "pack_header_chunks", 1)[0]
    rh = _ints(tree, "read_pack_header_at", 7)
    hdr_size = _ints(tree, "PackData.__init__", 1)[0]
    # index writers
    w1 = _ints(tree, "write_pack_index_v1", 8)
    w2 = _ints(tree, "write_pack_index_v2", 14)
    w3 = _ints(tree, "write_pack_index_v3", 15)
    magic = _same("index magic", [_bytes_consts(tree, q)[0] for q in
                                  ("write_pack_index_v2", "write_pack_index_v3", "PackIndex2.__init__",
                                   "PackIndex3.__init__", "load_pack_index_file")])
    fan = _same("fan-out size", [T.range_bounds(T.find_def(tree, q))[0] for q in
                                 ("write_pack_index_v1", "write_pack_index_v2", "write_pack_index_v3",
                                  "FilePackIndex._read_fan_out_table")])
    large = _same("large-offset flag", _pows(tree, "write_pack_index_v2") + _pows(tree, "write_pack_index_v3") +
                  _pows(tree, "PackIndex2._unpack_offset") + _pows(tree, "PackIndex3._unpack_offset"))
    for q in ("write_pack_index_v2", "write_pack_index_v3", "PackIndex2._unpack_offset", "PackIndex3._unpack_offset"):
        if len(_pows(tree, q)) != 2:
            raise T.TranslateError(f"{q}: expected two 2**31 expressions")
    rf = _ints(tree, "FilePackIndex._read_fan_out_table", 5)
    i1 = _ints(tree, "PackIndex1.__init__", 3)
    n1 = _ints(tree, "PackIndex1._unpack_name", 3)
    o1 = _ints(tree, "PackIndex1._unpack_offset", 3)
    i2 = _ints(tree, "PackIndex2.__init__", 9)
    u2 = _ints(tree, "PackIndex2._unpack_offset", 9)
    i3 = _ints(tree, "PackIndex3.__init__", 11)
    u3 = _ints(tree, "PackIndex3._unpack_offset", 9)
    if u2 != u3:
        raise T.TranslateError("PackIndex2/3._unpack_offset differ")
    ld = _ints(tree, "load_pack_index_file", 6)
    bs = _ints(tree, "bisect_find_sha", 3)
    inclusive, slack = _bisect_shape(tree)
    # struct formats of the v1 entry
    v1fmt = [n.value for n in ast.walk(T.find_def(tree, "write_pack_index_v1"))
             if isinstance(n, ast.Constant) and isinstance(n.value, str) and n.value.startswith(">")]
    if v1fmt != [">L", ">L20s"]:
        raise T.TranslateError(f"write_pack_index_v1 struct formats changed: {v1fmt}")
    of_tree = T.module_ast(repo / "dulwich" / "object_format.py")
    fmts = {}
    for st in of_tree.body:
        if isinstance(st, ast.Assign) and isinstance(st.value, ast.Call) and getattr(st.value.func, "id", "") == "ObjectFormat":
            kw = {k.arg: k.value for k in st.value.keywords}
            fmts[st.targets[0].id] = (T.eval_literal(kw["type_num"]), T.eval_literal(kw["oid_length"]))
    if set(fmts) != {"SHA1", "SHA256"}:
        raise T.TranslateError(f"object formats: {fmts}")
    nums = None
    for st in of_tree.body:
        if isinstance(st, ast.Assign) and getattr(st.targets[0], "id", "") == "OBJECT_FORMAT_TYPE_NUMS":
            nums = {T.eval_literal(k): v.id for k, v in zip(st.value.keys, st.value.values)}
    if nums is None or sorted(nums.values()) != ["SHA1", "SHA256"]:
        raise T.TranslateError(f"OBJECT_FORMAT_TYPE_NUMS: {nums}")
    inv = {v: k for k, v in nums.items()}
    d = {
        "ofsDelta": ofs, "refDelta": ref,
        # pack_object_header: c = (type_num << A) | (size & B); size >>= C; c | D; size & E; size >>= F
        "hdrTypeShift": ph[0], "hdrLowMask": ph[1], "hdrLowShift": ph[2], "hdrContBit": ph[3],
        "hdrGroupMask": ph[4], "hdrGroupShift": ph[5],
        # OFS encoder: delta_base & A; >>= B; -= C; insert(D, E | (delta_base & F)); >>= G
        "ofsLowMask": ph[6], "ofsLowShift": ph[7], "ofsBias": ph[8], "ofsInsertPos": ph[9], "ofsContBit": ph[10],
        "ofsGroupMask": ph[11], "ofsGroupShift": ph[12],
        # _decode_object_header: (raw[A] >> B) & C; raw[D] & E; raw[F:]; (byte & G) << ((i * H) + I)
        "dhFirst": dh[0], "dhTypeShift": dh[1], "dhTypeMask": dh[2], "dhFirst2": dh[3], "dhLowMask": dh[4],
        "dhRestFrom": dh[5], "dhGroupMask": dh[6], "dhGroupShift": dh[7], "dhLowShift": dh[8],
        # _decode_delta_base_offset: raw[-A] & B; raw[C] & D; raw[E:]; += F; <<= G; byte & H; == I
        "doLast": do[0], "doContBit": do[1], "doFirst": do[2], "doLowMask": do[3], "doRestFrom": do[4],
        "doBias": do[5], "doGroupShift": do[6], "doGroupMask": do[7], "doZero": do[8],
        "msbBit": _same("take_msb continuation bit", [tm[2], tm2[2]]),
        "packVersion": pk_ver, "packHeaderSize": _same("pack header size", [hdr_size, rh[1]]),
        "packVersionLo": rh[4], "packVersionHi": rh[5], "packVersionAt": rh[2], "packCountAt": rh[6],
        "idxV2Version": _same("v2 version", [w2[2], i2[2], ld[4]]),
        "idxV3Version": _same("v3 version", [w3[5], i3[2], ld[5]]),
        "fanoutSize": fan, "fanEntryBytes": _same("fan-out entry width", [rf[1], rf[3]]),
        "largeFlag": large,
        "v1MaxOffset": w1[6], "v1NameLen": _same("v1 name length", [w1[5], w1[7]]),
        "v2CsLenA": w2[0], "v2CsLenB": w2[1],
        "v3FmtSha1": w3[0], "v3LenSha1": w3[2], "v3FmtSha256": w3[3], "v3LenSha256": w3[4],
        "v1FanAt": i1[1], "v1EntryExtra": i1[2],
        "v1TableAt": _same("v1 table offset", [n1[0] * n1[1], o1[0] * o1[1]]), "v1NameSkip": n1[2],
        "v2FanAt": i2[3], "v2NameAt": i2[4] + i2[5] * i2[6], "v2CrcWidth": i2[7], "v2OfsWidth": i2[8],
        "v3FmtAt": i3[3], "v3ShortLenAt": i3[4], "v3FanAt": i3[5], "v3NameAt": i3[6] + i3[7] * i3[8],
        "v3CrcWidth": i3[9], "v3OfsWidth": i3[10],
        "ofsEntryWidth": u2[0], "largeEntryWidth": u2[7],
        "loadMagicLen": ld[0], "loadVersionAt": ld[1], "loadVersionEnd": ld[2],
        "bisectDiv": bs[0], "bisectUp": bs[1], "bisectDown": bs[2],
        "bisectInclusive": inclusive, "lookupEndSlack": slack,
        "sha1Fmt": inv["SHA1"], "sha1Len": fmts["SHA1"][1], "sha256Fmt": inv["SHA256"], "sha256Len": fmts["SHA256"][1],
    }
    body = "".join(f"def {k} : Nat := {v}\n" for k, v in d.items())
    src = T.lean_header("dulwich/pack.py: OFS_DELTA, REF_DELTA, pack_object_header, _decode_object_header, "
                        "_decode_delta_base_offset, take_msb_bytes(_at), pack_header_chunks, read_pack_header_at, "
                        "write_pack_index_v1/v2/v3, FilePackIndex/PackIndex1/2/3, load_pack_index_file, "
                        "bisect_find_sha; dulwich/object_format.py: SHA1, SHA256") + f"""
namespace Dulwich.Gen.Pack
{body}/-- `b"PACK"` -/
def packMagic : List UInt8 := {T.lean_bytes(pk_magic[0])}
/-- index magic `b"\\377tOc"` -/
def idxMagic : List UInt8 := {T.lean_bytes(magic)}
end Dulwich.Gen.Pack
"""
    return {"Pack": src}


# ------------------------------------------------------------------------------------------------
# canonicalisation of what the real code does

TYPE_NAMES = {1: b"commit", 2: b"tree", 3: b"blob", 4: b"tag"}


def real_err(e: BaseException) -> str:
    import struct
    import zlib
    from dulwich.errors import ApplyDeltaError
    if isinstance(e, KeyError):
        return "err:key"
    if isinstance(e, ApplyDeltaError):
        return "err:delta"
    if isinstance(e, (TypeError, ValueError, struct.error, zlib.error)):
        return "err:format"
    if isinstance(e, (AssertionError, NotImplementedError)):
        return "err:other"
    return "exc:" + type(e).__name__


def obj_name(ty: int, data: bytes, algo="sha1") -> bytes:
    import hashlib
    h = hashlib.new(algo)
    h.update(TYPE_NAMES[ty] + b" %d\0" % len(data))
    h.update(data)
    return h.digest()


def ztable(buf: bytes, start: int = 12):
    """Every offset >= start at which Python's zlib finds a complete stream: (offset, compressed length, data).
    Computed without any pack parsing, so the model's `inflate` parameter is instantiated independently of
    dulwich's own header parser."""
    import zlib
    out = []
    n = len(buf)
    mv = memoryview(buf)
    for off in range(start, n - 1):
        b0 = buf[off]
        if (b0 & 0x0F) != 8 or (b0 >> 4) > 7:
            continue
        b1 = buf[off + 1]
        if ((b0 << 8) | b1) % 31 or (b1 & 0x20):
            continue
        d = zlib.decompressobj()
        try:
            data = d.decompress(mv[off:])
        except zlib.error:
            continue
        if not d.eof:
            continue
        out.append((off, n - off - len(d.unused_data), data))
    return out


def ztable_arg(tab) -> str:
    return ",".join(f"{o}:{l}:{hx(d)}" for o, l, d in tab) or "-"


def compress_chunks(chunks, level: int) -> bytes:
    import zlib
    c = zlib.compressobj(level=level)
    return b"".join(c.compress(ch) for ch in chunks) + c.flush()


class RecHash:
    """A hash object that records what it was fed (to observe PackStreamReader's running hash)."""
    size = 20

    def __init__(self):
        self.buf = bytearray()

    def update(self, b):
        self.buf += bytes(b)

    def digest(self):
        return b"\0" * self.size

    def hexdigest(self):
        return "00" * self.size


def rechash(size):
    return type("RecHash%d" % size, (RecHash,), {"size": size})


# ------------------------------------------------------------------------------------------------
# worker-side adapters (pure-Python variant: Python bisect_find_sha / apply_delta)

def _load_idx(data: bytes, hs: int):
    import io
    import dulwich.pack as P
    from dulwich.object_format import SHA1, SHA256
    return P.load_pack_index_file("mem.idx", io.BytesIO(data), SHA1 if hs == 20 else SHA256)


def lookup_all(idx, names):
    out = []
    for nm in names:
        try:
            out.append(f"ok:{idx._object_offset(nm)}")
        except BaseException as e:  # noqa: BLE001 - canonicalised
            if isinstance(e, (KeyboardInterrupt, SystemExit)):
                raise
            out.append(real_err(e))
    return out


def impl_idx_lookup(a):
    try:
        idx = _load_idx(unhx(a["idx"]), a["hs"])
    except Exception as e:
        return [real_err(e)]
    try:
        return lookup_all(idx, [unhx(n) for n in a["names"]])
    finally:
        idx.close()


def impl_which(a):
    import dulwich.pack as P
    return {"bisect": getattr(P.bisect_find_sha, "__module__", None) or "builtin", "file": P.__file__}


def impl_pack_getraw(a):
    """Random access with the pure-Python bisect/apply_delta on files in the scratch dir."""
    import warnings
    warnings.simplefilter("ignore")
    import dulwich.pack as P
    from dulwich.object_format import SHA1
    p = P.Pack(a["base"], object_format=SHA1)
    out = []
    try:
        for n in a["names"]:
            try:
                ty, data = p.get_raw(unhx(n))
                out.append(f"ok:{ty}:{hx(data)}")
            except BaseException as e:  # noqa: BLE001
                if isinstance(e, (KeyboardInterrupt, SystemExit)):
                    raise
                out.append(real_err(e))
    finally:
        p.close()
    return out


# ------------------------------------------------------------------------------------------------
# stream 1: object-header and OFS-distance codecs

SIZE_BOUNDS = [0, 1, 15, 16, 17, 127, 128, 2047, 2048, 2049, 2 ** 11 - 1, 2 ** 11, 2 ** 18 - 1, 2 ** 18, 65535, 65536,
               2 ** 25 - 1, 2 ** 25, 2 ** 31, 2 ** 32 - 1, 2 ** 32, 2 ** 63, 2 ** 64, 2 ** 70]
OFS_BOUNDS = [1, 2, 127, 128, 129, 255, 256, 16511, 16512, 16513, 2113663, 2113664, 2113665, 270549119, 270549120,
              2 ** 31 - 1, 2 ** 31, 2 ** 32, 2 ** 32 + 1, 2 ** 40, 2 ** 63, 2 ** 64 + 3]


def real_dechdr(buf: bytes) -> str:
    import dulwich.pack as P
    try:
        raw, pos, _ = P.take_msb_bytes_at(buf, 0)
    except AssertionError:
        return "none"
    ty, size = P._decode_object_header(raw)
    return f"{ty} {size} {hx(buf[pos:])}"


def real_decofs(buf: bytes) -> str:
    import dulwich.pack as P
    try:
        raw, pos, _ = P.take_msb_bytes_at(buf, 0)
    except AssertionError:
        return "none"
    try:
        return f"ok {P._decode_delta_base_offset(raw)} {hx(buf[pos:])}"
    except Exception as e:
        return real_err(e)


def codec_oracle(ctx, stream, kind, ty, n, tail: bytes):
    """Property's words on the real code: header/offset written by pack_object_header reads back."""
    import dulwich.pack as P
    from dulwich.object_format import SHA1
    if kind == "hdr":
        enc = bytes(P.pack_object_header(ty, None, n, SHA1))
        got = real_dechdr(enc + tail)
        want = f"{ty} {n} {hx(tail)}"
    else:
        enc = bytes(P.pack_object_header(P.OFS_DELTA, n, 0, SHA1))[1:]
        got = real_decofs(enc + tail)
        want = f"ok {n} {hx(tail)}"
    if got != want:
        ctx.oracle_fail(stream, {"kind": "codec", "codec": kind, "ty": ty, "n": n, "tail": hx(tail)},
                        f"{kind} codec does not round-trip on the real code: wrote {hx(enc)}, read back {got[:80]!r}, want {want[:80]!r}")


def _stream_codecs(ctx):
    import dulwich.pack as P
    from dulwich.object_format import SHA1
    rng = ctx.rng
    cases = [(ty, n) for ty in (1, 2, 3, 4) for n in SIZE_BOUNDS]
    for _ in range(ctx.budget(400)):
        cases.append((rng.choice([1, 2, 3, 4]), rng.getrandbits(rng.choice([3, 4, 5, 7, 8, 11, 12, 16, 17, 18, 19, 25, 26, 32, 33, 64]))))
    outs = ctx.driver.batch([f"c02.enchdr {t} {n}" for t, n in cases])
    tails = [b"", b"\x00", b"\x80", b"\xff\x7f", b"x\x9c"]
    dec_lines, dec_meta = [], []
    for (ty, n), o in zip(cases, outs):
        real = bytes(P.pack_object_header(ty, None, n, SHA1))
        ctx.count("hdr.enc", (ty, n), True, f"{len(real)}B")
        if o != hx(real):
            ctx.disagree("hdr.enc", {"ty": ty, "size": n}, o, hx(real))
        tail = rng.choice(tails) if rng.random() < 0.7 else rng.randbytes(rng.randint(1, 6))
        codec_oracle(ctx, "hdr.roundtrip", "hdr", ty, n, tail)
        dec_lines.append("c02.dechdr " + hx(real + tail))
        dec_meta.append(real + tail)
    # delta-typed headers as the writer emits them: header ++ distance / header ++ name
    dl = []
    for _ in range(ctx.budget(60)):
        n, size = rng.choice(OFS_BOUNDS + [rng.getrandbits(rng.choice([7, 8, 14, 15, 21, 22, 29]))or 1]), rng.choice(SIZE_BOUNDS[:16])
        dl.append((6, n, size))
        dl.append((7, rng.randbytes(20), size))
    outs6 = ctx.driver.batch([f"c02.enchdr {t} {s}" for t, _, s in dl])
    outs6b = ctx.driver.batch([f"c02.encofs {b}" if t == 6 else "c02.encofs 1" for t, b, _ in dl])
    for (t, b, s), h, o in zip(dl, outs6, outs6b):
        real = bytes(P.pack_object_header(t, b, s, SHA1))
        mod = unhx(h) + (unhx(o) if t == 6 else b)
        ctx.count("hdr.enc.delta", (t, b, s), True, f"type{t}")
        if mod != real:
            ctx.disagree("hdr.enc.delta", {"ty": t, "base": b if t == 6 else hx(b), "size": s}, hx(mod), hx(real))
    # arbitrary bytes through the decoder (incl. truncated headers)
    for _ in range(ctx.budget(300)):
        k = rng.randint(0, 6)
        b = bytes(rng.choice([0x00, 0x0f, 0x10, 0x7f, 0x80, 0x8f, 0x90, 0xe0, 0xf0, 0xff, rng.randrange(256)]) for _ in range(k))
        dec_lines.append("c02.dechdr " + hx(b))
        dec_meta.append(b)
    outs = ctx.driver.batch(dec_lines)
    for b, o in zip(dec_meta, outs):
        real = real_dechdr(b)
        ctx.count("hdr.dec", b, True, "none" if real == "none" else f"type{real.split()[0]}")
        if o != real:
            ctx.disagree("hdr.dec", {"bytes": hx(b)}, o, real)
    # OFS distance code
    ns = list(OFS_BOUNDS) + [0]
    for _ in range(ctx.budget(400)):
        ns.append(rng.getrandbits(rng.choice([1, 6, 7, 8, 13, 14, 15, 20, 21, 22, 28, 29, 31, 32, 33, 63, 64])))
    outs = ctx.driver.batch([f"c02.encofs {n}" for n in ns])
    dec_lines, dec_meta = [], []
    for n, o in zip(ns, outs):
        real = bytes(P.pack_object_header(P.OFS_DELTA, n, 0, SHA1))[1:]
        ctx.count("ofs.enc", n, True, f"{len(real)}B")
        if o != hx(real):
            ctx.disagree("ofs.enc", {"n": n}, o, hx(real))
        tail = rng.choice(tails)
        if n > 0:
            codec_oracle(ctx, "ofs.roundtrip", "ofs", 6, n, tail)
        dec_lines.append("c02.decofs " + hx(real + tail))
        dec_meta.append(real + tail)
    for _ in range(ctx.budget(300)):
        k = rng.randint(0, 6)
        b = bytes(rng.choice([0x00, 0x01, 0x7f, 0x80, 0x81, 0xff, rng.randrange(256)]) for _ in range(k))
        dec_lines.append("c02.decofs " + hx(b))
        dec_meta.append(b)
    outs = ctx.driver.batch(dec_lines)
    for b, o in zip(dec_meta, outs):
        real = real_decofs(b)
        ctx.count("ofs.dec", b, True, real.split(" ")[0])
        if o != real:
            ctx.disagree("ofs.dec", {"bytes": hx(b)}, o, real)
    ctx.sample({"stream": "hdr.enc", "ty": 3, "size": 65536, "bytes": hx(bytes(P.pack_object_header(3, None, 65536, SHA1)))})


# ------------------------------------------------------------------------------------------------
# stream 2: pack index writers / readers

OFFSETS = [12, 13, 255, 256, 65535, 2 ** 24, 2 ** 31 - 1, 2 ** 31, 2 ** 31 + 1, 2 ** 32 - 1, 2 ** 32, 2 ** 32 + 5, 2 ** 40,
           2 ** 63, 2 ** 64 - 1]


def gen_names(rng, n: int, hs: int):
    mode = rng.choice(["random", "random", "same-first", "extremes", "dense", "two-buckets", "low"])
    fb = rng.randrange(256)
    pre = rng.randbytes(hs - 2)
    names = set()
    while len(names) < n:
        if mode == "random":
            nm = rng.randbytes(hs)
        elif mode == "same-first":
            nm = bytes([fb]) + rng.randbytes(hs - 1)
        elif mode == "extremes":
            nm = bytes([rng.choice([0, 0, 255, 255, 1, 254])]) + rng.randbytes(hs - 1)
        elif mode == "dense":
            nm = pre + rng.randbytes(2)
        elif mode == "two-buckets":
            nm = bytes([rng.choice([fb, (fb + 1) % 256])]) + rng.randbytes(hs - 1)
        else:
            nm = bytes([rng.randrange(0, 0x40)]) + rng.randbytes(hs - 1)
        names.add(nm)
    return mode, sorted(names)


def gen_entries(rng, version: int, hs: int, n: int | None = None, craft_phantom: bool = False):
    if n is None:
        n = rng.choice([0, 0, 1, 1, 2, 3, 4, 5, 6, 7, 17, 40, 40, rng.randint(8, 120)])
    mode, names = gen_names(rng, n, hs)
    big = rng.random() < 0.6
    es = []
    for nm in names:
        if big and rng.random() < 0.4:
            off = rng.choice(OFFSETS)
        else:
            off = rng.randrange(12, 2 ** 31)
        if version == 1:
            off %= 2 ** 32
        es.append((nm, off, rng.getrandbits(32)))
    if craft_phantom and es and version != 1:
        # make the bytes after the name table (the start of the CRC table) look like a name above every entry
        es = [(nm, off, (0xFF000000 | (crc & 0xFFFFFF)) if i == 0 else crc) for i, (nm, off, crc) in enumerate(es)]
        mode += "+crafted-crc"
    return mode, es


def phantom_name(version: int, hs: int, n: int, idxb: bytes) -> bytes:
    """The hs bytes that follow the name table: what `_unpack_name(len(index))` returns."""
    if version == 1:
        at = 1024 + n * 24 + 4
    else:
        at = (1032 if version == 2 else 1040) + n * hs
    return idxb[at:at + hs]


def real_write_index(version: int, es, cs: bytes, fmt: int = 1):
    import io
    import dulwich.pack as P
    f = io.BytesIO()
    try:
        if version == 1:
            P.write_pack_index_v1(f, es, cs)
        elif version == 2:
            P.write_pack_index_v2(f, es, cs)
        else:
            P.write_pack_index_v3(f, es, cs, hash_format=fmt)
    except Exception as e:
        return real_err(e), None
    return "ok", f.getvalue()


def idx_trailer(version: int, cs: bytes, body: bytes) -> bytes:
    import hashlib
    if version == 2 and len(cs) == 32:
        return hashlib.sha256(body).digest()
    return hashlib.sha1(body).digest()


def es_args(es) -> str:
    return "".join(f" {hx(n)}:{o}:{c}" for n, o, c in es)


def probes_for(rng, es, hs: int, phantom: bytes, limit=24):
    present = [e[0] for e in es]
    if len(present) > limit:
        present = rng.sample(present, limit - 2) + [es[0][0], es[-1][0]]
    absent = [rng.randbytes(hs), b"\x00" * hs, b"\xff" * hs, phantom]
    for nm in rng.sample(present, min(4, len(present))):
        b = bytearray(nm)
        b[-1] ^= 1
        absent.append(bytes(b))
        b = bytearray(nm)
        b[0] = (b[0] + rng.choice([1, 255])) % 256
        absent.append(bytes(b))
        b = bytearray(nm)
        b[rng.randrange(hs)] ^= 0x80
        absent.append(bytes(b))
    names = set(e[0] for e in es)
    absent = [a for a in dict.fromkeys(absent) if a not in names and len(a) == hs]
    return present, absent


def idx_lookup_oracle(ctx, stream, case, es, present, absent, phantom, results, variant):
    """The property's words: a name in the entry set maps to its offset, any other name is absent."""
    want = {e[0]: e[1] for e in es}
    for nm, r in zip(present + absent, results):
        if nm in want:
            if r != f"ok:{want[nm]}":
                ctx.oracle_fail(stream, dict(case, probe=hx(nm), variant=variant),
                                f"index lookup of a present name gives {r}, want offset {want[nm]}")
        elif r != "err:key":
            cls = "phantom-name-after-table" if nm == phantom else None
            ctx.oracle_fail(stream, dict(case, probe=hx(nm), variant=variant),
                            f"index lookup of a name that is NOT in the index gives {r} instead of KeyError", cls)


def idx_case(ctx, stream, version, hs, es, cs, fmt=1, mode="", workers=None, model=True):
    rng = ctx.rng
    case = {"kind": "idx", "version": version, "hs": hs, "fmt": fmt, "cs": hx(cs), "entries": [[hx(n), o, c] for n, o, c in es]}
    st, real = real_write_index(version, es, cs, fmt)
    big = sum(1 for e in es if e[1] >= 2 ** 31)
    ctx.count(stream + ".write", (version, hs, tuple(es), cs, fmt), True, f"v{version}/hs{hs}/{'err' if real is None else 'ok'}/n{min(len(es), 8)}{'+' if len(es) > 8 else ''}/large{min(big, 3)}")
    if model:
        (o,) = ctx.driver.batch([f"c02.idxwrite {version} {fmt} {hx(cs)}" + es_args(es)])
        if real is None:
            if o != st:
                ctx.disagree(stream + ".write", case, o, st)
        else:
            if not o.startswith("ok "):
                ctx.disagree(stream + ".write", case, o[:100], "ok <%d bytes>" % len(real))
            else:
                body = unhx(o[3:])
                full = body + idx_trailer(version, cs, body)
                if full != real:
                    ctx.disagree(stream + ".write", case, hx(full)[:200] + "…", hx(real)[:200] + "…")
    if real is None:
        return
    # ---- read side
    import hashlib
    try:
        idx = _load_idx(real, hs)
    except Exception as e:
        ctx.oracle_fail(stream, case, f"index written by dulwich cannot be loaded: {type(e).__name__}: {e}")
        return
    try:
        n = len(es)
        phantom = phantom_name(version, hs, n, real)
        present, absent = probes_for(rng, es, hs, phantom)
        names = present + absent
        # in-process (installed extension: Rust bisect) and pure-Python (worker) variants
        res = {"default": lookup_all(idx, names)}
        if workers and "py" in workers:
            rep = workers["py"].ask({"mod": MOD, "op": "idx_lookup", "args": {"idx": hx(real), "hs": hs, "names": [hx(x) for x in names]}})
            if "r" in rep:
                res["py"] = rep["r"]
            else:
                ctx.oracle_fail(stream, case, f"pure-Python index lookup died: {rep}")
        for v, r in res.items():
            idx_lookup_oracle(ctx, stream + ".lookup", case, es, present, absent, phantom, r, v)
            for nm, x in zip(names, r):
                ctx.count(stream + ".lookup", (v, real, nm), True,
                          f"{v}:{'present' if nm in present else ('phantom' if nm == phantom else 'absent')}:{x.split(':')[0] + ':' + x.split(':')[1] if x.startswith('err') else 'ok'}")
        # entries / len / checksums (direct oracle)
        try:
            got = [(bytes(a), b, c) for a, b, c in idx.iterentries()]
        except Exception as e:
            got = real_err(e)
        want = [(a, b, None if version == 1 else c) for a, b, c in es]
        if got != want:
            ctx.oracle_fail(stream + ".entries", case, f"iterentries() of the written index differs from what was written: {str(got)[:120]}")
        if len(idx) != n:
            ctx.oracle_fail(stream + ".entries", case, f"len(index) = {len(idx)}, wrote {n} entries")
        if bytes(idx.get_pack_checksum()) != cs:
            ctx.oracle_fail(stream + ".entries", case, "stored pack checksum differs from the one written")
        try:
            idx.check()
        except Exception as e:
            ctx.oracle_fail(stream + ".entries", case, f"index checksum does not verify: {type(e).__name__}")
        # fan-out law, straight from the bytes
        at = {1: 0, 2: 8, 3: 16}[version]
        for b in (0, 1, 0x7f, 0x80, 0xfe, 0xff, rng.randrange(256)):
            v = int.from_bytes(real[at + 4 * b: at + 4 * b + 4], "big")
            if v != sum(1 for e in es if e[0][0] <= b):
                ctx.oracle_fail(stream + ".entries", case, f"fan-out[{b}] = {v} is not the number of names with first byte <= {b}")
        some_offs = [e[1] for e in (rng.sample(es, min(3, n)))] + [7]
        try:
            rn = []
            for o_ in some_offs:
                try:
                    rn.append("ok:" + hx(bytes(idx.object_sha1(o_))))
                except KeyError:
                    rn.append("err:key")
        except Exception as e:
            rn = [real_err(e)]
        if model:
            outs = ctx.driver.batch([f"c02.idxlookup {hs} {hx(real)}" + "".join(" " + hx(x) for x in names),
                                     f"c02.idxentries {hs} {hx(real)}",
                                     f"c02.idxname {hs} {hx(real)}" + "".join(f" {o_}" for o_ in some_offs)])
            for v, r in res.items():
                if outs[0].split(" ") != r:
                    bad = [(hx(nm), a, b) for nm, a, b in zip(names, outs[0].split(" "), r) if a != b]
                    ctx.disagree(stream + ".lookup", dict(case, probes=bad[:3]), [b[1] for b in bad[:3]], [b[2] for b in bad[:3]], v)
            me = "ok" + "".join(f" {hx(a)}:{b}:{'-' if c is None else c}" for a, b, c in got) if isinstance(got, list) else got
            ctx.count(stream + ".entries", (real,), True, f"v{version}")
            if outs[1] != me:
                ctx.disagree(stream + ".entries", case, outs[1][:200], me[:200])
            ctx.count(stream + ".name", (real, tuple(some_offs)), True)
            if outs[2].split(" ") != rn:
                # with duplicate offsets the first entry in table order wins on both sides
                ctx.disagree(stream + ".name", dict(case, offsets=some_offs), outs[2][:200], " ".join(rn)[:200])
    finally:
        idx.close()


def _stream_index(ctx, workers):
    rng = ctx.rng
    n = ctx.budget(70)
    for i in range(n):
        version = rng.choice([1, 2, 2, 2, 3])
        hs = 32 if (version == 2 and rng.random() < 0.35) else 20
        mode, es = gen_entries(rng, version, hs, craft_phantom=(i % 5 == 0))
        cs = rng.randbytes(hs)
        idx_case(ctx, "idx", version, hs, es, cs, mode=mode, workers=workers)
    # fixed boundary cases: empty index of every version, single entry with every boundary offset
    for version, hs in ((1, 20), (2, 20), (2, 32), (3, 20)):
        idx_case(ctx, "idx", version, hs, [], rng.randbytes(hs), workers=workers)
        for off in OFFSETS:
            if version == 1 and off >= 2 ** 32:
                continue
            idx_case(ctx, "idx", version, hs, [(rng.randbytes(hs), off, rng.getrandbits(32))], rng.randbytes(hs), workers=workers)
    # writer error branches (model vs real only)
    bad = []
    nm = rng.randbytes(20)
    bad.append((1, 20, [(nm, 2 ** 32, 1)], rng.randbytes(20), 1))             # v1: offset too large
    bad.append((1, 20, [(rng.randbytes(32), 5, 1)], rng.randbytes(20), 1))     # v1: sha-256 name
    bad.append((1, 20, [(nm, 5, 1)], rng.randbytes(32), 1))                    # v1: checksum length
    bad.append((2, 20, [(nm, 2 ** 64, 1)], rng.randbytes(20), 1))              # v2: offset beyond 64 bit
    bad.append((2, 20, [(nm, 5, 2 ** 32)], rng.randbytes(20), 1))              # v2: crc beyond 32 bit
    bad.append((2, 20, [(nm, 5, 1), (rng.randbytes(32), 6, 2)], rng.randbytes(20), 1))  # v2: mixed name lengths
    bad.append((2, 20, [(nm, 5, 1)], rng.randbytes(21), 1))                    # v2: checksum length
    bad.append((2, 32, [(nm, 5, 1)], rng.randbytes(32), 1))                    # v2: 20-byte names, 32-byte checksum (accepted)
    bad.append((3, 20, [(nm, 5, 1)], rng.randbytes(20), 2))                    # v3: sha-256 not implemented
    bad.append((3, 20, [(nm, 5, 1)], rng.randbytes(20), 3))                    # v3: unknown hash format
    bad.append((3, 20, [(rng.randbytes(32), 5, 1)], rng.randbytes(20), 1))     # v3: wrong name length
    bad.append((3, 20, [(nm, 5, 1)], rng.randbytes(32), 1))                    # v3: checksum length
    for version, hs, es, cs, fmt in bad:
        st, real = real_write_index(version, es, cs, fmt)
        (o,) = ctx.driver.batch([f"c02.idxwrite {version} {fmt} {hx(cs)}" + es_args(es)])
        ctx.count("idx.write.errors", (version, tuple(es), cs, fmt), True, f"v{version}:{st}")
        if real is None:
            if o != st:
                ctx.disagree("idx.write.errors", {"version": version, "entries": [[hx(a), b, c] for a, b, c in es], "cs": hx(cs), "fmt": fmt}, o, st)
        else:
            body = unhx(o[3:]) if o.startswith("ok ") else b""
            if body + idx_trailer(version, cs, body) != real:
                ctx.disagree("idx.write.errors", {"version": version, "entries": [[hx(a), b, c] for a, b, c in es], "cs": hx(cs), "fmt": fmt}, o[:120], "ok " + hx(real)[:100])
    # loader error branches: truncated / wrong-version files (model vs real only)
    _, good = real_write_index(2, [(nm, 5, 1)], rng.randbytes(20))
    _, good1 = real_write_index(1, [(nm, 5, 1)], rng.randbytes(20))
    _, good3 = real_write_index(3, [(nm, 5, 1)], rng.randbytes(20))
    muts = [good[:6], good[:8], good[:500], good[:1031], good[:4] + b"\0\0\0\4" + good[8:], good1[:100], good1[:1023], b"",
            good3[:12], good3[:8] + b"\0\0\0\7" + good3[12:], good3[:8] + b"\0\0\0\2" + good3[12:], good3[:1039]]
    lines = [f"c02.idxload 20 {hx(m)}" for m in muts] + [f"c02.idxload 32 {hx(good1)}", f"c02.idxload 32 {hx(good3)}"]
    outs = ctx.driver.batch(lines)
    for m, hs_, o in zip(muts + [good1, good3], [20] * len(muts) + [32, 32], outs):
        try:
            x = _load_idx(m, hs_)
            r = f"ok {x.version} {len(x)}"
            x.close()
        except Exception as e:
            r = real_err(e)
        ctx.count("idx.load.errors", (m, hs_), True, r.split(" ")[0])
        if o != r:
            ctx.disagree("idx.load.errors", {"idx": hx(m)[:80], "len": len(m), "hs": hs_}, o, r)
