"""C02 — pack and pack-index round trip, internally consistent, interoperable with C git.

Model: lean/DulwichModel/Model/Pack.lean, Model/PackIndex.lean; theorems: Props/C02.lean.
Tie: translate() regenerates Gen/Pack.lean (type numbers, header/offset codec masks and shifts, pack and
index magics/versions, fan-out size, large-offset flag, table offsets, the bound handed to the bisection);
run() drives the correspondence streams (model vs real code) and the direct oracle (real write -> real
read, C git as third party).
"""
from __future__ import annotations

import ast
from pathlib import Path

from .. import core, translate as T
from ..core import hx, unhx

MOD = "c02"
DEPENDS = ["C03"]


# ------------------------------------------------------------------------------------------------
# translator

def _ints(tree, qual: str, expect_len: int) -> list[int]:
    d = T.find_def(tree, qual)
    v = T.int_constants(d)
    if len(v) != expect_len:
        raise T.TranslateError(f"{qual}: expected {expect_len} integer literals, found {v}")
    return v


def _bytes_consts(tree, qual: str) -> list[bytes]:
    d = T.find_def(tree, qual)
    out = []
    for n in ast.walk(d):
        if isinstance(n, ast.Constant) and isinstance(n.value, bytes):
            out.append((n.lineno, n.col_offset, n.value))
    return [v for _, _, v in sorted(out)]


def _same(name: str, vals) -> int:
    vals = list(vals)
    if not vals or any(v != vals[0] for v in vals):
        raise T.TranslateError(f"{name}: the sources disagree with each other: {vals}")
    return vals[0]


def _pows(tree, qual: str) -> list[int]:
    """Values of all `a ** b` literal expressions in a function, in source order."""
    d = T.find_def(tree, qual)
    out = []
    for n in ast.walk(d):
        if isinstance(n, ast.BinOp) and isinstance(n.op, ast.Pow):
            out.append((n.lineno, n.col_offset, T.eval_literal(n)))
    return [v for _, _, v in sorted(out)]


def _bisect_shape(tree):
    """The comparison operators of bisect_find_sha and the bound _object_offset hands to it."""
    b = T.find_def(tree, "bisect_find_sha")
    loops = [n for n in ast.walk(b) if isinstance(n, ast.While)]
    if len(loops) != 1 or not isinstance(loops[0].test, ast.Compare) or len(loops[0].test.ops) != 1:
        raise T.TranslateError("bisect_find_sha: expected exactly one `while a <op> b` loop")
    t = loops[0].test
    if not (isinstance(t.left, ast.Name) and t.left.id == "start" and isinstance(t.comparators[0], ast.Name)
            and t.comparators[0].id == "end"):
        raise T.TranslateError("bisect_find_sha: loop condition is not over start/end")
    if isinstance(t.ops[0], ast.LtE):
        inclusive = 1
    elif isinstance(t.ops[0], ast.Lt):
        inclusive = 0
    else:
        raise T.TranslateError("bisect_find_sha: unexpected loop comparison")
    ifs = [n for n in ast.walk(loops[0]) if isinstance(n, ast.If)]
    ops = []
    for n in sorted(ifs, key=lambda n: (n.lineno, n.col_offset)):
        if isinstance(n.test, ast.Compare) and isinstance(n.test.left, ast.Name) and n.test.left.id == "file_sha":
            ops.append(type(n.test.ops[0]).__name__)
    if ops != ["Lt", "Gt"]:
        raise T.TranslateError(f"bisect_find_sha: expected `file_sha < sha` / `file_sha > sha`, got {ops}")
    o = T.find_def(tree, "FilePackIndex._object_offset")
    calls = [n for n in ast.walk(o) if isinstance(n, ast.Call) and isinstance(n.func, ast.Name)
             and n.func.id == "bisect_find_sha"]
    if len(calls) != 1 or len(calls[0].args) != 4:
        raise T.TranslateError("_object_offset: expected one bisect_find_sha(start, end, sha, unpack) call")
    a0, a1 = calls[0].args[0], calls[0].args[1]
    if not (isinstance(a0, ast.Name) and a0.id == "start"):
        raise T.TranslateError("_object_offset: first bisect argument is not `start`")
    if isinstance(a1, ast.Name) and a1.id == "end":
        slack = 0
    elif isinstance(a1, ast.BinOp) and isinstance(a1.op, ast.Sub) and isinstance(a1.left, ast.Name) \
            and a1.left.id == "end" and isinstance(a1.right, ast.Constant) and isinstance(a1.right.value, int):
        slack = a1.right.value
    else:
        raise T.TranslateError("_object_offset: second bisect argument is neither `end` nor `end - k`")
    # `end = self._fan_out_table[idx]`, `start = self._fan_out_table[idx - 1]`
    subs = []
    for n in ast.walk(o):
        if isinstance(n, ast.Assign) and isinstance(n.targets[0], ast.Name) and n.targets[0].id in ("start", "end") \
                and isinstance(n.value, ast.Subscript):
            subs.append((n.targets[0].id, ast.unparse(n.value.slice)))
    if sorted(subs) != [("end", "idx"), ("start", "idx - 1")]:
        raise T.TranslateError(f"_object_offset: fan-out subscripts changed: {subs}")
    return inclusive, slack


def translate(repo: Path) -> dict:
    tree = T.module_ast(repo / "dulwich" / "pack.py")
    ofs, ref = T.const_value(tree, "OFS_DELTA"), T.const_value(tree, "REF_DELTA")
    ph = _ints(tree, "pack_object_header", 13)
    dh = _ints(tree, "_decode_object_header", 9)
    do = _ints(tree, "_decode_delta_base_offset", 9)
    tm = _ints(tree, "take_msb_bytes_at", 5)
    tm2 = _ints(tree, "take_msb_bytes", 5)
    pk_magic = _bytes_consts(tree, "pack_header_chunks")
    if not pk_magic or pk_magic[0] != _bytes_consts(tree, "read_pack_header_at")[0]:
        raise T.TranslateError("pack magic differs between writer and reader")
    pk_ver = _ints(tree, "pack_header_chunks", 1)[0]
    rh = _ints(tree, "read_pack_header_at", 7)
    hdr_size = _ints(tree, "PackData.__init__", 1)[0]
    # index writers
    w1 = _ints(tree, "write_pack_index_v1", 8)
    w2 = _ints(tree, "write_pack_index_v2", 14)
    w3 = _ints(tree, "write_pack_index_v3", 15)
    magic = _same("index magic", [_bytes_consts(tree, q)[0] for q in
                                  ("write_pack_index_v2", "write_pack_index_v3", "PackIndex2.__init__",
                                   "PackIndex3.__init__", "load_pack_index_file")])
    fan = _same("fan-out size", [T.range_bounds(T.find_def(tree, q))[0] for q in
                                 ("write_pack_index_v1", "write_pack_index_v2", "write_pack_index_v3",
                                  "FilePackIndex._read_fan_out_table")])
    large = _same("large-offset flag", _pows(tree, "write_pack_index_v2") + _pows(tree, "write_pack_index_v3") +
                  _pows(tree, "PackIndex2._unpack_offset") + _pows(tree, "PackIndex3._unpack_offset"))
    for q in ("write_pack_index_v2", "write_pack_index_v3", "PackIndex2._unpack_offset", "PackIndex3._unpack_offset"):
        if len(_pows(tree, q)) != 2:
            raise T.TranslateError(f"{q}: expected two 2**31 expressions")
    rf = _ints(tree, "FilePackIndex._read_fan_out_table", 5)
    i1 = _ints(tree, "PackIndex1.__init__", 3)
    n1 = _ints(tree, "PackIndex1._unpack_name", 3)
    o1 = _ints(tree, "PackIndex1._unpack_offset", 3)
    i2 = _ints(tree, "PackIndex2.__init__", 9)
    u2 = _ints(tree, "PackIndex2._unpack_offset", 9)
    i3 = _ints(tree, "PackIndex3.__init__", 11)
    u3 = _ints(tree, "PackIndex3._unpack_offset", 9)
    if u2 != u3:
        raise T.TranslateError("PackIndex2/3._unpack_offset differ")
    ld = _ints(tree, "load_pack_index_file", 6)
    bs = _ints(tree, "bisect_find_sha", 3)
    inclusive, slack = _bisect_shape(tree)
    # struct formats of the v1 entry
    v1fmt = [n.value for n in ast.walk(T.find_def(tree, "write_pack_index_v1"))
             if isinstance(n, ast.Constant) and isinstance(n.value, str) and n.value.startswith(">")]
    if v1fmt != [">L", ">L20s"]:
        raise T.TranslateError(f"write_pack_index_v1 struct formats changed: {v1fmt}")
    of_tree = T.module_ast(repo / "dulwich" / "object_format.py")
    fmts = {}
    for st in of_tree.body:
        if isinstance(st, ast.Assign) and isinstance(st.value, ast.Call) and getattr(st.value.func, "id", "") == "ObjectFormat":
            kw = {k.arg: k.value for k in st.value.keywords}
            fmts[st.targets[0].id] = (T.eval_literal(kw["type_num"]), T.eval_literal(kw["oid_length"]))
    if set(fmts) != {"SHA1", "SHA256"}:
        raise T.TranslateError(f"object formats: {fmts}")
    nums = None
    for st in of_tree.body:
        if isinstance(st, ast.Assign) and getattr(st.targets[0], "id", "") == "OBJECT_FORMAT_TYPE_NUMS":
            nums = {T.eval_literal(k): v.id for k, v in zip(st.value.keys, st.value.values)}
    if nums is None or sorted(nums.values()) != ["SHA1", "SHA256"]:
        raise T.TranslateError(f"OBJECT_FORMAT_TYPE_NUMS: {nums}")
    inv = {v: k for k, v in nums.items()}
    d = {
        "ofsDelta": ofs, "refDelta": ref,
        # pack_object_header: c = (type_num << A) | (size & B); size >>= C; c | D; size & E; size >>= F
        "hdrTypeShift": ph[0], "hdrLowMask": ph[1], "hdrLowShift": ph[2], "hdrContBit": ph[3],
        "hdrGroupMask": ph[4], "hdrGroupShift": ph[5],
        # OFS encoder: delta_base & A; >>= B; -= C; insert(D, E | (delta_base & F)); >>= G
        "ofsLowMask": ph[6], "ofsLowShift": ph[7], "ofsBias": ph[8], "ofsInsertPos": ph[9], "ofsContBit": ph[10],
        "ofsGroupMask": ph[11], "ofsGroupShift": ph[12],
        # _decode_object_header: (raw[A] >> B) & C; raw[D] & E; raw[F:]; (byte & G) << ((i * H) + I)
        "dhFirst": dh[0], "dhTypeShift": dh[1], "dhTypeMask": dh[2], "dhFirst2": dh[3], "dhLowMask": dh[4],
        "dhRestFrom": dh[5], "dhGroupMask": dh[6], "dhGroupShift": dh[7], "dhLowShift": dh[8],
        # _decode_delta_base_offset: raw[-A] & B; raw[C] & D; raw[E:]; += F; <<= G; byte & H; == I
        "doLast": do[0], "doContBit": do[1], "doFirst": do[2], "doLowMask": do[3], "doRestFrom": do[4],
        "doBias": do[5], "doGroupShift": do[6], "doGroupMask": do[7], "doZero": do[8],
        "msbBit": _same("take_msb continuation bit", [tm[2], tm2[2]]),
        "packVersion": pk_ver, "packHeaderSize": _same("pack header size", [hdr_size, rh[1]]),
        "packVersionLo": rh[4], "packVersionHi": rh[5], "packVersionAt": rh[2], "packCountAt": rh[6],
        "idxV2Version": _same("v2 version", [w2[2], i2[2], ld[4]]),
        "idxV3Version": _same("v3 version", [w3[5], i3[2], ld[5]]),
        "fanoutSize": fan, "fanEntryBytes": _same("fan-out entry width", [rf[1], rf[3]]),
        "largeFlag": large,
        "v1MaxOffset": w1[6], "v1NameLen": _same("v1 name length", [w1[5], w1[7]]),
        "v2CsLenA": w2[0], "v2CsLenB": w2[1],
        "v3FmtSha1": w3[0], "v3LenSha1": w3[2], "v3FmtSha256": w3[3], "v3LenSha256": w3[4],
        "v1FanAt": i1[1], "v1EntryExtra": i1[2],
        "v1TableAt": _same("v1 table offset", [n1[0] * n1[1], o1[0] * o1[1]]), "v1NameSkip": n1[2],
        "v2FanAt": i2[3], "v2NameAt": i2[4] + i2[5] * i2[6], "v2CrcWidth": i2[7], "v2OfsWidth": i2[8],
        "v3FmtAt": i3[3], "v3ShortLenAt": i3[4], "v3FanAt": i3[5], "v3NameAt": i3[6] + i3[7] * i3[8],
        "v3CrcWidth": i3[9], "v3OfsWidth": i3[10],
        "ofsEntryWidth": u2[0], "largeEntryWidth": u2[7],
        "loadMagicLen": ld[0], "loadVersionAt": ld[1], "loadVersionEnd": ld[2],
        "bisectDiv": bs[0], "bisectUp": bs[1], "bisectDown": bs[2],
        "bisectInclusive": inclusive, "lookupEndSlack": slack,
        "sha1Fmt": inv["SHA1"], "sha1Len": fmts["SHA1"][1], "sha256Fmt": inv["SHA256"], "sha256Len": fmts["SHA256"][1],
    }
    body = "".join(f"def {k} : Nat := {v}\n" for k, v in d.items())
    src = T.lean_header("dulwich/pack.py: OFS_DELTA, REF_DELTA, pack_object_header, _decode_object_header, "
                        "_decode_delta_base_offset, take_msb_bytes(_at), pack_header_chunks, read_pack_header_at, "
                        "write_pack_index_v1/v2/v3, FilePackIndex/PackIndex1/2/3, load_pack_index_file, "
                        "bisect_find_sha; dulwich/object_format.py: SHA1, SHA256") + f"""
namespace Dulwich.Gen.Pack
{body}/-- `b"PACK"` -/
def packMagic : List UInt8 := {T.lean_bytes(pk_magic[0])}
/-- index magic `b"\\377tOc"` -/
def idxMagic : List UInt8 := {T.lean_bytes(magic)}
end Dulwich.Gen.Pack
"""
    return {"Pack": src}
