"""C02 — pack and pack-index round trip, internally consistent, interoperable with C git.

Model: lean/DulwichModel/Model/Pack.lean, Model/PackIndex.lean; theorems: Props/C02.lean.
Tie: translate() regenerates Gen/Pack.lean (type numbers, header/offset codec masks and shifts, pack and
index magics/versions, fan-out size, large-offset flag, table offsets, the bound handed to the bisection);
run() drives the correspondence streams (model vs real code) and the direct oracle (real write -> real
read, C git as third party).
"""
from __future__ import annotations

import ast
from pathlib import Path

from .. import core, translate as T
from ..core import hx, unhx

MOD = "c02"
DEPENDS = ["C03"]


# ------------------------------------------------------------------------------------------------
# translator

def _ints(tree, qual: str, expect_len: int) -> list[int]:
    d = T.find_def(tree, qual)
    v = T.int_constants(d)
    if len(v) != expect_len:
        raise T.TranslateError(f"{qual}: expected {expect_len} integer literals, found {v}")
    return v


def _bytes_consts(tree, qual: str) -> list[bytes]:
    d = T.find_def(tree, qual)
    out = []
    for n in ast.walk(d):
        if isinstance(n, ast.Constant) and isinstance(n.value, bytes):
            out.append((n.lineno, n.col_offset, n.value))
    return [v for _, _, v in sorted(out)]


def _same(name: str, vals) -> int:
    vals = list(vals)
    if not vals or any(v != vals[0] for v in vals):
        raise T.TranslateError(f"{name}: the sources disagree with each other: {vals}")
    return vals[0]


def _pows(tree, qual: str) -> list[int]:
    """Values of all `a ** b` literal expressions in a function, in source order."""
    d = T.find_def(tree, qual)
    out = []
    for n in ast.walk(d):
        if isinstance(n, ast.BinOp) and isinstance(n.op, ast.Pow):
            out.append((n.lineno, n.col_offset, T.eval_literal(n)))
    return [v for _, _, v in sorted(out)]


def _bisect_shape(tree):
    """The comparison operators of bisect_find_sha and the bound _object_offset hands to it."""
    b = T.find_def(tree, "bisect_find_sha")
    loops = [n for n in ast.walk(b) if isinstance(n, ast.While)]
    if len(loops) != 1 or not isinstance(loops[0].test, ast.Compare) or len(loops[0].test.ops) != 1:
        raise T.TranslateError("bisect_find_sha: expected exactly one `while a <op> b` loop")
    t = loops[0].test
    if not (isinstance(t.left, ast.Name) and t.left.id == "start" and isinstance(t.comparators[0], ast.Name)
            and t.comparators[0].id == "end"):
        raise T.TranslateError("bisect_find_sha: loop condition is not over start/end")
    if isinstance(t.ops[0], ast.LtE):
        inclusive = 1
    elif isinstance(t.ops[0], ast.Lt):
        inclusive = 0
    else:
        raise T.TranslateError("bisect_find_sha: unexpected loop comparison")
    ifs = [n for n in ast.walk(loops[0]) if isinstance(n, ast.If)]
    ops = []
    for n in sorted(ifs, key=lambda n: (n.lineno, n.col_offset)):
        if isinstance(n.test, ast.Compare) and isinstance(n.test.left, ast.Name) and n.test.left.id == "file_sha":
            ops.append(type(n.test.ops[0]).__name__)
    if ops != ["Lt", "Gt"]:
        raise T.TranslateError(f"bisect_find_sha: expected `file_sha < sha` / `file_sha > sha`, got {ops}")
    o = T.find_def(tree, "FilePackIndex._object_offset")
    calls = [n for n in ast.walk(o) if isinstance(n, ast.Call) and isinstance(n.func, ast.Name)
             and n.func.id == "bisect_find_sha"]
    if len(calls) != 1 or len(calls[0].args) != 4:
        raise T.TranslateError("_object_offset: expected one bisect_find_sha(start, end, sha, unpack) call")
    a0, a1 = calls[0].args[0], calls[0].args[1]
    if not (isinstance(a0, ast.Name) and a0.id == "start"):
        raise T.TranslateError("_object_offset: first bisect argument is not `start`")
    if isinstance(a1, ast.Name) and a1.id == "end":
        slack = 0
    elif isinstance(a1, ast.BinOp) and isinstance(a1.op, ast.Sub) and isinstance(a1.left, ast.Name) \
            and a1.left.id == "end" and isinstance(a1.right, ast.Constant) and isinstance(a1.right.value, int):
        slack = a1.right.value
    else:
        raise T.TranslateError("_object_offset: second bisect argument is neither `end` nor `end - k`")
    # `if start == end: raise KeyError(sha)` in front of the call (the empty group)
    guard = 0
    for n in ast.walk(o):
        if isinstance(n, ast.If) and ast.unparse(n.test) in ("start == end", "start >= end", "end == start", "end <= start") \
                and isinstance(n.body[0], ast.Raise) and "KeyError" in ast.unparse(n.body[0]):
            guard = 1
    if slack not in (0, 1) or (slack == 1) != (guard == 1):
        raise T.TranslateError(f"_object_offset: unexpected combination of bound `end - {slack}` and empty-group guard {guard}")
    # `end = self._fan_out_table[idx]`, `start = self._fan_out_table[idx - 1]`
    subs = []
    for n in ast.walk(o):
        if isinstance(n, ast.Assign) and isinstance(n.targets[0], ast.Name) and n.targets[0].id in ("start", "end") \
                and isinstance(n.value, ast.Subscript):
            subs.append((n.targets[0].id, ast.unparse(n.value.slice)))
    if sorted(subs) != [("end", "idx"), ("start", "idx - 1")]:
        raise T.TranslateError(f"_object_offset: fan-out subscripts changed: {subs}")
    # the arithmetic of the loop body: (start + end) // 2, i + 1, i - 1
    body_ints = T.int_constants(loops[0])
    if len(body_ints) != 3:
        raise T.TranslateError(f"bisect_find_sha: expected 3 integer literals in the loop, found {body_ints}")
    # what `start > end` does before the loop: `assert start <= end` (AssertionError -> 1) or
    # `if start > end: raise ValueError` (-> 0); the model maps it to the error class
    bad = None
    for n in b.body:
        if isinstance(n, ast.Assert) and ast.unparse(n.test) == "start <= end":
            bad = 1
        if isinstance(n, ast.If) and ast.unparse(n.test) == "start > end" and isinstance(n.body[0], ast.Raise) \
                and "ValueError" in ast.unparse(n.body[0]):
            bad = 0
    if bad is None:
        raise T.TranslateError("bisect_find_sha: no `start <= end` precondition found")
    return inclusive, slack, body_ints, bad, guard


def translate(repo: Path) -> dict:
    tree = T.module_ast(repo / "dulwich" / "pack.py")
    ofs, ref = T.const_value(tree, "OFS_DELTA"), T.const_value(tree, "REF_DELTA")
    ph = _ints(tree, "pack_object_header", 13)
    dh = _ints(tree, "_decode_object_header", 9)
    do = _ints(tree, "_decode_delta_base_offset", 9)
    tm = _ints(tree, "take_msb_bytes_at", 5)
    tm2 = _ints(tree, "take_msb_bytes", 5)
    pk_magic = _bytes_consts(tree, "pack_header_chunks")
    if not pk_magic or pk_magic[0] != _bytes_consts(tree, "read_pack_header_at")[0]:
        raise T.TranslateError("pack magic differs between writer and reader")
    pk_ver = _ints(tree, "pack_header_chunks", 1)[0]
    rh = _ints(tree, "read_pack_header_at", 7)
    hdr_size = _ints(tree, "PackData.__init__", 1)[0]
    # index writers
    w1 = _ints(tree, "write_pack_index_v1", 8)
    w2 = _ints(tree, "write_pack_index_v2", 14)
    w3 = _ints(tree, "write_pack_index_v3", 15)
    magic = _same("index magic", [_bytes_consts(tree, q)[0] for q in
                                  ("write_pack_index_v2", "write_pack_index_v3", "PackIndex2.__init__",
                                   "PackIndex3.__init__", "load_pack_index_file")])
    fan = _same("fan-out size", [T.range_bounds(T.find_def(tree, q))[0] for q in
                                 ("write_pack_index_v1", "write_pack_index_v2", "write_pack_index_v3",
                                  "FilePackIndex._read_fan_out_table")])
    large = _same("large-offset flag", _pows(tree, "write_pack_index_v2") + _pows(tree, "write_pack_index_v3") +
                  _pows(tree, "PackIndex2._unpack_offset") + _pows(tree, "PackIndex3._unpack_offset"))
    for q in ("write_pack_index_v2", "write_pack_index_v3", "PackIndex2._unpack_offset", "PackIndex3._unpack_offset"):
        if len(_pows(tree, q)) != 2:
            raise T.TranslateError(f"{q}: expected two 2**31 expressions")
    rf = _ints(tree, "FilePackIndex._read_fan_out_table", 5)
    i1 = _ints(tree, "PackIndex1.__init__", 3)
    n1 = _ints(tree, "PackIndex1._unpack_name", 3)
    o1 = _ints(tree, "PackIndex1._unpack_offset", 3)
    i2 = _ints(tree, "PackIndex2.__init__", 9)
    u2 = _ints(tree, "PackIndex2._unpack_offset", 9)
    i3 = _ints(tree, "PackIndex3.__init__", 11)
    u3 = _ints(tree, "PackIndex3._unpack_offset", 9)
    if u2 != u3:
        raise T.TranslateError("PackIndex2/3._unpack_offset differ")
    ld = _ints(tree, "load_pack_index_file", 6)
    inclusive, slack, bs, bad_bounds, guard = _bisect_shape(tree)
    # struct formats of the v1 entry
    v1fmt = [n.value for n in ast.walk(T.find_def(tree, "write_pack_index_v1"))
             if isinstance(n, ast.Constant) and isinstance(n.value, str) and n.value.startswith(">")]
    if v1fmt != [">L", ">L20s"]:
        raise T.TranslateError(f"write_pack_index_v1 struct formats changed: {v1fmt}")
    of_tree = T.module_ast(repo / "dulwich" / "object_format.py")
    fmts = {}
    for st in of_tree.body:
        if isinstance(st, ast.Assign) and isinstance(st.value, ast.Call) and getattr(st.value.func, "id", "") == "ObjectFormat":
            kw = {k.arg: k.value for k in st.value.keywords}
            fmts[st.targets[0].id] = (T.eval_literal(kw["type_num"]), T.eval_literal(kw["oid_length"]))
    if set(fmts) != {"SHA1", "SHA256"}:
        raise T.TranslateError(f"object formats: {fmts}")
    nums = None
    for st in of_tree.body:
        if isinstance(st, ast.Assign) and getattr(st.targets[0], "id", "") == "OBJECT_FORMAT_TYPE_NUMS":
            nums = {T.eval_literal(k): v.id for k, v in zip(st.value.keys, st.value.values)}
    if nums is None or sorted(nums.values()) != ["SHA1", "SHA256"]:
        raise T.TranslateError(f"OBJECT_FORMAT_TYPE_NUMS: {nums}")
    inv = {v: k for k, v in nums.items()}
    zbuf = T.const_value(tree, "_ZLIB_BUFSIZE")
    if zbuf != ZSLICE:
        raise T.TranslateError(f"_ZLIB_BUFSIZE is {zbuf}; the harness' aligned-stream generator assumes {ZSLICE}")
    ends_on_unused = {}
    for q, want_tests in (("read_zlib_chunks_at", ["not add", "decomp_obj.unconsumed_tail", "unused", "crc32 is not None",
                                                   "include_comp", "unused"]),
                          ("read_zlib_chunks", ["not add", "decomp_obj.unconsumed_tail", "unused", "crc32 is not None",
                                                "include_comp", "crc32 is not None"])):
        fn = T.find_def(tree, q)
        loops = [n for n in ast.walk(fn) if isinstance(n, ast.While)]
        if len(loops) != 1:
            raise T.TranslateError(f"{q}: expected one loop")
        tests = [ast.unparse(n.test) for n in sorted((n for n in ast.walk(loops[0]) if isinstance(n, ast.If)),
                                                     key=lambda n: (n.lineno, n.col_offset))]
        if tests == want_tests:
            ends_on_unused[q] = 1
        elif [t.replace("decomp_obj.eof", "unused") for t in tests] == want_tests:
            ends_on_unused[q] = 0          # the loop ends on `decomp_obj.eof`: the model follows, the theorem will not
        else:
            raise T.TranslateError(f"{q}: loop conditions changed: {tests}")
        defaults = [ast.unparse(dflt) for dflt in fn.args.defaults]
        if "_ZLIB_BUFSIZE" not in defaults:
            raise T.TranslateError(f"{q}: buffer_size no longer defaults to _ZLIB_BUFSIZE")
    d = {
        "zlibBufSize": zbuf, "zlibAtEndsOnUnused": ends_on_unused["read_zlib_chunks_at"],
        "zlibStreamEndsOnUnused": ends_on_unused["read_zlib_chunks"],
        "ofsDelta": ofs, "refDelta": ref,
        # pack_object_header: c = (type_num << A) | (size & B); size >>= C; c | D; size & E; size >>= F
        "hdrTypeShift": ph[0], "hdrLowMask": ph[1], "hdrLowShift": ph[2], "hdrContBit": ph[3],
        "hdrGroupMask": ph[4], "hdrGroupShift": ph[5],
        # OFS encoder: delta_base & A; >>= B; -= C; insert(D, E | (delta_base & F)); >>= G
        "ofsLowMask": ph[6], "ofsLowShift": ph[7], "ofsBias": ph[8], "ofsInsertPos": ph[9], "ofsContBit": ph[10],
        "ofsGroupMask": ph[11], "ofsGroupShift": ph[12],
        # _decode_object_header: (raw[A] >> B) & C; raw[D] & E; raw[F:]; (byte & G) << ((i * H) + I)
        "dhFirst": dh[0], "dhTypeShift": dh[1], "dhTypeMask": dh[2], "dhFirst2": dh[3], "dhLowMask": dh[4],
        "dhRestFrom": dh[5], "dhGroupMask": dh[6], "dhGroupShift": dh[7], "dhLowShift": dh[8],
        # _decode_delta_base_offset: raw[-A] & B; raw[C] & D; raw[E:]; += F; <<= G; byte & H; == I
        "doLast": do[0], "doContBit": do[1], "doFirst": do[2], "doLowMask": do[3], "doRestFrom": do[4],
        "doBias": do[5], "doGroupShift": do[6], "doGroupMask": do[7], "doZero": do[8],
        "msbBit": _same("take_msb continuation bit", [tm[2], tm2[2]]),
        "packVersion": pk_ver, "packHeaderSize": _same("pack header size", [hdr_size, rh[1]]),
        "packVersionLo": rh[4], "packVersionHi": rh[5], "packVersionAt": rh[2], "packCountAt": rh[6],
        "idxV2Version": _same("v2 version", [w2[2], i2[2], ld[4]]),
        "idxV3Version": _same("v3 version", [w3[5], i3[2], ld[5]]),
        "fanoutSize": fan, "fanEntryBytes": _same("fan-out entry width", [rf[1], rf[3]]),
        "largeFlag": large,
        "v1MaxOffset": w1[6], "v1NameLen": _same("v1 name length", [w1[5], w1[7]]),
        "v2CsLenA": w2[0], "v2CsLenB": w2[1],
        "v3FmtSha1": w3[0], "v3LenSha1": w3[2], "v3FmtSha256": w3[3], "v3LenSha256": w3[4],
        "v1FanAt": i1[1], "v1EntryExtra": i1[2],
        "v1TableAt": _same("v1 table offset", [n1[0] * n1[1], o1[0] * o1[1]]), "v1NameSkip": n1[2],
        "v2FanAt": i2[3], "v2NameAt": i2[4] + i2[5] * i2[6], "v2CrcWidth": i2[7], "v2OfsWidth": i2[8],
        "v3FmtAt": i3[3], "v3ShortLenAt": i3[4], "v3FanAt": i3[5], "v3NameAt": i3[6] + i3[7] * i3[8],
        "v3CrcWidth": i3[9], "v3OfsWidth": i3[10],
        "ofsEntryWidth": u2[0], "largeEntryWidth": u2[7],
        "loadMagicLen": ld[0], "loadVersionAt": ld[1], "loadVersionEnd": ld[2],
        "bisectDiv": bs[0], "bisectUp": bs[1], "bisectDown": bs[2],
        "bisectInclusive": inclusive, "lookupEndSlack": slack, "bisectBadBoundsIsAssert": bad_bounds,
        "lookupEmptyGroupIsKeyError": guard,
        "sha1Fmt": inv["SHA1"], "sha1Len": fmts["SHA1"][1], "sha256Fmt": inv["SHA256"], "sha256Len": fmts["SHA256"][1],
    }
    body = "".join(f"def {k} : Nat := {v}\n" for k, v in d.items())
    src = T.lean_header("dulwich/pack.py: OFS_DELTA, REF_DELTA, pack_object_header, _decode_object_header, "
                        "_decode_delta_base_offset, take_msb_bytes(_at), pack_header_chunks, read_pack_header_at, "
                        "write_pack_index_v1/v2/v3, FilePackIndex/PackIndex1/2/3, load_pack_index_file, "
                        "bisect_find_sha; dulwich/object_format.py: SHA1, SHA256") + f"""
namespace Dulwich.Gen.Pack
{body}/-- `b"PACK"` -/
def packMagic : List UInt8 := {T.lean_bytes(pk_magic[0])}
/-- index magic `b"\\377tOc"` -/
def idxMagic : List UInt8 := {T.lean_bytes(magic)}
end Dulwich.Gen.Pack
"""
    return {"Pack": src}


# ------------------------------------------------------------------------------------------------
# canonicalisation of what the real code does

TYPE_NAMES = {1: b"commit", 2: b"tree", 3: b"blob", 4: b"tag"}


def real_err(e: BaseException) -> str:
    import struct
    import zlib
    from dulwich.errors import ApplyDeltaError
    if isinstance(e, KeyError):
        return "err:key"
    if isinstance(e, ApplyDeltaError):
        return "err:delta"
    if isinstance(e, (TypeError, ValueError, struct.error, zlib.error)):
        return "err:format"
    if isinstance(e, (AssertionError, NotImplementedError)):
        return "err:other"
    return "exc:" + type(e).__name__


def obj_name(ty: int, data: bytes, algo="sha1") -> bytes:
    import hashlib
    h = hashlib.new(algo)
    h.update(TYPE_NAMES[ty] + b" %d\0" % len(data))
    h.update(data)
    return h.digest()


def ztable(buf: bytes, start: int = 12):
    """Every offset >= start at which Python's zlib finds a complete stream: (offset, compressed length, data).
    Computed without any pack parsing, so the model's `inflate` parameter is instantiated independently of
    dulwich's own header parser."""
    import zlib
    out = []
    n = len(buf)
    mv = memoryview(buf)
    for off in range(start, n - 1):
        b0 = buf[off]
        if (b0 & 0x0F) != 8 or (b0 >> 4) > 7:
            continue
        b1 = buf[off + 1]
        if ((b0 << 8) | b1) % 31 or (b1 & 0x20):
            continue
        d = zlib.decompressobj()
        try:
            data = d.decompress(mv[off:])
        except zlib.error:
            continue
        if not d.eof:
            continue
        out.append((off, n - off - len(d.unused_data), data))
    return out


def ztable_arg(tab) -> str:
    return ",".join(f"{o}:{l}:{hx(d)}" for o, l, d in tab) or "-"


def compress_chunks(chunks, level: int) -> bytes:
    import zlib
    c = zlib.compressobj(level=level)
    return b"".join(c.compress(ch) for ch in chunks) + c.flush()


class RecHash:
    """A hash object that records what it was fed (to observe PackStreamReader's running hash)."""
    size = 20

    def __init__(self):
        self.buf = bytearray()

    def update(self, b):
        self.buf += bytes(b)

    def digest(self):
        return b"\0" * self.size

    def hexdigest(self):
        return "00" * self.size


def rechash(size):
    return type("RecHash%d" % size, (RecHash,), {"size": size})


# ------------------------------------------------------------------------------------------------
# worker-side adapters (pure-Python variant: Python bisect_find_sha / apply_delta)

def _load_idx(data: bytes, hs: int):
    import io
    import dulwich.pack as P
    from dulwich.object_format import SHA1, SHA256
    return P.load_pack_index_file("mem.idx", io.BytesIO(data), SHA1 if hs == 20 else SHA256)


def lookup_all(idx, names):
    out = []
    for nm in names:
        try:
            out.append(f"ok:{idx._object_offset(nm)}")
        except BaseException as e:  # noqa: BLE001 - canonicalised
            if isinstance(e, (KeyboardInterrupt, SystemExit)):
                raise
            out.append(real_err(e))
    return out


def impl_idx_lookup(a):
    try:
        idx = _load_idx(unhx(a["idx"]), a["hs"])
    except Exception as e:
        return [real_err(e)]
    try:
        return lookup_all(idx, [unhx(n) for n in a["names"]])
    finally:
        idx.close()


def impl_which(a):
    import dulwich.pack as P
    return {"bisect": getattr(P.bisect_find_sha, "__module__", None) or "builtin", "file": P.__file__}


def impl_pack_getraw(a):
    """Random access with the pure-Python bisect/apply_delta on files in the scratch dir."""
    import warnings
    warnings.simplefilter("ignore")
    import dulwich.pack as P
    from dulwich.object_format import SHA1
    p = P.Pack(a["base"], object_format=SHA1)
    out = []
    try:
        for n in a["names"]:
            try:
                ty, data = p.get_raw(unhx(n))
                out.append(f"ok:{ty}:{hx(data)}")
            except BaseException as e:  # noqa: BLE001
                if isinstance(e, (KeyboardInterrupt, SystemExit)):
                    raise
                out.append(real_err(e))
    finally:
        p.close()
    return out


# ------------------------------------------------------------------------------------------------
# stream 1: object-header and OFS-distance codecs

SIZE_BOUNDS = [0, 1, 15, 16, 17, 127, 128, 2047, 2048, 2049, 2 ** 11 - 1, 2 ** 11, 2 ** 18 - 1, 2 ** 18, 65535, 65536,
               2 ** 25 - 1, 2 ** 25, 2 ** 31, 2 ** 32 - 1, 2 ** 32, 2 ** 63, 2 ** 64, 2 ** 70]
OFS_BOUNDS = [1, 2, 127, 128, 129, 255, 256, 16511, 16512, 16513, 2113663, 2113664, 2113665, 270549119, 270549120,
              2 ** 31 - 1, 2 ** 31, 2 ** 32, 2 ** 32 + 1, 2 ** 40, 2 ** 63, 2 ** 64 + 3]


def real_dechdr(buf: bytes) -> str:
    import dulwich.pack as P
    try:
        raw, pos, _ = P.take_msb_bytes_at(buf, 0)
    except AssertionError:
        return "none"
    ty, size = P._decode_object_header(raw)
    return f"{ty} {size} {hx(buf[pos:])}"


def real_decofs(buf: bytes) -> str:
    import dulwich.pack as P
    try:
        raw, pos, _ = P.take_msb_bytes_at(buf, 0)
    except AssertionError:
        return "none"
    try:
        return f"ok {P._decode_delta_base_offset(raw)} {hx(buf[pos:])}"
    except Exception as e:
        return real_err(e)


def codec_oracle(ctx, stream, kind, ty, n, tail: bytes):
    """Property's words on the real code: header/offset written by pack_object_header reads back."""
    import dulwich.pack as P
    from dulwich.object_format import SHA1
    if kind == "hdr":
        enc = bytes(P.pack_object_header(ty, None, n, SHA1))
        got = real_dechdr(enc + tail)
        want = f"{ty} {n} {hx(tail)}"
    else:
        enc = bytes(P.pack_object_header(P.OFS_DELTA, n, 0, SHA1))[1:]
        got = real_decofs(enc + tail)
        want = f"ok {n} {hx(tail)}"
    if got != want:
        ctx.oracle_fail(stream, {"kind": "codec", "codec": kind, "ty": ty, "n": n, "tail": hx(tail)},
                        f"{kind} codec does not round-trip on the real code: wrote {hx(enc)}, read back {got[:80]!r}, want {want[:80]!r}")


def _stream_codecs(ctx):
    import dulwich.pack as P
    from dulwich.object_format import SHA1
    rng = ctx.rng
    cases = [(ty, n) for ty in (1, 2, 3, 4) for n in SIZE_BOUNDS]
    for _ in range(ctx.budget(400)):
        cases.append((rng.choice([1, 2, 3, 4]), rng.getrandbits(rng.choice([3, 4, 5, 7, 8, 11, 12, 16, 17, 18, 19, 25, 26, 32, 33, 64]))))
    outs = ctx.driver.batch([f"c02.enchdr {t} {n}" for t, n in cases])
    tails = [b"", b"\x00", b"\x80", b"\xff\x7f", b"x\x9c"]
    dec_lines, dec_meta = [], []
    for (ty, n), o in zip(cases, outs):
        real = bytes(P.pack_object_header(ty, None, n, SHA1))
        ctx.count("hdr.enc", (ty, n), True, f"{len(real)}B")
        if o != hx(real):
            ctx.disagree("hdr.enc", {"ty": ty, "size": n}, o, hx(real))
        tail = rng.choice(tails) if rng.random() < 0.7 else rng.randbytes(rng.randint(1, 6))
        codec_oracle(ctx, "hdr.roundtrip", "hdr", ty, n, tail)
        dec_lines.append("c02.dechdr " + hx(real + tail))
        dec_meta.append(real + tail)
    # delta-typed headers as the writer emits them: header ++ distance / header ++ name
    dl = []
    for _ in range(ctx.budget(60)):
        n, size = rng.choice(OFS_BOUNDS + [rng.getrandbits(rng.choice([7, 8, 14, 15, 21, 22, 29]))or 1]), rng.choice(SIZE_BOUNDS[:16])
        dl.append((6, n, size))
        dl.append((7, rng.randbytes(20), size))
    outs6 = ctx.driver.batch([f"c02.enchdr {t} {s}" for t, _, s in dl])
    outs6b = ctx.driver.batch([f"c02.encofs {b}" if t == 6 else "c02.encofs 1" for t, b, _ in dl])
    for (t, b, s), h, o in zip(dl, outs6, outs6b):
        real = bytes(P.pack_object_header(t, b, s, SHA1))
        mod = unhx(h) + (unhx(o) if t == 6 else b)
        ctx.count("hdr.enc.delta", (t, b, s), True, f"type{t}")
        if mod != real:
            ctx.disagree("hdr.enc.delta", {"ty": t, "base": b if t == 6 else hx(b), "size": s}, hx(mod), hx(real))
    # arbitrary bytes through the decoder (incl. truncated headers)
    for _ in range(ctx.budget(300)):
        k = rng.randint(0, 6)
        b = bytes(rng.choice([0x00, 0x0f, 0x10, 0x7f, 0x80, 0x8f, 0x90, 0xe0, 0xf0, 0xff, rng.randrange(256)]) for _ in range(k))
        dec_lines.append("c02.dechdr " + hx(b))
        dec_meta.append(b)
    outs = ctx.driver.batch(dec_lines)
    for b, o in zip(dec_meta, outs):
        real = real_dechdr(b)
        ctx.count("hdr.dec", b, True, "none" if real == "none" else f"type{real.split()[0]}")
        if o != real:
            ctx.disagree("hdr.dec", {"bytes": hx(b)}, o, real)
    # OFS distance code
    ns = list(OFS_BOUNDS) + [0]
    for _ in range(ctx.budget(400)):
        ns.append(rng.getrandbits(rng.choice([1, 6, 7, 8, 13, 14, 15, 20, 21, 22, 28, 29, 31, 32, 33, 63, 64])))
    outs = ctx.driver.batch([f"c02.encofs {n}" for n in ns])
    dec_lines, dec_meta = [], []
    for n, o in zip(ns, outs):
        real = bytes(P.pack_object_header(P.OFS_DELTA, n, 0, SHA1))[1:]
        ctx.count("ofs.enc", n, True, f"{len(real)}B")
        if o != hx(real):
            ctx.disagree("ofs.enc", {"n": n}, o, hx(real))
        tail = rng.choice(tails)
        if n > 0:
            codec_oracle(ctx, "ofs.roundtrip", "ofs", 6, n, tail)
        dec_lines.append("c02.decofs " + hx(real + tail))
        dec_meta.append(real + tail)
    for _ in range(ctx.budget(300)):
        k = rng.randint(0, 6)
        b = bytes(rng.choice([0x00, 0x01, 0x7f, 0x80, 0x81, 0xff, rng.randrange(256)]) for _ in range(k))
        dec_lines.append("c02.decofs " + hx(b))
        dec_meta.append(b)
    outs = ctx.driver.batch(dec_lines)
    for b, o in zip(dec_meta, outs):
        real = real_decofs(b)
        ctx.count("ofs.dec", b, True, real.split(" ")[0])
        if o != real:
            ctx.disagree("ofs.dec", {"bytes": hx(b)}, o, real)
    ctx.sample({"stream": "hdr.enc", "ty": 3, "size": 65536, "bytes": hx(bytes(P.pack_object_header(3, None, 65536, SHA1)))})


# ------------------------------------------------------------------------------------------------
# stream 2: pack index writers / readers

OFFSETS = [12, 13, 255, 256, 65535, 2 ** 24, 2 ** 31 - 1, 2 ** 31, 2 ** 31 + 1, 2 ** 32 - 1, 2 ** 32, 2 ** 32 + 5, 2 ** 40,
           2 ** 63, 2 ** 64 - 1]


def gen_names(rng, n: int, hs: int):
    mode = rng.choice(["random", "random", "same-first", "extremes", "dense", "two-buckets", "low"])
    fb = rng.randrange(256)
    pre = rng.randbytes(hs - 2)
    names = set()
    while len(names) < n:
        if mode == "random":
            nm = rng.randbytes(hs)
        elif mode == "same-first":
            nm = bytes([fb]) + rng.randbytes(hs - 1)
        elif mode == "extremes":
            nm = bytes([rng.choice([0, 0, 255, 255, 1, 254])]) + rng.randbytes(hs - 1)
        elif mode == "dense":
            nm = pre + rng.randbytes(2)
        elif mode == "two-buckets":
            nm = bytes([rng.choice([fb, (fb + 1) % 256])]) + rng.randbytes(hs - 1)
        else:
            nm = bytes([rng.randrange(0, 0x40)]) + rng.randbytes(hs - 1)
        names.add(nm)
    return mode, sorted(names)


def gen_entries(rng, version: int, hs: int, n: int | None = None, craft_phantom: bool = False):
    if n is None:
        n = rng.choice([0, 0, 1, 1, 2, 3, 4, 5, 6, 7, 17, 40, 40, rng.randint(8, 120)])
    mode, names = gen_names(rng, n, hs)
    big = rng.random() < 0.6
    es = []
    for nm in names:
        if big and rng.random() < 0.4:
            off = rng.choice(OFFSETS)
        else:
            off = rng.randrange(12, 2 ** 31)
        if version == 1:
            off %= 2 ** 32
        es.append((nm, off, rng.getrandbits(32)))
    if craft_phantom and es and version != 1:
        # make the bytes after the name table (the start of the CRC table) look like a name above every entry
        es = [(nm, off, (0xFF000000 | (crc & 0xFFFFFF)) if i == 0 else crc) for i, (nm, off, crc) in enumerate(es)]
        mode += "+crafted-crc"
    return mode, es


def phantom_name(version: int, hs: int, n: int, idxb: bytes) -> bytes:
    """The hs bytes that follow the name table: what `_unpack_name(len(index))` returns."""
    if version == 1:
        at = 1024 + n * 24 + 4
    else:
        at = (1032 if version == 2 else 1040) + n * hs
    return idxb[at:at + hs]


def real_write_index(version: int, es, cs: bytes, fmt: int = 1):
    import io
    import dulwich.pack as P
    f = io.BytesIO()
    try:
        if version == 1:
            P.write_pack_index_v1(f, es, cs)
        elif version == 2:
            P.write_pack_index_v2(f, es, cs)
        else:
            P.write_pack_index_v3(f, es, cs, hash_format=fmt)
    except Exception as e:
        return real_err(e), None
    return "ok", f.getvalue()


def idx_trailer(version: int, cs: bytes, body: bytes) -> bytes:
    import hashlib
    if version == 2 and len(cs) == 32:
        return hashlib.sha256(body).digest()
    return hashlib.sha1(body).digest()


def es_args(es) -> str:
    return "".join(f" {hx(n)}:{o}:{c}" for n, o, c in es)


def probes_for(rng, es, hs: int, phantom: bytes, limit=24):
    present = [e[0] for e in es]
    if len(present) > limit:
        present = rng.sample(present, limit - 2) + [es[0][0], es[-1][0]]
    absent = [rng.randbytes(hs), b"\x00" * hs, b"\xff" * hs, phantom]
    for nm in rng.sample(present, min(4, len(present))):
        b = bytearray(nm)
        b[-1] ^= 1
        absent.append(bytes(b))
        b = bytearray(nm)
        b[0] = (b[0] + rng.choice([1, 255])) % 256
        absent.append(bytes(b))
        b = bytearray(nm)
        b[rng.randrange(hs)] ^= 0x80
        absent.append(bytes(b))
    names = set(e[0] for e in es)
    absent = [a for a in dict.fromkeys(absent) if a not in names and len(a) == hs]
    return present, absent


def idx_lookup_oracle(ctx, stream, case, es, present, absent, phantom, results, variant):
    """The property's words: a name in the entry set maps to its offset, any other name is absent."""
    want = {e[0]: e[1] for e in es}
    for nm, r in zip(present + absent, results):
        if nm in want:
            if r != f"ok:{want[nm]}":
                ctx.oracle_fail(stream, dict(case, probe=hx(nm), variant=variant),
                                f"index lookup of a present name gives {r}, want offset {want[nm]}")
        elif r != "err:key":
            cls = "phantom-name-after-table" if nm == phantom else None
            ctx.oracle_fail(stream, dict(case, probe=hx(nm), variant=variant),
                            f"index lookup of a name that is NOT in the index gives {r} instead of KeyError", cls)


def idx_case(ctx, stream, version, hs, es, cs, fmt=1, mode="", workers=None, model=True):
    rng = ctx.rng
    case = {"kind": "idx", "version": version, "hs": hs, "fmt": fmt, "cs": hx(cs), "entries": [[hx(n), o, c] for n, o, c in es]}
    st, real = real_write_index(version, es, cs, fmt)
    big = sum(1 for e in es if e[1] >= 2 ** 31)
    ctx.count(stream + ".write", (version, hs, tuple(es), cs, fmt), True, f"v{version}/hs{hs}/{'err' if real is None else 'ok'}/n{min(len(es), 8)}{'+' if len(es) > 8 else ''}/large{min(big, 3)}")
    if model:
        (o,) = ctx.driver.batch([f"c02.idxwrite {version} {fmt} {hx(cs)}" + es_args(es)])
        if real is None:
            if o != st:
                ctx.disagree(stream + ".write", case, o, st)
        else:
            if not o.startswith("ok "):
                ctx.disagree(stream + ".write", case, o[:100], "ok <%d bytes>" % len(real))
            else:
                body = unhx(o[3:])
                full = body + idx_trailer(version, cs, body)
                if full != real:
                    ctx.disagree(stream + ".write", case, hx(full)[:200] + "…", hx(real)[:200] + "…")
    if real is None:
        return
    # ---- read side
    import hashlib
    try:
        idx = _load_idx(real, hs)
    except Exception as e:
        ctx.oracle_fail(stream, case, f"index written by dulwich cannot be loaded: {type(e).__name__}: {e}")
        return
    try:
        n = len(es)
        phantom = phantom_name(version, hs, n, real)
        present, absent = probes_for(rng, es, hs, phantom)
        names = present + absent
        # in-process (installed extension: Rust bisect) and pure-Python (worker) variants
        res = {"default": lookup_all(idx, names)}
        if workers and "py" in workers:
            rep = workers["py"].ask({"mod": MOD, "op": "idx_lookup", "args": {"idx": hx(real), "hs": hs, "names": [hx(x) for x in names]}})
            if "r" in rep:
                res["py"] = rep["r"]
            else:
                ctx.oracle_fail(stream, case, f"pure-Python index lookup died: {rep}")
        for v, r in res.items():
            idx_lookup_oracle(ctx, stream + ".lookup", case, es, present, absent, phantom, r, v)
            for nm, x in zip(names, r):
                ctx.count(stream + ".lookup", (v, real, nm), True,
                          f"{v}:{'present' if nm in present else ('phantom' if nm == phantom else 'absent')}:{x.split(':')[0] + ':' + x.split(':')[1] if x.startswith('err') else 'ok'}")
        # entries / len / checksums (direct oracle)
        try:
            got = [(bytes(a), b, c) for a, b, c in idx.iterentries()]
        except Exception as e:
            got = real_err(e)
        want = [(a, b, None if version == 1 else c) for a, b, c in es]
        if got != want:
            ctx.oracle_fail(stream + ".entries", case, f"iterentries() of the written index differs from what was written: {str(got)[:120]}")
        if len(idx) != n:
            ctx.oracle_fail(stream + ".entries", case, f"len(index) = {len(idx)}, wrote {n} entries")
        if bytes(idx.get_pack_checksum()) != cs:
            ctx.oracle_fail(stream + ".entries", case, "stored pack checksum differs from the one written")
        try:
            idx.check()
        except Exception as e:
            ctx.oracle_fail(stream + ".entries", case, f"index checksum does not verify: {type(e).__name__}")
        # fan-out law, straight from the bytes
        at = {1: 0, 2: 8, 3: 16}[version]
        for b in (0, 1, 0x7f, 0x80, 0xfe, 0xff, rng.randrange(256)):
            v = int.from_bytes(real[at + 4 * b: at + 4 * b + 4], "big")
            if v != sum(1 for e in es if e[0][0] <= b):
                ctx.oracle_fail(stream + ".entries", case, f"fan-out[{b}] = {v} is not the number of names with first byte <= {b}")
        some_offs = [e[1] for e in (rng.sample(es, min(3, n)))] + [7]
        try:
            rn = []
            for o_ in some_offs:
                try:
                    rn.append("ok:" + hx(bytes(idx.object_sha1(o_))))
                except KeyError:
                    rn.append("err:key")
        except Exception as e:
            rn = [real_err(e)]
        if model:
            outs = ctx.driver.batch([f"c02.idxlookup {hs} {hx(real)}" + "".join(" " + hx(x) for x in names),
                                     f"c02.idxentries {hs} {hx(real)}",
                                     f"c02.idxname {hs} {hx(real)}" + "".join(f" {o_}" for o_ in some_offs)])
            for v, r in res.items():
                if outs[0].split(" ") != r:
                    bad = [(hx(nm), a, b) for nm, a, b in zip(names, outs[0].split(" "), r) if a != b]
                    ctx.disagree(stream + ".lookup", dict(case, probes=bad[:3]), [b[1] for b in bad[:3]], [b[2] for b in bad[:3]], v)
            me = "ok" + "".join(f" {hx(a)}:{b}:{'-' if c is None else c}" for a, b, c in got) if isinstance(got, list) else got
            ctx.count(stream + ".entries", (real,), True, f"v{version}")
            if outs[1] != me:
                ctx.disagree(stream + ".entries", case, outs[1][:200], me[:200])
            ctx.count(stream + ".name", (real, tuple(some_offs)), True)
            if outs[2].split(" ") != rn:
                # with duplicate offsets the first entry in table order wins on both sides
                ctx.disagree(stream + ".name", dict(case, offsets=some_offs), outs[2][:200], " ".join(rn)[:200])
    finally:
        idx.close()


def _stream_index(ctx, workers):
    rng = ctx.rng
    n = ctx.budget(250)
    for i in range(n):
        version = rng.choice([1, 2, 2, 2, 3])
        hs = 32 if (version == 2 and rng.random() < 0.35) else 20
        mode, es = gen_entries(rng, version, hs, craft_phantom=(i % 5 == 0))
        cs = rng.randbytes(hs)
        idx_case(ctx, "idx", version, hs, es, cs, mode=mode, workers=workers)
    # fixed boundary cases: empty index of every version, single entry with every boundary offset
    for version, hs in ((1, 20), (2, 20), (2, 32), (3, 20)):
        idx_case(ctx, "idx", version, hs, [], rng.randbytes(hs), workers=workers)
        for off in OFFSETS:
            if version == 1 and off >= 2 ** 32:
                continue
            idx_case(ctx, "idx", version, hs, [(rng.randbytes(hs), off, rng.getrandbits(32))], rng.randbytes(hs), workers=workers)
    # writer error branches (model vs real only)
    bad = []
    nm = rng.randbytes(20)
    bad.append((1, 20, [(nm, 2 ** 32, 1)], rng.randbytes(20), 1))             # v1: offset too large
    bad.append((1, 20, [(rng.randbytes(32), 5, 1)], rng.randbytes(20), 1))     # v1: sha-256 name
    bad.append((1, 20, [(nm, 5, 1)], rng.randbytes(32), 1))                    # v1: checksum length
    bad.append((2, 20, [(nm, 2 ** 64, 1)], rng.randbytes(20), 1))              # v2: offset beyond 64 bit
    bad.append((2, 20, [(nm, 5, 2 ** 32)], rng.randbytes(20), 1))              # v2: crc beyond 32 bit
    bad.append((2, 20, [(nm, 5, 1), (rng.randbytes(32), 6, 2)], rng.randbytes(20), 1))  # v2: mixed name lengths
    bad.append((2, 20, [(nm, 5, 1)], rng.randbytes(21), 1))                    # v2: checksum length
    bad.append((2, 32, [(nm, 5, 1)], rng.randbytes(32), 1))                    # v2: 20-byte names, 32-byte checksum (accepted)
    bad.append((3, 20, [(nm, 5, 1)], rng.randbytes(20), 2))                    # v3: sha-256 not implemented
    bad.append((3, 20, [(nm, 5, 1)], rng.randbytes(20), 3))                    # v3: unknown hash format
    bad.append((3, 20, [(rng.randbytes(32), 5, 1)], rng.randbytes(20), 1))     # v3: wrong name length
    bad.append((3, 20, [(nm, 5, 1)], rng.randbytes(32), 1))                    # v3: checksum length
    for version, hs, es, cs, fmt in bad:
        st, real = real_write_index(version, es, cs, fmt)
        (o,) = ctx.driver.batch([f"c02.idxwrite {version} {fmt} {hx(cs)}" + es_args(es)])
        ctx.count("idx.write.errors", (version, tuple(es), cs, fmt), True, f"v{version}:{st}")
        if real is None:
            if o != st:
                ctx.disagree("idx.write.errors", {"version": version, "entries": [[hx(a), b, c] for a, b, c in es], "cs": hx(cs), "fmt": fmt}, o, st)
        else:
            body = unhx(o[3:]) if o.startswith("ok ") else b""
            if body + idx_trailer(version, cs, body) != real:
                ctx.disagree("idx.write.errors", {"version": version, "entries": [[hx(a), b, c] for a, b, c in es], "cs": hx(cs), "fmt": fmt}, o[:120], "ok " + hx(real)[:100])
    # loader error branches: truncated / wrong-version files (model vs real only)
    _, good = real_write_index(2, [(nm, 5, 1)], rng.randbytes(20))
    _, good1 = real_write_index(1, [(nm, 5, 1)], rng.randbytes(20))
    _, good3 = real_write_index(3, [(nm, 5, 1)], rng.randbytes(20))
    muts = [good[:6], good[:8], good[:500], good[:1031], good[:4] + b"\0\0\0\4" + good[8:], good1[:100], good1[:1023], b"",
            good3[:12], good3[:8] + b"\0\0\0\7" + good3[12:], good3[:8] + b"\0\0\0\2" + good3[12:], good3[:1039]]
    lines = [f"c02.idxload 20 {hx(m)}" for m in muts] + [f"c02.idxload 32 {hx(good1)}", f"c02.idxload 32 {hx(good3)}"]
    outs = ctx.driver.batch(lines)
    for m, hs_, o in zip(muts + [good1, good3], [20] * len(muts) + [32, 32], outs):
        try:
            x = _load_idx(m, hs_)
            r = f"ok {x.version} {len(x)}"
            x.close()
        except Exception as e:
            r = real_err(e)
        ctx.count("idx.load.errors", (m, hs_), True, r.split(" ")[0])
        if o != r:
            ctx.disagree("idx.load.errors", {"idx": hx(m)[:80], "len": len(m), "hs": hs_}, o, r)


# ------------------------------------------------------------------------------------------------
# stream 3: PackStreamReader._read trailer tracking under arbitrary chunking

def real_trailer(hs: int, chunks):
    import dulwich.pack as P
    it = iter(chunks)
    r = P.PackStreamReader(rechash(hs), lambda n: next(it), lambda n: next(it))
    for _ in chunks:
        r._read(r.read_all, 1 << 20)
    return bytes(r.sha.buf), bytes(bytearray(r._trailer))


def gen_chunking(rng, hs: int):
    total = rng.choice([0, 1, hs - 1, hs, hs + 1, 2 * hs - 1, 2 * hs, 2 * hs + 1, rng.randint(0, 150)])
    data = rng.randbytes(total)
    style = rng.choice(["bytes", "small", "around-hs", "mixed", "one", "with-empty"])
    chunks, i = [], 0
    while i < len(data):
        if style == "bytes":
            k = 1
        elif style == "small":
            k = rng.randint(1, 3)
        elif style == "around-hs":
            k = rng.choice([hs - 1, hs, hs + 1])
        elif style == "one":
            k = len(data)
        else:
            k = rng.choice([1, 2, hs - 1, hs, hs + 1, 2 * hs, 50])
        chunks.append(data[i:i + k])
        i += k
        if style == "with-empty" and rng.random() < 0.3:
            chunks.append(b"")
    if style == "with-empty" and rng.random() < 0.5:
        chunks.insert(0, b"")
    return style, data, chunks


def trailer_case(ctx, stream, hs, data, chunks, model_out=None):
    case = {"kind": "trailer", "hs": hs, "chunks": [hx(c) for c in chunks]}
    hashed, trailer = real_trailer(hs, chunks)
    # property's words: hash covers everything but the last hs bytes, the trailer is exactly those bytes
    cut = max(len(data) - hs, 0)
    if hashed != data[:cut] or trailer != data[cut:]:
        ctx.oracle_fail(stream, case, f"after feeding {len(chunks)} chunks ({len(data)} bytes) the reader hashed {len(hashed)} bytes and holds a "
                        f"{len(trailer)}-byte trailer; want {cut} hashed and the last {len(data) - cut} bytes as trailer")
    if model_out is not None and model_out != f"{hx(hashed)} {hx(trailer)}":
        ctx.disagree(stream, case, model_out[:200], f"{hx(hashed)} {hx(trailer)}"[:200])


def _stream_trailer(ctx):
    rng = ctx.rng
    cases = []
    for _ in range(ctx.budget(300)):
        hs = rng.choice([20, 20, 32])
        style, data, chunks = gen_chunking(rng, hs)
        cases.append((hs, style, data, chunks))
    # exhaustive: every composition of a 2-, hs-1..hs+2-byte total into chunks of size <= 3 is too many; take all
    # two-chunk splits of totals around hs instead
    for hs in (20, 32):
        for total in (hs - 1, hs, hs + 1, 2 * hs):
            data = bytes(range(1, total + 1))
            for cut in range(total + 1):
                cases.append((hs, "two-split", data, [data[:cut], data[cut:]]))
    outs = ctx.driver.batch([f"c02.trailer {hs}" + "".join(" " + hx(c) for c in chunks) if chunks else f"c02.trailer {hs}"
                             for hs, _, _, chunks in cases])
    for (hs, style, data, chunks), o in zip(cases, outs):
        ctx.count("trailer", (hs, tuple(chunks)), True, f"hs{hs}:{style}:{'short' if len(data) < hs else 'long'}")
        trailer_case(ctx, "trailer", hs, data, chunks, o)


# ------------------------------------------------------------------------------------------------
# stream 4: whole packs

def gen_objects(rng, big_ok=True):
    """A list of (type_num, content).  Sizes straddle the 4-bit/7-bit header groups and the 64 KiB copy limit;
    families of similar blobs make the deltifier produce chains; valid trees/commits/tags so Pack.check() applies.
    The (debug-build) Rust differ costs about len * edit-distance, so all blobs above 300 bytes of one set are cut
    from one pool / edited from one family base with a bounded amount of fresh bytes, and sets that contain 64 KiB
    objects contain nothing else above 16 bytes."""
    pool = (rng.randbytes(61) * 1200)[:70000]
    objs = []
    if big_ok and rng.random() < 0.5:
        for _ in range(rng.randint(1, 4)):
            k = rng.random()
            if k < 0.7:
                sz = rng.choice([65535, 65536, 65537])
                tail = rng.randbytes(rng.choice([0, 0, 1, 20]))
                objs.append((3, pool[:sz - len(tail)] + tail if rng.random() < 0.5 else pool[:sz] + tail))
            elif k < 0.85:
                objs.append((3, rng.randbytes(rng.choice([0, 1, 15, 16]))))
            elif objs and rng.random() < 0.3:
                objs.append(rng.choice(objs))
        return objs
    # one length scale per set: every blob above 300 bytes is within ~300 bytes of `scale`
    scale = rng.choice([40, 200, 200, 700, 1000, 2048, 2048])
    n = rng.choice([0, 1, 1, 2, 3, 5, 8, 13, 21, 40] if scale <= 200 else [1, 2, 3, 5, 8, 13])
    sizes = [0, 1, 15, 16, 17, 127, 128, 129, 255, 256, 300]
    if scale == 2048:
        sizes += [2047, 2048, 2049] * 3
    elif scale == 1000:
        sizes += [999, 1000, 1001]
    fam_base = pool[:scale]
    fresh = 300                                                # budget of fresh random bytes in big-ish blobs
    dups = rng.random() < 0.1                                  # one set in ten passes some object twice
    while len(objs) < n:
        k = rng.random()
        if k < 0.45:
            b = bytearray(fam_base)
            for _ in range(rng.randint(0, 3)):
                p = rng.randrange(len(b) + 1)
                m = min(rng.choice([1, 5, 130]), fresh)
                fresh -= m
                if m:
                    b[p:p] = rng.randbytes(m)
                elif len(b) > 10:
                    del b[p:p + rng.randint(1, 4)]
            if rng.random() < 0.5:
                fam_base = bytes(b)                            # chains: the next member derives from this one
            objs.append((3, bytes(b)))
        elif k < 0.78:
            sz = rng.choice(sizes)
            if sz <= 300:
                objs.append((3, rng.randbytes(sz) if rng.random() < 0.6 else bytes(rng.choice(b"ab\n") for _ in range(sz))))
            else:
                objs.append((3, pool[:sz - 1] + bytes([rng.randrange(256)])))
        elif k < 0.84:
            objs.append((3, b""))
        elif k < 0.88 and objs and dups:
            objs.append(rng.choice(objs))                      # duplicated content (same object again)
        else:
            objs.append(_structured_object(rng, objs))
    return objs


def _structured_object(rng, objs):
    """A syntactically valid tree / commit / tag."""
    blob_ids = [obj_name(t, d) for t, d in objs if t == 3] or [obj_name(3, b"")]
    kind = rng.choice([1, 2, 2, 4])
    if kind == 2:
        names = sorted({b"f%d" % rng.randrange(100) for _ in range(rng.randint(0, 6))})
        return 2, b"".join(b"100644 " + nm + b"\0" + rng.choice(blob_ids) for nm in names)
    tree = obj_name(2, b"").hex().encode()
    who = b"A U Thor <a@example.com> %d +0000" % rng.randrange(10 ** 9)
    if kind == 1:
        return 1, b"tree " + tree + b"\nauthor " + who + b"\ncommitter " + who + b"\n\nmessage %d\n" % rng.randrange(1000) * rng.randint(1, 20)
    return 4, b"object " + tree + b"\ntype tree\ntag v%d\ntagger " % rng.randrange(100) + who + b"\n\ntag message\n"


def gen_pack_opts(rng):
    return {
        "path": rng.choice(["objects"] * 6 + ["records"] * 7 + ["reuse"] * 4 + ["reuse-comp"]),
        "deltify": rng.random() < 0.6,
        "window": rng.choice([None, 0, 1, 10]),
        "level": rng.choice([-1, -1, 0, 1, 6, 9]),
        "version": rng.choice([1, 2, 2, 3]),
        "cache": rng.choice([None, None, 1, 300]),
        "sub": rng.randrange(1 << 30),
        "chunked": rng.random() < 0.3,
    }


def _shafile(ty, data):
    from dulwich.objects import ShaFile
    return ShaFile.from_raw_string(ty, data)


def build_records(objs, opts, scratch: Path):
    """The UnpackedObject list handed to write_pack_data, produced by the real code path named in opts."""
    import random
    import shutil
    import dulwich.pack as P
    from dulwich.object_format import SHA1
    sub = random.Random(opts["sub"])
    sf = [_shafile(t, d) for t, d in objs]
    path = opts["path"]
    if path == "objects":
        _, it = P.pack_objects_to_data(sf, deltify=opts["deltify"], delta_window_size=opts["window"])
        return list(it)
    if path == "aligned":
        # objs = [(3, payload)] (full) or [(3, base), (3, base ++ new)] (hand-made delta on the base)
        if opts.get("akind") == "delta":
            (t0, b0), (t1, d1) = objs
            return [P.UnpackedObject(t0, sha=obj_name(t0, b0), decomp_chunks=[b0]),
                    P.UnpackedObject(t1, sha=obj_name(t1, d1), delta_base=obj_name(t0, b0),
                                     decomp_chunks=[handmade_delta(b0, d1)])]
        return [P.UnpackedObject(t, sha=obj_name(t, d), decomp_chunks=[d]) for t, d in objs]
    if path == "records":
        # hand-made delta forest in an arbitrary pack order (bases may come after their deltas => REF_DELTA)
        uniq = list({obj_name(t, d): (t, d) for t, d in objs}.items())
        rank = list(range(len(uniq)))
        sub.shuffle(rank)
        recs = []
        for i, (nm, (t, d)) in enumerate(uniq):
            cands = [j for j in range(len(uniq)) if rank[j] < rank[i] and uniq[j][1][0] == t and len(uniq[j][1][1]) > 0]
            if cands and len(d) > 0 and opts["deltify"] and sub.random() < 0.7:
                j = sub.choice(cands)
                delta = b"".join(P.create_delta(uniq[j][1][1], d))
                recs.append(P.UnpackedObject(t, sha=nm, delta_base=uniq[j][0], decomp_chunks=[delta]))
            else:
                chunks = [d]
                if opts["chunked"] and len(d) > 2:
                    c = sub.randrange(1, len(d))
                    chunks = [d[:c], b"", d[c:]]
                recs.append(P.UnpackedObject(t, sha=nm, decomp_chunks=chunks))
        sub.shuffle(recs)
        # duplicates of the input list are written as duplicate records, like write_pack_objects would
        for t, d in objs[len(uniq):][:0]:
            pass
        return recs
    # reuse: a deltified pack inside a disk object store, then generate_unpacked_objects(reuse_deltas=True)
    from dulwich.object_store import DiskObjectStore
    sd = scratch / f"store-{opts['sub']}"
    (sd / "pack").mkdir(parents=True, exist_ok=True)
    (sd / "info").mkdir(exist_ok=True)
    uniq = list({o.id: o for o in sf}.values())
    base = str(sd / "pack" / "pack-src")
    with open(base + ".pack", "wb") as f:
        entries, cs = P.write_pack_objects(f.write, uniq, object_format=SHA1, deltify=True)
    with open(base + ".idx", "wb") as f:
        P.write_pack_index(f, sorted((k, v[0], v[1]) for k, v in entries.items()), cs)
    if path == "reuse-comp":
        src = P.Pack(base, object_format=SHA1)
        try:
            return list(src.iter_unpacked_subset([o.id for o in uniq], include_comp=True, convert_ofs_delta=True))
        finally:
            src.close()
            shutil.rmtree(sd, ignore_errors=True)
    store = DiskObjectStore(str(sd))
    try:
        ids = [(o.id, None) for o in sf]
        # the public entry point on the same (possibly duplicate-bearing) id list: must not raise, and must count
        # what it writes
        import io
        wb = io.BytesIO()
        try:
            went, _ = P.write_pack_from_container(wb.write, store, ids, SHA1, reuse_deltas=True, deltify=opts["deltify"],
                                                  delta_window_size=opts["window"], compression_level=opts["level"])
            opts["_wpfc"] = (wb.getvalue(), {bytes(k) for k in went})
        except Exception as e:  # noqa: BLE001 - reported by the caller
            opts["_wpfc"] = f"{type(e).__name__}: {str(e)[:120]}"
        return list(P.generate_unpacked_objects(store, ids, reuse_deltas=True, deltify=opts["deltify"],
                                                delta_window_size=opts["window"]))
    finally:
        store.close()
        shutil.rmtree(sd, ignore_errors=True)


# ---- entries whose zlib stream ends exactly on (or one byte around) a multiple of the reader's slice size

ZSLICE = 65536          # value of dulwich.pack._ZLIB_BUFSIZE, checked against the source by translate()


def _enc_varint(n: int) -> bytes:
    out = bytearray()
    while True:
        c = n & 0x7F
        n >>= 7
        if n:
            out.append(c | 0x80)
        else:
            out.append(c)
            return bytes(out)


def handmade_delta(base: bytes, target: bytes) -> bytes:
    """A valid delta for `target = base ++ new`: one copy of the whole (< 64 KiB) base, the rest as literals."""
    assert target.startswith(base) and 0 < len(base) < 0x10000 and len(base) < 256 * 256
    out = bytearray(_enc_varint(len(base)) + _enc_varint(len(target)))
    ln = len(base)
    cmd, args = 0x80, bytearray()
    for i in range(2):
        b = (ln >> (8 * i)) & 0xFF
        if b:
            cmd |= 1 << (4 + i)
            args.append(b)
    out.append(cmd)
    out += args
    new = target[len(base):]
    for i in range(0, len(new), 127):
        ch = new[i:i + 127]
        out.append(len(ch))
        out += ch
    return bytes(out)


def _clen(payload: bytes, level: int) -> int:
    return len(compress_chunks([payload], level))      # exactly how pack_object_chunks compresses


def _near(L: int) -> str:
    k = (L + ZSLICE // 2) // ZSLICE
    return f"{k}x{ZSLICE}{L - k * ZSLICE:+d}"


def find_aligned(rng, target: int, level: int, kind: str):
    """Objects [(3, content)...] such that the entry of the last one (a full blob, or a delta on the first) has a
    zlib stream of exactly `target` bytes at `level`.  Searches the payload size; None if this seed cannot hit it."""
    for _attempt in range(4):
        R = rng.randbytes(target + 400)
        base = rng.randbytes(64)
        if kind == "full":
            def make(n):
                return [(3, R[:n])], R[:n]
        else:
            def make(n):
                t = base + R[:n]
                return [(3, base), (3, t)], handmade_delta(base, t)
        lo, hi = 1, target + 300
        while lo < hi:                                     # smallest n with clen >= target (clen is near-monotone)
            mid = (lo + hi) // 2
            if _clen(make(mid)[1], level) >= target:
                hi = mid
            else:
                lo = mid + 1
        for n in sorted(range(max(1, lo - 40), lo + 40), key=lambda x: abs(x - lo)):
            objs, payload = make(n)
            if _clen(payload, level) == target:
                return objs
    return None


def entry_layout(pack: bytes, offsets):
    """[(offset, stream start, next offset)] computed from the bytes: header varint, OFS distance / REF name."""
    offs = sorted(offsets)
    out = []
    for i, off in enumerate(offs):
        nxt = offs[i + 1] if i + 1 < len(offs) else len(pack) - 20
        p = off
        ty = (pack[p] >> 4) & 7
        while pack[p] & 0x80:
            p += 1
        p += 1
        if ty == 6:
            while pack[p] & 0x80:
                p += 1
            p += 1
        elif ty == 7:
            p += 20
        out.append((off, p, nxt))
    return out


def index_paths_oracle(ctx, stream, case, base: str, pack: bytes, offsets, want, heavy: bool, git: bool):
    """Every way dulwich COMPUTES an index from pack data must record, per entry, the CRC-32 of exactly the bytes
    between consecutive offsets; include_comp chunks must be exactly the compressed bytes; every reader slice size
    (also ones that end exactly with the stream) must give the same CRC, chunks and end offset."""
    import binascii
    import hashlib
    import io
    import shutil
    import warnings
    import dulwich.pack as P
    from dulwich.object_format import SHA1
    lay = entry_layout(pack, list(offsets.values()))
    rng_crc = {off: binascii.crc32(pack[off:nxt]) & 0xFFFFFFFF for off, _, nxt in lay}
    ok = True

    def bad(what, extra=None):
        nonlocal ok
        ok = False
        ctx.oracle_fail(stream, dict(case, **(extra or {})), what)

    def check_entries(label, ents, with_crc=True):
        got = {(bytes(a)): (b, c) for a, b, c in ents}
        if {k: v[0] for k, v in got.items()} != {nm: off for nm, off in zip_names.items()}:
            bad(f"{label}: names/offsets of the computed index differ from the pack")
            return
        if with_crc:
            for nm, (off, crc) in got.items():
                if crc != rng_crc[off]:
                    s0, s1 = [(a, b) for o, a, b in lay if o == off][0]
                    bad(f"{label}: CRC recorded for the entry at offset {off} is {crc:#010x}; the CRC-32 of pack[{off}:{s1}] is "
                        f"{rng_crc[off]:#010x} (zlib stream of {s1 - s0} bytes = {(s1 - s0) // ZSLICE}*{ZSLICE}+{(s1 - s0) % ZSLICE})")
                    return

    zip_names = {nm: off for nm, off in offsets.items()}
    with warnings.catch_warnings():
        warnings.simplefilter("ignore")
        try:
            pd = P.PackData(base + ".pack", SHA1)
            try:
                check_entries("PackData.iterentries (PackIndexer)", list(pd.iterentries()))
                # include_comp: the reused chunks are exactly the compressed bytes
                for u, (off, s0, s1) in zip(pd.iter_unpacked(include_comp=True), lay):
                    if u.offset != off or b"".join(u.comp_chunks) != pack[s0:s1]:
                        bad(f"iter_unpacked(include_comp=True): comp_chunks of the entry at {off} are {len(b''.join(u.comp_chunks))} bytes, "
                            f"the zlib stream pack[{s0}:{s1}] has {s1 - s0}")
                        break
                versions = (1, 2, 3) if heavy else (2,)
                for v in versions:
                    ip = f"{base}.computed-v{v}.idx"
                    pd.create_index(ip, version=v)
                    with open(ip, "rb") as f:
                        ib = f.read()
                    ix = _load_idx(ib, 20)
                    try:
                        check_entries(f"PackData.create_index_v{v}", list(ix.iterentries()), with_crc=(v != 1))
                    finally:
                        ix.close()
                    if v == 2 and git and ok:
                        gd = ctx.scratch / f"gitc-{ctx.evaluations}"
                        _git(["init", "-q", "--bare", str(gd)], ctx.scratch)
                        pk = gd / "objects" / "pack"
                        pk.mkdir(parents=True, exist_ok=True)
                        name = "pack-" + pack[-20:].hex()
                        (pk / (name + ".pack")).write_bytes(pack)
                        (pk / (name + ".idx")).write_bytes(ib)
                        for cmd in (["verify-pack", "-v", str(pk / (name + ".idx"))], ["index-pack", "--verify", str(pk / (name + ".pack"))]):
                            rc, out, err = _git(cmd, gd)
                            if rc != 0:
                                bad(f"git {cmd[0]} {cmd[1]} rejects the index dulwich computed for its own pack: {err.decode(errors='replace')[:160]}")
                                break
                        shutil.rmtree(gd, ignore_errors=True)
                    Path(ip).unlink()
            finally:
                pd.close()
            if heavy:
                from dulwich.object_store import DiskObjectStore
                sd = ctx.scratch / f"addpack-{ctx.evaluations}"
                sd.mkdir()
                store = DiskObjectStore.init(str(sd))
                try:
                    f, commit, abort = store.add_pack()
                    f.write(pack)
                    np_ = commit()
                    if np_ is None:
                        if offsets:
                            bad("add_pack().commit() installed nothing")
                    else:
                        check_entries("add_pack().commit() (index written on ingestion)", list(np_.index.iterentries()))
                finally:
                    store.close()
                    shutil.rmtree(sd, ignore_errors=True)
        except Exception as e:  # noqa: BLE001
            bad(f"computing an index from the pack data failed: {type(e).__name__}: {str(e)[:150]}")
    # every slice size, in particular the ones that end exactly with the stream, for both readers
    lines, meta = [], []
    for off, s0, s1 in lay[: (12 if heavy else 5)]:
        L = s1 - s0
        sizes = {L, L + 1, max(1, L - 1), max(1, L // 2), ZSLICE}
        if L % 3 == 0:
            sizes.add(max(1, L // 3))
        if L <= 400:
            sizes.add(1)
        for B in sorted(sizes):
            ctx.count(stream + ".slices", (pack[-20:], off, B), True, "aligned" if L % B == 0 else "unaligned")
            try:
                u, end = P.unpack_object_at(pack, off, hashlib.sha1, compute_crc32=True, include_comp=True, zlib_bufsize=B)
                got = (end, u.crc32, b"".join(u.comp_chunks))
            except Exception as e:  # noqa: BLE001
                got = f"{type(e).__name__}: {e}"
            if got != (s1, rng_crc[off], pack[s0:s1]):
                bad(f"unpack_object_at with {B}-byte slices on a {L}-byte zlib stream: end/CRC/comp_chunks = "
                    f"{got if isinstance(got, str) else (got[0], hex(got[1]), len(got[2]))}; want ({s1}, {rng_crc[off]:#x}, {L})", {"slice": B, "offset": off})
                break
            if L <= 3000:
                lines.append(f"c02.zat {B} {L} {hx(pack[s0:s0 + L + 40])}")
                meta.append((off, B, L, f"ok {hx(pack[s0:s1])} {L}"))
            try:
                f = io.BytesIO(pack)
                f.seek(off)
                u, unused = P.unpack_object(f.read, hashlib.sha1, read_some=f.read, compute_crc32=True, include_comp=True, zlib_bufsize=B)
                got = (f.tell() - len(unused), u.crc32, b"".join(u.comp_chunks))
            except Exception as e:  # noqa: BLE001
                got = f"{type(e).__name__}: {e}"
            if L <= 3000 and not isinstance(got, str):
                nch = (L // B) + 1
                lines.append(f"c02.zstream {L}" + "".join(" " + hx(pack[s0 + i * B: s0 + (i + 1) * B]) for i in range(nch)))
                meta.append((off, B, L, f"ok {hx(got[2])} {hx(bytes(unused))}"))
            if got != (s1, rng_crc[off], pack[s0:s1]):
                bad(f"unpack_object (streaming) with {B}-byte reads on a {L}-byte zlib stream: end/CRC/comp_chunks = "
                    f"{got if isinstance(got, str) else (got[0], hex(got[1]), len(got[2]))}; want ({s1}, {rng_crc[off]:#x}, {L})", {"slice": B, "offset": off})
                break
    if lines:
        outs = ctx.driver.batch(lines)
        for (off, B, L, wantline), o in zip(meta, outs):
            if o != wantline:
                ctx.disagree(stream + ".slices.model", dict(case, slice=B, offset=off, stream_len=L), o[:120], wantline[:120])
    return ok


def expected_mapping(objs):
    return {obj_name(t, d): (t, d) for t, d in objs}


def _fail(ctx, stream, case, what, cls=None):
    ctx.oracle_fail(stream, case, what, cls)
    return False


def pack_case(ctx, stream, objs, opts, workers=None, model=True, git=False):
    """One object set x option vector through the real writer, the real readers, the model and (sampled) C git."""
    import binascii
    import hashlib
    import io
    import warnings
    import dulwich.pack as P
    from dulwich.object_format import SHA1
    rng = ctx.rng
    opts = {k: v for k, v in opts.items() if not k.startswith("_")}
    case = {"kind": "pack", "opts": dict(opts), "objs": [[t, hx(d)] for t, d in objs]}
    want = expected_mapping(objs)
    has_dups = len(want) != len(objs)
    tag = f"{opts['path']}:{'delta' if opts['deltify'] else 'full'}:v{opts['version']}:n{min(len(objs), 9)}{'+' if len(objs) > 9 else ''}"
    ctx.count(stream, (tuple(objs), tuple(sorted(opts.items(), key=str))), True, tag)
    # ---------------- write with the real code
    try:
        recs = build_records(objs, opts, ctx.scratch)
        buf = io.BytesIO()
        entries, cs = P.write_pack_data(buf.write, iter(recs), num_records=len(recs), compression_level=opts["level"],
                                        object_format=SHA1)
        pack = buf.getvalue()
        ies = sorted((k, v[0], v[1]) for k, v in entries.items())
        ibuf = io.BytesIO()
        P.write_pack_index(ibuf, ies, cs, version=opts["version"])
        idxb = ibuf.getvalue()
    except Exception as e:
        return _fail(ctx, stream, case, f"writing the pack/index failed: {type(e).__name__}: {e}")
    wp = opts.pop("_wpfc", None)
    if wp is not None:
        if isinstance(wp, str):
            return _fail(ctx, stream, case, f"write_pack_from_container failed on this id list: {wp}",
                         "duplicate-input-objects" if len(want) != len(objs) else None)
        wbytes, wnames = wp
        if int.from_bytes(wbytes[8:12], "big") != len(want) or wnames != set(want) \
                or hashlib.sha1(wbytes[:-20]).digest() != wbytes[-20:]:
            return _fail(ctx, stream, case, f"write_pack_from_container wrote a pack header counting {int.from_bytes(wbytes[8:12], 'big')} "
                         f"records and {len(wnames)} entries for {len(want)} distinct objects",
                         "duplicate-input-objects" if len(want) != len(objs) else None)
    kinds = {"full": 0, "ofs": 0, "ref": 0}
    comp_reused = any(r.comp_chunks is not None for r in recs)
    dup_recs = len({bytes(r.sha()) for r in recs}) != len(recs)
    if opts["path"] == "objects":
        # the public entry point must give the same bytes as the two steps it is made of
        b2 = io.BytesIO()
        try:
            P.write_pack_objects(b2.write, [_shafile(t, d) for t, d in objs], object_format=SHA1, deltify=opts["deltify"],
                                 delta_window_size=opts["window"], compression_level=opts["level"])
            if opts["window"] is None and b2.getvalue() != pack:
                ctx.disagree(stream + ".entrypoints", case, "write_pack_objects bytes", "pack_objects_to_data + write_pack_data bytes")
        except Exception as e:
            return _fail(ctx, stream, case, f"write_pack_objects failed: {type(e).__name__}: {e}")
    # ---------------- internal consistency, straight from the bytes
    ok = True
    if hashlib.sha1(pack[:-20]).digest() != pack[-20:] or cs != pack[-20:]:
        ok = _fail(ctx, stream, case, "pack trailer is not the SHA-1 of the preceding bytes / not the returned checksum")
    offs = sorted(v[0] for v in entries.values())
    if not dup_recs:
        for nm, (off, crc) in entries.items():
            nxt = min([o for o in offs if o > off] + [len(pack) - 20])
            if binascii.crc32(pack[off:nxt]) & 0xFFFFFFFF != crc:
                ok = _fail(ctx, stream, case, f"CRC-32 recorded for {nm.hex()} is not the CRC of pack[{off}:{nxt}]")
                break
    # ---------------- read back with the real code
    base = str(ctx.scratch / f"p{ctx.evaluations}")
    Path(base + ".pack").write_bytes(pack)
    Path(base + ".idx").write_bytes(idxb)
    phantom = phantom_name(opts["version"], 20, len(ies), idxb)
    absent = [a for a in (rng.randbytes(20), phantom, b"\xff" * 20) if a not in want]
    cls = None
    if comp_reused:
        cls = "records-with-comp-chunks"
    elif has_dups or dup_recs:
        cls = "duplicate-input-objects"
    names = list(want)
    order = names * 2
    rng.shuffle(order)
    got_raw = {}
    abs_raw = {}
    with warnings.catch_warnings():
        warnings.simplefilter("ignore")
        kw = {"delta_base_cache_limit": opts["cache"]} if opts["cache"] else {}
        p = P.Pack(base, object_format=SHA1, **kw)
        try:
            try:
                n_idx = len(p)
                # random access, every object twice in random order (cache must not leak another object's data)
                for nm in order:
                    ty, data = p.get_raw(nm)
                    got_raw[nm] = (ty, data)
                    if (ty, data) != want[nm]:
                        ok = _fail(ctx, stream, case, f"random access to {nm.hex()} gives type {ty}, {len(data)} bytes; wrote type {want[nm][0]}, {len(want[nm][1])} bytes", cls)
                        break
                for nm in names[:5]:
                    o = p[nm.hex().encode()]
                    if (o.type_num, o.as_raw_string()) != want[nm] or (nm.hex().encode() in p) is not True:
                        ok = _fail(ctx, stream, case, f"Pack[...] / `in` disagree with what was written for {nm.hex()}", cls)
                if n_idx != len(want):
                    ok = _fail(ctx, stream, case, f"index has {n_idx} entries for {len(want)} distinct objects", cls)
                for a in absent:
                    try:
                        found = a in p
                    except Exception as e:
                        found = False
                        _fail(ctx, stream + ".absent", dict(case, probe=hx(a)),
                              f"`name in pack` raises {type(e).__name__} for {a.hex()}, which was never written",
                              "phantom-name-after-table" if a == phantom else cls)
                        ok = ok and a == phantom
                    try:
                        ty, data = p.get_raw(a)
                        abs_raw[a] = f"ok:{ty}:{hx(data)}"
                    except Exception as e:
                        abs_raw[a] = real_err(e)
                    if found:
                        _fail(ctx, stream + ".absent", dict(case, probe=hx(a)),
                              f"`name in pack` is True for {a.hex()}, which was never written",
                              "phantom-name-after-table" if a == phantom else cls)
                        ok = ok and a == phantom
                # sequential iteration
                seq = {}
                cnt = 0
                for o in p.iterobjects():
                    seq[bytes.fromhex(o.id.decode())] = (o.type_num, o.as_raw_string())
                    cnt += 1
                if seq != want or cnt != len(recs):
                    ok = _fail(ctx, stream, case, f"iterobjects() yields {cnt} objects / {len(seq)} names; wrote {len(recs)} records for {len(want)} objects "
                               f"(missing {len(set(want) - set(seq))}, extra {len(set(seq) - set(want))}, differing {sum(1 for k in seq if k in want and seq[k] != want[k])})", cls)
                p.check()
                # index entries vs entries recomputed from the pack data (offsets, per-object CRCs)
                re_ = [(bytes(a), b, c) for a, b, c in p.data.sorted_entries()]
                ie = [(bytes(a), b, c) for a, b, c in p.index.iterentries()]
                if opts["version"] == 1:
                    re_ = [(a, b, None) for a, b, c in re_]
                if re_ != ie or [(a, b) for a, b, _ in ie] != [(a, b) for a, b, _ in ies]:
                    ok = _fail(ctx, stream, case, "index entries (name, offset, crc) differ from the entries recomputed from the pack data", cls)
                for u in p.data.iter_unpacked():
                    kinds["ofs" if u.pack_type_num == 6 else "ref" if u.pack_type_num == 7 else "full"] += 1
            except Exception as e:
                c2 = cls
                if cls == "duplicate-input-objects" and "Length mismatch" not in str(e):
                    c2 = None                       # a duplicate-bearing input failing in some *other* way is news
                ok = _fail(ctx, stream, case, f"reading back what dulwich wrote failed: {type(e).__name__}: {str(e)[:150]}", c2)
        finally:
            p.close()
    d = ctx.hist.setdefault(stream + ".entry-kinds", {})
    for k, v in kinds.items():
        d[k] = d.get(k, 0) + v
    if not ok:
        _rm_pack_files(base)
        return ok
    # ---------------- every index-producing path, every reader slice size
    heavy = opts["path"] == "aligned" or ctx.evaluations % 4 == 0
    if not index_paths_oracle(ctx, stream + ".index-paths", case, base, pack, {k: v[0] for k, v in entries.items()}, want,
                              heavy=heavy, git=(git or opts["path"] == "aligned")):
        _rm_pack_files(base)
        return False
    if opts["path"] == "aligned":
        lay = entry_layout(pack, [v[0] for v in entries.values()])
        L = lay[-1][2] - lay[-1][1]
        d = ctx.hist.setdefault(stream + ".aligned-streams", {})
        key = f"{opts.get('akind')}:level{opts['level']}:{_near(L)}"
        d[key] = d.get(key, 0) + 1
    # ---------------- streaming reader under a random chunking of the same bytes
    try:
        f = io.BytesIO(pack)
        k = rng.choice([1, 2, 7, 19, 20, 21, 64, 4096])
        rd = P.PackStreamReader(hashlib.sha1, f.read, lambda n: f.read(max(1, min(n, rng.randint(1, k)))))
        so = [(u.offset, u.crc32) for u in rd.read_objects(compute_crc32=True)]
        if sorted(so) != sorted((v[0], v[1]) for v in entries.values()):
            ok = _fail(ctx, stream + ".stream", dict(case, chunk=k), "PackStreamReader offsets/CRCs differ from the writer's entries")
    except Exception as e:
        ok = _fail(ctx, stream + ".stream", dict(case, chunk=k), f"PackStreamReader fails on a pack dulwich wrote (recv chunks <= {k}): {type(e).__name__}: {str(e)[:100]}")
    # ---------------- pure-Python variant (Python bisect / apply_delta)
    if workers and "py" in workers and names:
        some = rng.sample(names, min(6, len(names))) + absent[:1]
        rep = workers["py"].ask({"mod": MOD, "op": "pack_getraw", "args": {"base": base, "names": [hx(x) for x in some]}}, timeout=120)
        exp = [f"ok:{want[x][0]}:{hx(want[x][1])}" if x in want else "err:key" for x in some]
        if rep.get("r") != exp:
            bad = [(hx(x), str(a)[:60]) for x, a, b in zip(some, rep.get("r") or [str(rep)] * len(some), exp) if a != b]
            c2 = "phantom-name-after-table" if bad and bad[0][0] == hx(phantom) and len(bad) == 1 else None
            ok = _fail(ctx, stream + ".py", dict(case, probes=bad[:3]), f"pure-Python random access differs from what was written: {bad[:2]}", c2)
    # ---------------- model
    if model:
        _pack_model(ctx, stream, case, recs, opts, pack, entries, idxb, names, absent, got_raw, abs_raw)
    if git:
        _git_reads_dulwich(ctx, stream + ".git", case, base, pack, idxb, opts, want, ies)
    _rm_pack_files(base)
    return ok


def _rm_pack_files(base: str):
    for ext in (".pack", ".idx"):
        try:
            Path(base + ext).unlink()
        except OSError:
            pass


def _pack_model(ctx, stream, case, recs, opts, pack, entries, idxb, names, absent, got_raw, abs_raw):
    import binascii
    import dulwich.pack as P
    from dulwich.object_format import SHA1
    import hashlib
    lines = []
    # writer: same records, zlib output supplied per record
    args = []
    for r in recs:
        data = b"".join(r.decomp_chunks)
        comp = b"".join(r.comp_chunks) if r.comp_chunks is not None else compress_chunks(r.decomp_chunks, opts["level"])
        args.append(f"{hx(bytes(r.sha()))}:{r.pack_type_num}:{hx(r.delta_base) if r.delta_base is not None else '-'}:{hx(data)}:{hx(comp)}")
    lines.append("c02.packwrite" + "".join(" " + a for a in args))
    zt = ztable(pack)
    lines.append(f"c02.packparse 20 {hx(pack)} {ztable_arg(zt)}")
    probe = names + absent
    lines.append(f"c02.getraw 20 {hx(pack)} {ztable_arg(zt)} {hx(idxb)}" + "".join(" " + hx(x) for x in probe))
    w, pp, gr = ctx.driver.batch(lines)
    wt = w.split(" ")
    body = unhx(wt[0])
    if body + hashlib.sha1(body).digest() != pack:
        ctx.disagree(stream + ".write.model", case, f"{len(body) + 20} bytes: {hx(body)[:120]}…", f"{len(pack)} bytes: {hx(pack)[:120]}…")
    else:
        me = {}
        for t in wt[1:]:
            nm, off, ln = t.split(":")
            me[unhx(nm)] = (int(off), binascii.crc32(body[int(off):int(off) + int(ln)]) & 0xFFFFFFFF)
        if me != {bytes(k): v for k, v in entries.items()}:
            ctx.disagree(stream + ".write.model", case, "entries " + str(sorted(me.values()))[:150], "entries " + str(sorted(entries.values()))[:150])
    # sequential parse
    import io
    real = ["ok"]
    try:
        pd = P.PackData("mem.pack", SHA1, file=io.BytesIO(pack))
        try:
            for u in pd.iter_unpacked():
                b = u.delta_base
                bs = "-" if b is None else (f"o{b}" if isinstance(b, int) else "r" + hx(bytes(b)))
                real.append(f"{u.offset}:{u.pack_type_num}:{bs}:{hx(b''.join(u.decomp_chunks))}")
        finally:
            pd.close()
        real = " ".join(real)
    except Exception as e:
        real = real_err(e)
    if pp != real:
        ctx.disagree(stream + ".parse.model", case, pp[:200], real[:200])
    exp = [f"ok:{got_raw[x][0]}:{hx(got_raw[x][1])}" if x in got_raw else abs_raw.get(x, "err:key") for x in probe]
    if gr.split(" ") != exp:
        bad = [(hx(x), a[:60], b[:60]) for x, a, b in zip(probe, gr.split(" "), exp) if a != b]
        ctx.disagree(stream + ".getraw.model", dict(case, probes=[b[0] for b in bad[:3]]), [b[1] for b in bad[:3]], [b[2] for b in bad[:3]])


# ------------------------------------------------------------------------------------------------
# C git as third party

GIT_TYPES = {b"commit": 1, b"tree": 2, b"blob": 3, b"tag": 4}


def _git(args, cwd, inp=None, timeout=120):
    import subprocess
    p = subprocess.run(["git"] + args, cwd=cwd, input=inp, stdout=subprocess.PIPE, stderr=subprocess.PIPE,
                       env=core.clean_env(), timeout=timeout)
    return p.returncode, p.stdout, p.stderr


def _batch_all(repo: Path):
    """{name: (type_num, content)} of every object git sees in the repository."""
    rc, out, err = _git(["cat-file", "--batch", "--batch-all-objects", "--unordered"], repo)
    if rc != 0:
        return None, err.decode(errors="replace")
    got, i = {}, 0
    while i < len(out):
        j = out.index(b"\n", i)
        nm, ty, sz = out[i:j].split(b" ")
        sz = int(sz)
        got[bytes.fromhex(nm.decode())] = (GIT_TYPES[ty], out[j + 1:j + 1 + sz])
        i = j + 1 + sz + 1
    return got, ""


def _git_reads_dulwich(ctx, stream, case, base, pack, idxb, opts, want, ies):
    """`git index-pack --strict` accepts the pack and builds the same index; `git verify-pack -v` and
    `git cat-file --batch-all-objects` on dulwich's pack + dulwich's index give back the same mapping."""
    import shutil
    gd = ctx.scratch / f"git-{ctx.evaluations}"
    rc, _, err = _git(["init", "-q", "--bare", str(gd)], ctx.scratch)
    if rc != 0:
        raise core.InfraError("git init failed: " + err.decode(errors="replace"))
    pk = gd / "objects" / "pack"
    pk.mkdir(parents=True, exist_ok=True)
    name = "pack-" + pack[-20:].hex()
    (pk / (name + ".pack")).write_bytes(pack)
    ctx.count(stream, (pack, opts["version"]), True, f"v{opts['version']}")
    try:
        rc, out, err = _git(["index-pack", "--strict", "-o", str(gd / "git.idx"), str(pk / (name + ".pack"))], gd)
        if rc != 0:
            # --strict also checks object syntax and connectivity of the objects *in* the pack; blobs named by our
            # synthetic trees need not be present, which git reports differently ("did not receive expected object")
            msg = err.decode(errors="replace")
            if "did not receive expected object" in msg:
                rc, out, err = _git(["index-pack", "-o", str(gd / "git.idx"), str(pk / (name + ".pack"))], gd)
                key = "strict-relaxed: " + msg.strip().splitlines()[-1][:60]
                ctx.hist.setdefault(stream, {})
                ctx.hist[stream][key] = ctx.hist[stream].get(key, 0) + 1
        if rc != 0:
            ctx.oracle_fail(stream, case, f"git index-pack rejects a pack dulwich wrote: {err.decode(errors='replace')[:200]}")
            return
        gidx = (gd / "git.idx").read_bytes()
        if opts["version"] == 2 and gidx != idxb:
            ctx.oracle_fail(stream, case, "the v2 index dulwich wrote differs from the index git index-pack builds for the same pack")
        # dulwich's own index next to the pack (git 2.39 reads v1 and v2)
        (pk / (name + ".idx")).write_bytes(idxb if opts["version"] in (1, 2) else gidx)
        rc, out, err = _git(["verify-pack", "-v", str(pk / (name + ".idx"))], gd)
        if rc != 0:
            ctx.oracle_fail(stream, case, f"git verify-pack fails on dulwich's pack + index: {err.decode(errors='replace')[:200]}")
            return
        listing = {}
        for ln in out.split(b"\n"):
            f = ln.split()
            if len(f) >= 5 and len(f[0]) == 40 and f[1] in GIT_TYPES:
                listing[bytes.fromhex(f[0].decode())] = (GIT_TYPES[f[1]], int(f[2]), int(f[4]))
        exp = {nm: (want[nm][0], len(want[nm][1]), off) for nm, off, _ in ies}
        if {k: (v[0], v[2]) for k, v in listing.items()} != {k: (v[0], v[2]) for k, v in exp.items()}:
            ctx.oracle_fail(stream, case, f"git verify-pack lists different (name, type, offset) than dulwich's index: {len(listing)} vs {len(exp)} objects")
        got, err = _batch_all(gd)
        if got is None:
            ctx.oracle_fail(stream, case, f"git cat-file fails on dulwich's pack + index: {err[:200]}")
        elif got != want:
            ctx.oracle_fail(stream, case, f"git reads a different mapping from dulwich's pack + index ({len(got)} objects, wrote {len(want)})")
    finally:
        shutil.rmtree(gd, ignore_errors=True)


def gen_git_history(rng, depth_bias=True):
    """Objects for `git pack-objects`: sliding-window series of blobs (each version drops a line in front and gains one
    at the end, sizes strictly decreasing so that git's size-sorted delta search walks the series in order): with
    --threads=1 the chain grows by one per version until --depth stops it."""
    objs = []
    for _ in range(rng.choice([1, 1, 2])):
        w = rng.choice([20, 60])
        n = rng.choice([5, 30, 60, 75])
        lines = [rng.randbytes(30).hex().encode() + b"\n" for _ in range(n + w)]
        for i in range(n):
            objs.append((3, b"".join(lines[i:i + w]) + b"x" * (n - i)))
    for sz in rng.sample([0, 15, 16, 127, 128, 2047, 2048, 65535, 65536], 3):
        objs.append((3, (rng.randbytes(50) * (sz // 50 + 1))[:sz]))
    for _ in range(3):
        objs.append(_structured_object(rng, objs))
    return objs


def git_pack_case(ctx, stream, objs, gopts):
    """dulwich reads what `git pack-objects` writes (deep chains, OFS or REF deltas)."""
    import shutil
    import warnings
    import dulwich.pack as P
    from dulwich.object_format import SHA1
    case = {"kind": "gitpack", "gopts": gopts, "objs": [[t, hx(d)] for t, d in objs]}
    want = expected_mapping(objs)
    gd = ctx.scratch / f"gitw-{ctx.evaluations}"
    rc, _, err = _git(["init", "-q", "--bare", str(gd)], ctx.scratch)
    if rc != 0:
        raise core.InfraError("git init failed: " + err.decode(errors="replace"))
    try:
        for nm, (t, d) in want.items():
            rc, out, err = _git(["hash-object", "-w", "--stdin", "-t", TYPE_NAMES[t].decode(), "--literally"], gd, inp=d)
            if rc != 0 or out.strip().decode() != nm.hex():
                raise core.InfraError(f"git hash-object: {rc} {out!r} {err!r} (want {nm.hex()})")
        args = ["pack-objects", "-q", f"--depth={gopts['depth']}", f"--window={gopts['window']}"]
        if gopts.get("threads"):
            args.append(f"--threads={gopts['threads']}")
        if gopts["ofs"]:
            args.append("--delta-base-offset")
        if gopts.get("idxv"):
            args.append(f"--index-version={gopts['idxv']}")
        rc, out, err = _git(args + [str(gd / "out")], gd, inp=b"".join(n.hex().encode() + b"\n" for n in want))
        if rc != 0:
            raise core.InfraError("git pack-objects failed: " + err.decode(errors="replace"))
        base = str(gd / ("out-" + out.strip().decode()))
        rc, vout, _ = _git(["verify-pack", "-v", base + ".idx"], gd)
        maxdepth = 0
        for ln in vout.split(b"\n"):
            f = ln.split()
            if len(f) == 7 and len(f[0]) == 40:
                maxdepth = max(maxdepth, int(f[5]))
        ctx.count(stream, (tuple(objs), tuple(sorted(gopts.items()))), True,
                  f"{'ofs' if gopts['ofs'] else 'ref'}:idxv{gopts.get('idxv') or 2}:chain{'0' if maxdepth == 0 else '1-9' if maxdepth < 10 else '10-29' if maxdepth < 30 else '30-49' if maxdepth < 50 else '50'}")
        with warnings.catch_warnings():
            warnings.simplefilter("ignore")
            p = P.Pack(base, object_format=SHA1)
            try:
                names = list(want)
                ctx.rng.shuffle(names)
                for nm in names:
                    ty, data = p.get_raw(nm)
                    if (ty, data) != want[nm]:
                        ctx.oracle_fail(stream, case, f"dulwich random access to {nm.hex()} in a git-written pack gives type {ty}, {len(data)} bytes; git stored type {want[nm][0]}, {len(want[nm][1])} bytes")
                        return
                seq = {bytes.fromhex(o.id.decode()): (o.type_num, o.as_raw_string()) for o in p.iterobjects()}
                if seq != want:
                    ctx.oracle_fail(stream, case, "dulwich iterobjects() on a git-written pack gives a different mapping")
                p.check()
                ie = [(bytes(a), b, c) for a, b, c in p.index.iterentries()]
                re_ = [(bytes(a), b, c) for a, b, c in p.data.sorted_entries()]
                if gopts.get("idxv") == 1:
                    re_ = [(a, b, None) for a, b, c in re_]
                if ie != re_:
                    ctx.oracle_fail(stream, case, "entries dulwich recomputes from a git-written pack differ from git's index")
                # and the index dulwich would write for git's pack is git's index
                if (gopts.get("idxv") or 2) == 2:
                    import io
                    b = io.BytesIO()
                    P.write_pack_index_v2(b, re_, p.data.get_stored_checksum())
                    if b.getvalue() != Path(base + ".idx").read_bytes():
                        ctx.oracle_fail(stream, case, "write_pack_index_v2 for a git-written pack differs from git's own .idx")
            except Exception as e:
                ctx.oracle_fail(stream, case, f"dulwich fails on a pack git wrote: {type(e).__name__}: {str(e)[:150]}")
            finally:
                p.close()
    finally:
        shutil.rmtree(gd, ignore_errors=True)


def _stream_packs(ctx, workers):
    rng = ctx.rng
    n = ctx.budget(260)
    ngit = ctx.budget(30, mult=6)
    for i in range(n):
        objs = gen_objects(rng, big_ok=(i % 4 == 0))
        opts = gen_pack_opts(rng)
        pack_case(ctx, "pack", objs, opts, workers=workers, model=True, git=(i < ngit or ctx.thorough and i % 3 == 0))
    # fixed corner cases
    fixed = [([], "objects"), ([(3, b"")], "objects"), ([(3, b"a" * 16), (3, b"a" * 15)], "objects"),
             ([(3, b"x" * 65536), (3, b"x" * 65535 + b"y")], "records"), ([(3, b"x" * 65536), (3, b"x" * 65537)], "objects"),
             ([(2, b"")], "objects")]
    for objs, path in fixed:
        for v in (1, 2, 3):
            opts = {"path": path, "deltify": True, "window": None, "level": -1, "version": v, "cache": None, "sub": 1, "chunked": False}
            pack_case(ctx, "pack", objs, opts, workers=workers, model=True, git=(v == 2))
    _stream_aligned(ctx, workers)
    for i in range(ctx.budget(16, mult=6)):
        objs = gen_git_history(rng)
        gopts = {"depth": rng.choice([50, 50, 50, 10, 1]), "window": rng.choice([10, 10, 50]), "ofs": rng.random() < 0.5,
                 "idxv": rng.choice([None, None, 1]), "threads": rng.choice([1, 1, 1, None])}
        git_pack_case(ctx, "gitpack", objs, gopts)


def aligned_targets(ctx):
    """(k, delta, level, kind): zlib stream length k*65536 + delta."""
    rng = ctx.rng
    allt = [(k, dl, lv, kind) for k in (1, 2) for dl in (0, -1, 1) for lv in (0, 1, -1, 6) for kind in ("full", "delta")]
    must = [(1, 0, 0, "full"), (1, 0, -1, "full"), (1, 0, 0, "delta"), (1, 0, 6, "delta"), (2, 0, 1, "full")]
    if ctx.thorough:
        return allt
    rest = [t for t in allt if t not in must]
    return must + rng.sample(rest, ctx.budget(5))


def _stream_aligned(ctx, workers):
    """Packs (dulwich- and git-written) holding an entry whose zlib stream ends exactly on, or one byte around, a
    multiple of the 64 KiB slice in which read_zlib_chunks_at walks the mapped pack."""
    rng = ctx.rng
    for k, dl, lv, kind in aligned_targets(ctx):
        objs = find_aligned(rng, k * ZSLICE + dl, lv, kind)
        if objs is None:
            ctx.hist.setdefault("pack.aligned-streams", {})
            ctx.hist["pack.aligned-streams"]["search-missed"] = ctx.hist["pack.aligned-streams"].get("search-missed", 0) + 1
            continue
        opts = {"path": "aligned", "akind": kind, "deltify": kind == "delta", "window": None, "level": lv,
                "version": rng.choice([1, 2, 2, 3]), "cache": None, "sub": 0, "chunked": False}
        pack_case(ctx, "pack", objs, opts, workers=workers, model=(k == 1), git=True)
    # git-written: steer the blob size until git's own stream has the wanted length
    for k, dl, lv in [(1, 0, 0), (1, 0, -1)] + ([(2, 0, 1), (1, 1, 0), (1, -1, 6), (2, 0, 0)] if ctx.thorough else [(rng.choice([1, 2]), rng.choice([-1, 0, 1]), rng.choice([0, 1, 6]))]):
        git_aligned_case(ctx, "gitpack.aligned", k * ZSLICE + dl, lv)
    for lv, ofs in [(0, True), (-1, False)] + ([(1, True), (6, False)] if ctx.thorough else []):
        git_aligned_delta_case(ctx, "gitpack.aligned", ZSLICE, lv, ofs)


def git_aligned_delta_case(ctx, stream, target: int, level: int, ofs: bool):
    """Same for a DELTA entry written by git: a big base, and a target sharing half of it plus fresh bytes, so that
    git stores the target as a delta whose zlib stream is steered to exactly `target` bytes."""
    import shutil
    rng = ctx.rng
    B0 = rng.randbytes(150000)
    R = rng.randbytes(target + 2000)
    n = target - 600
    gd = ctx.scratch / f"gitd-{ctx.evaluations}"
    try:
        hit = None
        for _round in range(10):
            shutil.rmtree(gd, ignore_errors=True)
            _git(["init", "-q", "--bare", str(gd)], ctx.scratch)
            tgt = B0[:70000] + R[:n]
            ids = b""
            for blob in (B0, tgt):
                rc, out, err = _git(["hash-object", "-w", "--stdin"], gd, inp=blob)
                ids += out
            cfg = ["-c", f"pack.compression={level}"] if level != -1 else []
            rc, out, err = _git(cfg + ["pack-objects", "-q", "--threads=1"] + (["--delta-base-offset"] if ofs else []) + [str(gd / "out")], gd, inp=ids)
            if rc != 0:
                raise core.InfraError("git pack-objects failed: " + err.decode(errors="replace"))
            base = str(gd / ("out-" + out.strip().decode()))
            pack = Path(base + ".pack").read_bytes()
            ix = _load_idx(Path(base + ".idx").read_bytes(), 20)
            try:
                offs = {bytes(a): b for a, b, c in ix.iterentries()}
            finally:
                ix.close()
            lay = {o: (a, b) for o, a, b in entry_layout(pack, list(offs.values()))}
            toff = offs[obj_name(3, tgt)]
            if (pack[toff] >> 4) & 7 not in (6, 7):
                break                                  # git did not deltify the target: give up on this seed
            L = lay[toff][1] - lay[toff][0]
            if L == target:
                hit = (base, pack, offs, tgt)
                break
            n += target - L
        ctx.count(stream, (target, level, ofs, n), True, f"delta:{'ofs' if ofs else 'ref'}:level{level}:{'hit' if hit else 'missed'}")
        if hit is None:
            return
        base, pack, offs, tgt = hit
        case = {"kind": "gitaligned-delta", "target": target, "level": level, "ofs": ofs}
        index_paths_oracle(ctx, stream, case, base, pack, offs, {obj_name(3, B0): (3, B0), obj_name(3, tgt): (3, tgt)}, heavy=True, git=True)
    finally:
        shutil.rmtree(gd, ignore_errors=True)


def git_aligned_case(ctx, stream, target: int, level: int):
    """A blob (and a delta on a big base) packed by `git -c pack.compression=<level> pack-objects`, sized so that the
    entry's zlib stream is exactly `target` bytes; then every index dulwich computes for git's pack is checked."""
    import shutil
    import dulwich.pack as P
    rng = ctx.rng
    R = rng.randbytes(target + 600)
    n = target - 16
    gd = ctx.scratch / f"gita-{ctx.evaluations}"
    try:
        hit = None
        for _round in range(8):
            shutil.rmtree(gd, ignore_errors=True)
            _git(["init", "-q", "--bare", str(gd)], ctx.scratch)
            blob = R[:n]
            rc, out, err = _git(["hash-object", "-w", "--stdin"], gd, inp=blob)
            cfg = ["-c", f"pack.compression={level}"] if level != -1 else []
            rc, out, err = _git(cfg + ["pack-objects", "-q", str(gd / "out")], gd, inp=out)
            if rc != 0:
                raise core.InfraError("git pack-objects failed: " + err.decode(errors="replace"))
            base = str(gd / ("out-" + out.strip().decode()))
            pack = Path(base + ".pack").read_bytes()
            (off, s0, s1), = entry_layout(pack, [12])
            L = s1 - s0
            if L == target:
                hit = (base, pack, blob)
                break
            n += target - L
        ctx.count(stream, (target, level, n), True, f"level{level}:{'hit' if hit else 'missed'}:{_near(target)}")
        if hit is None:
            return
        base, pack, blob = hit
        case = {"kind": "gitaligned", "target": target, "level": level, "blob": hx(blob)}
        nm = obj_name(3, blob)
        index_paths_oracle(ctx, stream, case, base, pack, {nm: 12}, {nm: (3, blob)}, heavy=True, git=True)
        # git's own index agrees with the range CRC too (sanity of the oracle itself)
        ix = _load_idx(Path(base + ".idx").read_bytes(), 20)
        try:
            import binascii
            (_, off, crc), = list(ix.iterentries())
            if crc != binascii.crc32(pack[12:len(pack) - 20]) & 0xFFFFFFFF:
                raise core.InfraError("range-CRC oracle disagrees with git's own index")
        finally:
            ix.close()
    finally:
        shutil.rmtree(gd, ignore_errors=True)


# ------------------------------------------------------------------------------------------------
# corpus, run, search, replay

def _run_corpus(ctx, workers):
    import json
    d = core.VERIF / "corpus" / "C02"
    if not d.exists():
        return
    for f in sorted(d.glob("*.json")):
        c = json.loads(f.read_text())
        _dispatch(ctx, "corpus." + f.stem, c.get("case", c), workers, model=True)


def _dispatch(ctx, stream, c, workers, model=False):
    kind = c.get("kind")
    if kind == "codec":
        codec_oracle(ctx, stream, c["codec"], c.get("ty", 3), c["n"], unhx(c.get("tail", "-")))
        ctx.count(stream, repr(c), True)
    elif kind == "idx":
        es = [(unhx(a), b, d) for a, b, d in c["entries"]]
        idx_case(ctx, stream, c["version"], c["hs"], es, unhx(c["cs"]), c.get("fmt", 1), workers=workers, model=model)
    elif kind == "trailer":
        chunks = [unhx(x) for x in c["chunks"]]
        out = None
        if model:
            (out,) = ctx.driver.batch([f"c02.trailer {c['hs']}" + "".join(" " + hx(x) for x in chunks)])
        ctx.count(stream, repr(c), True)
        trailer_case(ctx, stream, c["hs"], b"".join(chunks), chunks, out)
    elif kind == "pack":
        pack_case(ctx, stream, [(t, unhx(d)) for t, d in c["objs"]], c["opts"], workers=workers, model=model, git=True)
    elif kind == "gitaligned-delta":
        git_aligned_delta_case(ctx, stream, c["target"], c["level"], c["ofs"])
    elif kind == "gitaligned":
        git_aligned_case(ctx, stream, c["target"], c["level"])
    elif kind == "gitpack":
        git_pack_case(ctx, stream, [(t, unhx(d)) for t, d in c["objs"]], c["gopts"])
    else:
        raise core.InfraError(f"unknown case kind {kind!r}")


def run(ctx: core.Ctx):
    workers = {"py": core.Worker("py", mem_mb=2048)}
    ctx.assumptions += [
        "zlib (deflate/inflate) is a parameter of the theorems; in the correspondence it is Python's zlib, supplied to the "
        "model as a table computed by scanning every pack offset with zlib.decompressobj (no dulwich parsing involved)",
        "SHA-1/SHA-256 trailers and CRC-32 are parameters; the harness completes model-written files with hashlib and "
        "checks the CRC of the model's byte ranges with binascii.crc32",
        "bisect_find_sha: the model is the Python version (checked in a child with the extension masked); the installed "
        "Rust version is run on the same probes (its equivalence is C15's business)",
        "DeltaChainIterator (iterobjects) is exercised by the direct oracle only; the model covers sequential entry "
        "parsing and random-access resolution",
        "C git 2.39.5: index v3 is dulwich-only and not offered to git; --thin packs are not generated",
    ]
    try:
        w = workers["py"].ask({"mod": MOD, "op": "which"})
        ctx.extra_cov["variants"] = {"py": w.get("r"), "default": impl_which(None)}
        if "r" in w and "_pack" in str(w["r"].get("bisect")):
            ctx.notes.append(f"py worker did not mask the Rust bisect: {w}")
        _run_corpus(ctx, workers)
        _stream_codecs(ctx)
        _stream_trailer(ctx)
        _stream_index(ctx, workers)
        _stream_packs(ctx, workers)
    finally:
        for v in workers.values():
            v.close()


def search(ctx: core.Ctx):
    """Failing-input search after a broken obligation / disagreement: the direct oracles alone, harder."""
    import dulwich.pack as P
    rng = ctx.rng
    workers = {"py": core.Worker("py", mem_mb=2048)}
    try:
        # 1. the disagreeing cases themselves and their neighbourhood
        for dgr in list(ctx.disagreements)[:20]:
            c = dgr["case"]
            if c.get("kind") in ("idx", "trailer", "pack", "gitpack", "codec"):
                _dispatch(ctx, "search." + dgr["stream"], c, workers, model=False)
            if "size" in c and "ty" in c and isinstance(c["ty"], int) and c["ty"] in (1, 2, 3, 4):
                for dlt in range(-2, 3):
                    codec_oracle(ctx, "search.hdr", "hdr", c["ty"], max(0, c["size"] + dlt), b"\x80x")
            if "n" in c and isinstance(c["n"], int):
                for dlt in range(-2, 3):
                    codec_oracle(ctx, "search.ofs", "ofs", 6, max(1, c["n"] + dlt), b"\x80x")
        if ctx.oracle_failures:
            return
        # 2. exhaustive small ranges of the codecs on the real code
        for n in list(range(0, 70000)) + [rng.getrandbits(40) for _ in range(2000)]:
            codec_oracle(ctx, "search.hdr", "hdr", 1 + n % 4, n, b"\xff")
            if n:
                codec_oracle(ctx, "search.ofs", "ofs", 6, n, b"\xff")
            if ctx.oracle_failures:
                return
        # 3. trailer tracking, index and packs with a boosted budget (oracle only)
        for _ in range(ctx.budget(600)):
            hs = rng.choice([20, 32])
            _, data, chunks = gen_chunking(rng, hs)
            trailer_case(ctx, "search.trailer", hs, data, chunks)
        if ctx.oracle_failures:
            return
        for i in range(ctx.budget(150)):
            version = rng.choice([1, 2, 2, 3])
            hs = 32 if (version == 2 and rng.random() < 0.3) else 20
            _, es = gen_entries(rng, version, hs)
            idx_case(ctx, "search.idx", version, hs, es, rng.randbytes(hs), workers=workers, model=False)
            if len(ctx.oracle_failures) > 3:
                return
        if ctx.oracle_failures:
            return
        for i in range(ctx.budget(80)):
            pack_case(ctx, "search.pack", gen_objects(rng, big_ok=(i % 5 == 0)), gen_pack_opts(rng), workers=workers, model=False, git=(i % 4 == 0))
            if ctx.oracle_failures:
                return
        for i in range(ctx.budget(6)):
            git_pack_case(ctx, "search.gitpack", gen_git_history(rng), {"depth": 50, "window": 10, "ofs": bool(i % 2), "idxv": None, "threads": 1})
            if ctx.oracle_failures:
                return
    finally:
        for v in workers.values():
            v.close()


def replay(ctx: core.Ctx, data: dict) -> int:
    c = data.get("case", {})
    workers = {"py": core.Worker("py", mem_mb=2048)}
    try:
        if "kind" not in c:
            print("replay: this file names a broken obligation, not a failing input:", data.get("no_longer_checks"))
            return 1
        _dispatch(ctx, data.get("stream", "replay"), c, workers, model=False)
        for f in ctx.oracle_failures:
            print("replay:", f["what"])
        if ctx.known_hit:
            print("replay: matched known finding(s)", ctx.known_hit)
        if ctx.oracle_failures:
            print(f"VIOLATION property=C02 replay={data.get('_path', '<replayed>')}")
            return 1
        print("replay: property holds on this case")
        return 0
    finally:
        for v in workers.values():
            v.close()
