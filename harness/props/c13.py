"""C13 — merge-base, ancestry and history walks are exact on every DAG and clock.

Model: lean/DulwichModel/Model/LCA.lean (`_find_lcas`, find_merge_base, find_octopus_base, can_fast_forward,
independent) and Model/Walk.lean (`_CommitTimeQueue`, Walker, `_topo_reorder`); theorems: Props/C13.lean.
Tie: translate() regenerates Gen/Graph.lean (flag constants, min_stamp default, which callers pass the
min_stamp cut, `_MAX_EXTRA_COMMITS`); run() drives the correspondence streams (model vs the real
functions) and the direct oracle (real functions vs the brute-force graph-theoretic answer, C git as a
third party).

Case encoding (also the replay/corpus format): a history is {"parents": [[...], ...], "ts": [...]} over
commits 0..n-1; commit ids are compared as numbers by the model, so wherever the real code compares
object ids (heap ties) the harness numbers the commits by the rank of the id the real code sees.
"""
from __future__ import annotations

import ast
import itertools
import json
import os
import subprocess
import time
from pathlib import Path

from .. import core, translate as T

MOD = "c13"
PROP = "C13"

CLS_FF = "ff-false-negative-nonmonotone-stamps"
CLS_LCA = "lca-nonmaximal-nonmonotone-stamps"
CLS_IND = "independent-keeps-ancestor-nonmonotone-stamps"
CLS_IND_DUP = "independent-duplicate-ids-all-dropped"
CLS_OCT = "octopus-fold-nonmaximal"


# ------------------------------------------------------------------------------------------------
# translator

def _local_int_consts(fn: ast.AST) -> dict:
    out = {}
    for st in fn.body:
        if isinstance(st, ast.Assign) and len(st.targets) == 1 and isinstance(st.targets[0], ast.Name) \
                and isinstance(st.value, ast.Constant) and isinstance(st.value.value, int):
            out[st.targets[0].id] = st.value.value
    return out


def _names_in(node: ast.AST) -> set:
    return {n.id for n in ast.walk(node) if isinstance(n, ast.Name)}


def _find_lcas_calls(fn: ast.AST) -> list:
    return [n for n in ast.walk(fn) if isinstance(n, ast.Call) and isinstance(n.func, ast.Name)
            and n.func.id == "_find_lcas"]


def translate(repo: Path) -> dict:
    tree = T.module_ast(repo / "dulwich" / "graph.py")
    fl = T.find_def(tree, "_find_lcas")
    consts = _local_int_consts(fl)
    need = ["_ANC_OF_1", "_ANC_OF_2", "_DNC", "_LCA"]
    for k in need:
        if k not in consts:
            raise T.TranslateError(f"_find_lcas: flag constant {k} not found")
    # default of min_stamp (None = no cut)
    a = fl.args
    names = [x.arg for x in a.args]
    if "min_stamp" not in names:
        raise T.TranslateError("_find_lcas: parameter min_stamp not found")
    di = names.index("min_stamp") - (len(names) - len(a.defaults))
    if di < 0:
        raise T.TranslateError("_find_lcas: min_stamp has no default")
    min_default = T.eval_literal(a.defaults[di])
    if min_default is not None and (not isinstance(min_default, int) or isinstance(min_default, bool)):
        raise T.TranslateError(f"_find_lcas: min_stamp default {min_default!r} is neither None nor an int")
    # the mask the loop looks at and the two-flag test (the model is written for exactly these)
    mask_ok = both_ok = False
    for n in ast.walk(fl):
        if isinstance(n, ast.Assign) and isinstance(n.targets[0], ast.Name) and n.targets[0].id == "cflags" \
                and isinstance(n.value, ast.BinOp) and isinstance(n.value.op, ast.BitAnd):
            if _names_in(n.value.right) == {"_ANC_OF_1", "_ANC_OF_2", "_DNC"}:
                mask_ok = True
        if isinstance(n, ast.Compare) and isinstance(n.left, ast.Name) and n.left.id == "cflags" \
                and isinstance(n.ops[0], ast.Eq) and _names_in(n.comparators[0]) == {"_ANC_OF_1", "_ANC_OF_2"}:
            both_ok = True
    if not mask_ok:
        raise T.TranslateError("_find_lcas: `cflags = cstates[cmt] & (_ANC_OF_1 | _ANC_OF_2 | _DNC)` not found")
    if not both_ok:
        raise T.TranslateError("_find_lcas: `cflags == (_ANC_OF_1 | _ANC_OF_2)` not found")

    # the shape of the callers the model was written for (the code after the C13 fix series)
    def calls_of(fname, callee):
        return [n for n in ast.walk(T.find_def(tree, fname)) if isinstance(n, ast.Call)
                and isinstance(n.func, ast.Name) and n.func.id == callee]

    for fname in ("can_fast_forward", "find_merge_base", "find_octopus_base", "_remove_redundant"):
        calls = calls_of(fname, "_find_lcas")
        if not calls:
            raise T.TranslateError(f"{fname}: no call of _find_lcas")
        if any(any(k.arg == "min_stamp" for k in c.keywords) or len(c.args) >= 5 for c in calls):
            raise T.TranslateError(f"{fname} passes min_stamp to _find_lcas: the model has no date cut there")
    for fname in ("find_merge_base", "find_octopus_base"):
        if not calls_of(fname, "_remove_redundant"):
            raise T.TranslateError(f"{fname} does not call _remove_redundant: the model reduces the result")
    ff = T.find_def(tree, "can_fast_forward")
    rets = [n for n in ast.walk(ff) if isinstance(n, ast.Return) and isinstance(n.value, ast.Compare)]
    if not rets or not all(isinstance(r.value.ops[0], ast.In) and isinstance(r.value.left, ast.Name)
                           and r.value.left.id == "c1" for r in rets):
        raise T.TranslateError("can_fast_forward does not end in `return c1 in lcas`")
    ind = T.find_def(tree, "independent")
    if not any(isinstance(n, ast.Attribute) and n.attr == "fromkeys" for n in ast.walk(ind)):
        raise T.TranslateError("independent does not remove duplicate ids (dict.fromkeys)")
    if not any(isinstance(n, ast.Compare) and isinstance(n.ops[0], ast.Eq) and isinstance(n.left, ast.Name)
               and n.left.id == "merge_bases" for n in ast.walk(ind)):
        raise T.TranslateError("independent: `merge_bases == [commit_id]` not found")
    rr = T.find_def(tree, "_remove_redundant")
    if not any(isinstance(n, ast.Attribute) and n.attr == "fromkeys" for n in ast.walk(rr)):
        raise T.TranslateError("_remove_redundant does not remove duplicates (dict.fromkeys)")
    wtree = T.module_ast(repo / "dulwich" / "walk.py")
    max_extra = T.const_value(wtree, "_MAX_EXTRA_COMMITS")
    if not isinstance(max_extra, int) or max_extra < 0:
        raise T.TranslateError(f"_MAX_EXTRA_COMMITS = {max_extra!r}")
    # _CommitTimeQueue._step: the comparison that decides whether to keep walking so the exclusion can catch up
    stepf = T.find_def(wtree, "_CommitTimeQueue._step")
    ops = []
    for n in ast.walk(stepf):
        if isinstance(n, ast.Compare) and len(n.ops) == 1 and ast.unparse(n.left) == "n.commit_time" \
                and ast.unparse(n.comparators[0]) == "self._last.commit_time":
            ops.append(type(n.ops[0]))
    if len(ops) != 1 or ops[0] not in (ast.GtE, ast.Gt):
        raise T.TranslateError(f"_step: expected one test `n.commit_time >= self._last.commit_time`, found {ops}")
    catch_ge = ops[0] is ast.GtE
    # _exclude_parents marks every parent, and looks one level further through parents that were already seen
    exf = T.find_def(wtree, "_CommitTimeQueue._exclude_parents")
    src_ex = ast.unparse(exf)
    for needle in ("excluded.add(parent)", "todo.append(", "parent not in excluded and parent in seen", "todo.pop()"):
        if needle not in src_ex:
            raise T.TranslateError(f"_exclude_parents: `{needle}` not found (model was written for this shape)")
    # the countdown: `self._extra_commits_left -= 1` and `if not self._extra_commits_left: break`
    src_step = ast.unparse(stepf)
    for needle in ("self._extra_commits_left -= 1", "if not self._extra_commits_left:", "self._extra_commits_left = _MAX_EXTRA_COMMITS"):
        if needle not in src_step:
            raise T.TranslateError(f"_step: `{needle}` not found (model was written for this shape)")
    lean_min = "none" if min_default is None else f"some ({min_default})"
    src = T.lean_header("dulwich/graph.py: _find_lcas flag constants, min_stamp default, call shapes; "
                        "dulwich/walk.py: _MAX_EXTRA_COMMITS") + f"""
namespace Dulwich.Gen
/-- `_ANC_OF_1` in `_find_lcas` -/
def lcaAncOf1 : Nat := {consts['_ANC_OF_1']}
/-- `_ANC_OF_2` in `_find_lcas` -/
def lcaAncOf2 : Nat := {consts['_ANC_OF_2']}
/-- `_DNC` in `_find_lcas` -/
def lcaDnc : Nat := {consts['_DNC']}
/-- `_LCA` in `_find_lcas` -/
def lcaLca : Nat := {consts['_LCA']}
/-- default of the `min_stamp` parameter of `_find_lcas` -/
def lcaDefaultMinStamp : Option Int := {lean_min}
/-- `_MAX_EXTRA_COMMITS` in walk.py -/
def walkMaxExtraCommits : Nat := {max_extra}
/-- `_CommitTimeQueue._step`: the catch-up test is `n.commit_time >= self._last.commit_time` (`false`: `>`) -/
def walkCatchUpGe : Bool := {"true" if catch_ge else "false"}
end Dulwich.Gen
"""
    return {"Graph": src}


# ------------------------------------------------------------------------------------------------
# histories: enumeration, relabelling, brute force

def weak_orders(n: int) -> list:
    """All assignments of stamps 0..k-1 (k = 1..n, onto) = all weak orders of n commits by time."""
    out = []
    for k in range(1, n + 1):
        for t in itertools.product(range(k), repeat=n):
            if len(set(t)) == k:
                out.append(t)
    return out


def topo_dags(n: int):
    """All DAGs on 0..n-1 whose edges go from a commit to smaller-numbered parents."""
    opts = [[tuple(s) for r in range(i + 1) for s in itertools.combinations(range(i), r)] for i in range(n)]
    return itertools.product(*opts)


def relabel(P, ts, pi, sort=False):
    """rename commit i to pi[i]; parent order is kept unless `sort`"""
    n = len(P)
    P2 = [None] * n
    t2 = [None] * n
    for i in range(n):
        q = [pi[p] for p in P[i]]
        P2[pi[i]] = tuple(sorted(q) if sort else q)
        t2[pi[i]] = ts[i]
    return tuple(P2), tuple(t2)


class Hist:
    """A history with brute-force ancestry (bitsets)."""

    def __init__(self, P, ts):
        self.P = [list(p) for p in P]
        self.ts = list(ts)
        self.n = n = len(self.P)
        A = [None] * n
        # iterative DFS (labels need not be topological)
        for r in range(n):
            if A[r] is not None:
                continue
            stack = [(r, 0)]
            while stack:
                c, i = stack.pop()
                if i < len(self.P[c]):
                    stack.append((c, i + 1))
                    p = self.P[c][i]
                    if A[p] is None:
                        A[p] = -1  # in progress (cycle guard: inputs are DAGs)
                        stack.append((p, 0))
                else:
                    a = 1 << c
                    for p in self.P[c]:
                        a |= A[p]
                    A[c] = a
        self.A = A
        D = [1 << c for c in range(n)]
        for c in range(n):
            a = A[c]
            x = 0
            while a:
                low = a & -a
                D[low.bit_length() - 1] |= 1 << c
                a ^= low
        self.D = D

    def bits(self, m):
        out = []
        while m:
            low = m & -m
            out.append(low.bit_length() - 1)
            m ^= low
        return out

    def reach(self, ids):
        m = 0
        for c in ids:
            m |= self.A[c]
        return m

    def maximal(self, m):
        return {x for x in self.bits(m) if self.D[x] & m == 1 << x}

    def lcas(self, c1, c2s):
        """maximal common ancestors of c1 and (any of) c2s"""
        return self.maximal(self.A[c1] & self.reach(c2s))

    def octopus(self, ids):
        m = -1
        for c in ids:
            m &= self.A[c]
        return self.maximal(m) if ids else set()

    def is_anc(self, a, b):
        return bool(self.A[b] >> a & 1)

    def independent(self, ids):
        s = set(ids)
        return {c for c in s if not any(o != c and self.is_anc(c, o) for o in s)}

    def nonmono_edge(self, m, strict=True):
        """is there an edge parent->child inside the commit set m whose stamps do not increase
        (strict: ts[parent] >= ts[child]; non-strict: ts[parent] > ts[child])?"""
        for c in self.bits(m):
            for p in self.P[c]:
                if (self.ts[p] >= self.ts[c]) if strict else (self.ts[p] > self.ts[c]):
                    return True
        return False

    def enc(self):
        ps = ";".join(",".join(map(str, p)) if p else "-" for p in self.P)
        return ps + " " + ",".join(map(str, self.ts))

    def case(self):
        return {"parents": self.P, "ts": self.ts}


def showl(l):
    return ",".join(map(str, l)) if l else "-"


class _Timeout(Exception):
    pass


CALL_LIMIT_S = 20.0


class time_limit:
    """Bound one call of the real code (pure-Python loops): a changed loop that no longer terminates must become
    a reported failure ("exc:Timeout"), not a hung check.  Uses SIGALRM, main thread of the (worker) process."""

    def __init__(self, seconds=None):
        self.seconds = CALL_LIMIT_S if seconds is None else seconds

    def __enter__(self):
        import signal

        def _raise(signum, frame):
            raise _Timeout()
        self._old = signal.signal(signal.SIGALRM, _raise)
        signal.setitimer(signal.ITIMER_REAL, self.seconds)

    def __exit__(self, *a):
        import signal
        signal.setitimer(signal.ITIMER_REAL, 0)
        signal.signal(signal.SIGALRM, self._old)
        return False


# ------------------------------------------------------------------------------------------------
# real code on integer ids (`_find_lcas` takes its lookups as callables)

def impl_lcas(h: Hist, c1, c2s, min_stamp=None):
    from dulwich.graph import _find_lcas
    try:
        with time_limit():
            if min_stamp is None:
                r = _find_lcas(h.P.__getitem__, c1, list(c2s), h.ts.__getitem__)
            else:
                r = _find_lcas(h.P.__getitem__, c1, list(c2s), h.ts.__getitem__, min_stamp=min_stamp)
    except _Timeout:
        return "exc:Timeout"
    except Exception as e:  # noqa: BLE001
        return "exc:" + type(e).__name__
    return r


def classify_lcas(h: Hist, c1, c2s, got, cls_name=CLS_LCA):
    """None when `got` is the graph answer; else (what, cls)."""
    if isinstance(got, str):
        return f"raised {got}", None
    truth = h.lcas(c1, c2s)
    gs = set(got)
    if len(gs) != len(got):
        return f"duplicate entries in {got}", None
    if gs == truth:
        return None
    ca = h.A[c1] & h.reach(c2s)
    rel = h.A[c1] | h.reach(c2s)
    if gs > truth and all(ca >> x & 1 for x in gs) and h.nonmono_edge(rel):
        return (f"non-maximal common ancestor(s) {sorted(gs - truth)} reported besides {sorted(truth)}", cls_name)
    return f"got {sorted(gs)}, graph answer {sorted(truth)}", None


def classify_raw_lcas(h: Hist, c1, c2s, got):
    """`_find_lcas` itself (before `_remove_redundant`): distinct common ancestors including every maximal one on
    every clock; exactly the maximal ones when stamps strictly increase along every edge among the ancestors."""
    if isinstance(got, str):
        return f"raised {got}", None
    truth = h.lcas(c1, c2s)
    gs = set(got)
    if len(gs) != len(got):
        return f"duplicate entries in {got}", None
    ca = h.A[c1] & h.reach(c2s)
    if not all(ca >> x & 1 for x in gs):
        return f"reports {sorted(x for x in gs if not ca >> x & 1)}: not common ancestors", None
    if not truth <= gs:
        return f"misses maximal common ancestor(s) {sorted(truth - gs)}", None
    if gs != truth and not h.nonmono_edge(h.A[c1] | h.reach(c2s)):
        return f"raw result {sorted(gs)} is not reduced although stamps strictly increase (answer {sorted(truth)})", None
    return None


def classify_ff(h: Hist, c1, c2, got):
    if isinstance(got, str):
        return f"raised {got}", None
    truth = h.is_anc(c1, c2)
    if got == truth:
        return None
    if truth and not got and h.nonmono_edge(h.A[c2]):
        return "can_fast_forward is False although c1 is an ancestor of c2", CLS_FF
    return f"can_fast_forward={got}, graph answer {truth}", None


def classify_independent(h: Hist, ids, got):
    """graph answer = the ids not reachable from another (different) id; compared as a set, survivors must
    come from the input"""
    if isinstance(got, str):
        return f"raised {got}", None
    truth = h.independent(ids)
    gs = set(got)
    if gs == truth:
        exp = [c for c in dict.fromkeys(ids) if c in truth]
        if list(dict.fromkeys(got)) != exp:
            return f"survivors {got} are not in input order {exp}", None
        return None
    # two known causes can combine: ids given twice are dropped altogether (whatever the clock), and an id that
    # is reachable from another one survives when stamps do not strictly increase.  Anything else is unclassified.
    dup = {c for c in ids if ids.count(c) > 1}
    dropped_dups = (truth - gs) & dup
    rest = gs | dropped_dups          # what the answer would be without the duplicate defect
    if rest == truth:
        return f"ids given twice are dropped altogether: got {sorted(gs)}, graph answer {sorted(truth)}", CLS_IND_DUP
    if rest > truth and gs <= set(ids) and h.nonmono_edge(h.reach(ids)):
        return f"keeps {sorted(rest - truth)} although reachable from another id (graph answer {sorted(truth)})", CLS_IND
    return f"got {sorted(gs)}, graph answer {sorted(truth)}", None


def classify_octopus(h: Hist, ids, got):
    """graph answer = the maximal commits among the common ancestors of ALL ids"""
    if isinstance(got, str):
        return f"raised {got}", None
    if len(ids) <= 2:   # delegates to find_merge_base
        return classify_lcas(h, ids[0], ids[1:] or [ids[0]], got)
    truth = h.octopus(ids)
    gs = set(got)
    if gs == truth:
        return None
    m = -1
    for c in ids:
        m &= h.A[c]
    if gs > truth and all(m >> x & 1 for x in gs):
        return (f"common ancestor(s) {sorted(gs - truth)} reported although ancestors of another common ancestor "
                f"(graph answer {sorted(truth)})", CLS_OCT)
    return f"got {sorted(gs)}, graph answer {sorted(truth)}", None


# ------------------------------------------------------------------------------------------------
# real code on real commits (MemoryRepo / disk repo)

class RealHist:
    """The history `h` materialised as Commit objects; `rank[i]` = position of commit i's SHA among the
    sorted SHAs (the order the real heaps use for ties); `hm` = the same history renumbered by rank."""

    _store = None

    def __init__(self, h: Hist, nonce: int = 0, repo=None):
        from dulwich.objects import Commit, Tree
        from dulwich.repo import MemoryRepo
        if repo is None:
            if RealHist._store is None:
                RealHist._store = MemoryRepo()
                RealHist._store.object_store.add_object(Tree())
            repo = RealHist._store
        self.repo = repo
        self.nonce = nonce
        tree_id = Tree().id
        sha = [None] * h.n
        objs = []
        # create in a topological order
        order = sorted(range(h.n), key=lambda c: bin(h.A[c]).count("1"))
        for c in order:
            cm = Commit()
            cm.tree = tree_id
            cm.parents = [sha[p] for p in h.P[c]]
            cm.author = cm.committer = b"v <v@example.com>"
            cm.author_time = cm.commit_time = h.ts[c]
            cm.author_timezone = cm.commit_timezone = 0
            cm.message = b"c%d n%d\n" % (c, nonce)
            sha[c] = cm.id
            objs.append(cm)
        for cm in objs:
            repo.object_store.add_object(cm)
        self.sha = sha
        srt = sorted(sha)
        self.rank = [srt.index(s) for s in sha]
        self.of_sha = {s: self.rank[i] for i, s in enumerate(sha)}
        P2, t2 = relabel(h.P, h.ts, self.rank)
        self.hm = Hist(P2, t2)
        self.h = h

    def ids(self, model_ids):
        """model (rank) ids -> SHAs"""
        inv = {r: s for s, r in self.of_sha.items()}
        return [inv[i] for i in model_ids]

    def back(self, shas):
        return [self.of_sha[s] for s in shas]


def real_call(fn, *a, **kw):
    try:
        with time_limit():
            return fn(*a, **kw)
    except _Timeout:
        return "exc:Timeout"
    except Exception as e:  # noqa: BLE001
        return "exc:" + type(e).__name__


def real_walk(rh: RealHist, o: dict):
    """list(repo.get_walker(...)) as model ids; `o` uses model ids"""
    try:
        with time_limit():
            w = rh.repo.get_walker(include=rh.ids(o["incl"]), exclude=rh.ids(o["excl"]) or None,
                                   order="topo" if o["topo"] else "date", reverse=bool(o["rev"]),
                                   max_entries=o["max"], since=o["since"], until=o["until"])
            return rh.back([e.commit.id for e in w])
    except _Timeout:
        return "exc:Timeout"
    except Exception as e:  # noqa: BLE001
        return "exc:" + type(e).__name__


def walk_query(o: dict) -> str:
    f = lambda v: "n" if v is None else str(v)
    return (f"W:{showl(o['incl'])}:{showl(o['excl'])}:{int(o['topo'])}:{int(o['rev'])}:"
            f"{f(o['max'])}:{f(o['since'])}:{f(o['until'])}")


def classify_walk(h: Hist, o: dict, got):
    """The property's words for a walk (ids are those of `h`): each reachable commit exactly once, minus
    excluded ones when stamps are monotone; window respected; topo: no parent before a child."""
    if isinstance(got, str):
        return f"raised {got}", None
    if len(set(got)) != len(got):
        return f"a commit is yielded twice: {got}", None
    inc = h.reach(o["incl"])
    exc = h.reach(o["excl"])
    gs = set(got)
    window = {c for c in h.bits(inc) if (o["since"] is None or h.ts[c] >= o["since"])
              and (o["until"] is None or h.ts[c] <= o["until"])}
    if not gs <= window:
        return f"yields {sorted(gs - window)}: not reachable from the includes / outside since..until", None
    if gs & set(o["excl"]):
        return f"yields excluded start point(s) {sorted(gs & set(o['excl']))}", None
    mono = not h.nonmono_edge(inc | exc, strict=False)
    exact = (not o["excl"] and o["since"] is None) or mono
    if exact:
        exp = {c for c in window if not exc >> c & 1}
        if o["max"] is None:
            if gs != exp:
                return f"yields {sorted(gs)}, expected exactly {sorted(exp)}", None
        else:
            if len(got) != min(o["max"], len(exp)) or not gs <= exp:
                return f"yields {got} with max_entries={o['max']}, expected {min(o['max'], len(exp))} of {sorted(exp)}", None
    if o["topo"]:
        pos = {c: i for i, c in enumerate(got)}
        for c in got:
            for p in h.P[c]:
                if p in pos and ((pos[p] < pos[c]) != bool(o["rev"])):
                    return f"topo order: parent {p} {'after' if o['rev'] else 'before'} child {c} in {got}", None
    return None


# ------------------------------------------------------------------------------------------------
# exhaustive small histories (worker processes)

def _small_cases(n: int, mode: str, rng=None, limit=None):
    """(P, ts) over labelled commits.  mode 'labelled': every labelled DAG x every weak order (all
    relabellings of the topologically numbered DAGs, deduplicated); 'topo': topological numbering and its
    reversal only."""
    wos = weak_orders(n)
    perms = list(itertools.permutations(range(n)))
    seen = set()
    for P in topo_dags(n):
        for ts in wos:
            if mode == "labelled":
                use = perms
            else:
                use = [tuple(range(n)), tuple(reversed(range(n)))]
            for pi in use:
                k = relabel(P, ts, pi, sort=True)
                if k in seen:
                    continue
                seen.add(k)
                yield k


def _pair_queries(h: Hist):
    """queries evaluated on every small history: raw _find_lcas for every ordered pair (default min_stamp
    and the can_fast_forward cut), one- and two-element c2 sets"""
    n = h.n
    qs = []
    for c1 in range(n):
        for c2 in range(n):
            qs.append(("L", c1, (c2,), None))
            if c1 != c2:
                qs.append(("L", c1, (c2,), h.ts[c1]))
    if 3 <= n <= 4:   # c2 sets: exhaustive up to 4 commits (5 and 6: pairs only, sets come from the random streams)
        for c1 in range(n):
            others = [c for c in range(n) if c != c1]
            for pair in itertools.combinations(others, 2):
                qs.append(("L", c1, pair, None))
            if n >= 4:
                qs.append(("L", c1, tuple(others), None))
    return qs


def _q_str(q):
    k, c1, c2s, m = q
    return f"{k}:{c1}:{showl(c2s)}:{'d' if m is None else m}"


def _eval_small_chunk(args):
    """worker: evaluates a chunk of small histories on the real `_find_lcas`, runs the Lean driver on the same
    queries and the brute-force oracle; returns counts, disagreements, oracle failures (capped)."""
    cases, driver_exe = args
    lines, meta = [], []
    dis, fails, tags = [], [], {}
    nq = 0
    for P, ts in cases:
        h = Hist(P, ts)
        qs = _pair_queries(h)
        answers = []
        for q in qs:
            _, c1, c2s, m = q
            got = impl_lcas(h, c1, c2s, m)
            answers.append(got if isinstance(got, str) else showl(got))
            nq += 1
            # oracle: the raw result contains every maximal common ancestor and only common ancestors (any
            # clock); `c1 in result` is the ancestry test can_fast_forward makes.  An explicit min_stamp is a
            # parameter of `_find_lcas` no caller uses any more: correspondence only.
            rs = []
            if m is None:
                rs.append(("lcas", classify_raw_lcas(h, c1, c2s, got)))
                if len(c2s) == 1:
                    ff = got if isinstance(got, str) else (c1 in got)
                    rs.append(("ff", classify_ff(h, c1, c2s[0], ff)))
            for kind, r in rs:
                if r is not None:
                    t = f"{kind}:{r[1] or 'UNCLASSIFIED'}"
                    tags[t] = tags.get(t, 0) + 1
                    if len(fails) < 40 or r[1] is None:
                        fails.append((h.case(), _q_str(q), answers[-1], r[0], r[1]))
        lines.append("c13.q " + h.enc() + " " + " ".join(_q_str(q) for q in qs))
        meta.append((h, qs, ";".join(answers)))
    p = subprocess.run([driver_exe], input=("\n".join(lines) + "\n").encode(), stdout=subprocess.PIPE,
                       stderr=subprocess.PIPE)
    if p.returncode != 0:
        return {"infra": p.stderr.decode(errors="replace")[-500:]}
    outs = p.stdout.decode().split("\n")[:-1]
    if len(outs) != len(lines):
        return {"infra": f"driver returned {len(outs)} lines for {len(lines)}"}
    for (h, qs, impl), mo in zip(meta, outs):
        if mo != impl:
            ms, is_ = mo.split(";"), impl.split(";")
            for q, a, b in zip(qs, ms, is_):
                if a != b and len(dis) < 20:
                    dis.append((h.case(), _q_str(q), a, b))
            if len(ms) != len(is_) and len(dis) < 20:
                dis.append((h.case(), "*", mo[:200], impl[:200]))
    return {"cases": len(cases), "queries": nq, "lines": len(lines), "dis": dis, "fails": fails, "tags": tags}


def _pool(workers=None):
    import multiprocessing as mp
    from concurrent.futures import ProcessPoolExecutor
    n = workers or min(12, os.cpu_count() or 2)
    return ProcessPoolExecutor(max_workers=n, mp_context=mp.get_context("fork"))


def _record_fail(ctx, stream, case, query, got, what, cls, rh=None):
    c = {"history": case, "query": query, "got": got}
    if rh is not None:
        # how to rebuild the very same commits (same SHAs, hence the same tie order): the history in its
        # original numbering + the nonce that went into the commit messages; `history`/`query` use SHA ranks
        c["orig"] = {"parents": rh.h.P, "ts": rh.h.ts, "nonce": rh.nonce}
    ctx.oracle_fail(stream, c, what, cls)


def _stream_small(ctx, stream="small.lcas"):
    """Exhaustive: every labelled DAG with <= N commits x every weak order of stamps x every ordered pair
    (and c2 sets): model vs real `_find_lcas`, both vs the graph answer."""
    N = 4
    exe = str(ctx.driver.exe)
    jobs = []
    total = 0
    per_n = {}
    for n in range(1, N + 1):
        cases = list(_small_cases(n, "labelled"))
        per_n[n] = len(cases)
        total += len(cases)
        # the same histories with the clock shifted below zero (all of them up to 3 commits, a sample of 4)
        shifted = [(P, tuple(t - 2 for t in ts)) for (P, ts) in cases if n <= 3 or ctx.rng.random() < 0.1]
        per_n[f"{n} shifted below 0"] = len(shifted)
        cases = cases + shifted
        for i in range(0, len(cases), 1500):
            jobs.append((cases[i:i + 1500], exe))
    if ctx.thorough:
        # n = 5: topological numbering and its reversal for every DAG x weak order; a sample of the other
        # relabellings; n = 6: a sample
        cases = list(_small_cases(5, "topo"))
        per_n["5(topo+reverse numbering)"] = len(cases)
        for i in range(0, len(cases), 4000):
            jobs.append((cases[i:i + 4000], exe))
        rng = ctx.rng
        extra = []
        dags5 = list(topo_dags(5))
        wos5 = weak_orders(5)
        dags6 = list(topo_dags(6))
        wos6 = weak_orders(6)
        for _ in range(ctx.budget(20000, mult=1)):
            pi = list(range(5))
            rng.shuffle(pi)
            extra.append(relabel(rng.choice(dags5), rng.choice(wos5), pi))
        for _ in range(ctx.budget(60000, mult=1)):
            pi = list(range(6))
            rng.shuffle(pi)
            extra.append(relabel(rng.choice(dags6), rng.choice(wos6), pi))
        per_n["5,6 sampled"] = len(extra)
        for i in range(0, len(extra), 4000):
            jobs.append((extra[i:i + 4000], exe))
    ctx.extra_cov["small_histories"] = per_n
    _run_small_jobs(ctx, stream, jobs)


def _run_small_jobs(ctx, stream, jobs):
    tags_total = {}
    with _pool() as ex:
        for res in ex.map(_eval_small_chunk, jobs):
            if "infra" in res:
                raise core.InfraError("driver failed in worker: " + res["infra"])
            ctx.evaluations += res["queries"]
            ctx.streams[stream] = ctx.streams.get(stream, 0) + res["queries"]
            ctx.driver.lines_sent += res["lines"]
            base = len(ctx.distinct)
            for i in range(res["cases"]):
                ctx.distinct.add((stream, base + i))
            for t, k in res["tags"].items():
                tags_total[t] = tags_total.get(t, 0) + k
            for case, q, a, b in res["dis"]:
                if len(ctx.disagreements) < 50:
                    ctx.disagree(stream, {"history": case, "query": q}, a, b, "_find_lcas")
            for case, q, got, what, cls in res["fails"]:
                _record_fail(ctx, stream, case, q, got, what, cls)
    d = ctx.hist.setdefault(stream, {})
    for t, k in tags_total.items():
        d["oracle-fail:" + t] = d.get("oracle-fail:" + t, 0) + k


# ------------------------------------------------------------------------------------------------
# random histories

def gen_dag(rng, n: int, shape: str):
    """parents lists over 0..n-1 with parents < child"""
    P = [[] for _ in range(n)]
    if shape == "random":
        for c in range(1, n):
            k = rng.choice([0, 1, 1, 1, 2, 2, 3]) if c > 1 else rng.choice([0, 1])
            lo = max(0, c - rng.choice([3, 8, 30, n]))
            P[c] = sorted(set(rng.randrange(lo, c) for _ in range(k)))
    elif shape == "crisscross":
        # two (or three) lines that merge each other's previous tips over and over
        w = rng.choice([2, 2, 3])
        tips = list(range(min(w, n)))
        for c in range(len(tips), n):
            i = c % w
            other = tips[(i + 1) % len(tips)]
            P[c] = sorted({tips[i], other}) if rng.random() < 0.8 else [tips[i]]
            tips[i] = c
    elif shape == "octopus":
        for c in range(1, n):
            if c > 6 and rng.random() < 0.25:
                P[c] = sorted(set(rng.randrange(max(0, c - 12), c) for _ in range(rng.randint(3, 6))))
            else:
                P[c] = [rng.randrange(max(0, c - 4), c)]
    elif shape == "multiroot":
        roots = rng.randint(2, 5)
        for c in range(roots, n):
            k = rng.choice([1, 1, 2])
            P[c] = sorted(set(rng.randrange(max(0, c - 10), c) for _ in range(k)))
    elif shape == "branchy":
        # long parallel branches off one trunk, merged late
        tips = [0]
        for c in range(1, n):
            r = rng.random()
            if r < 0.15 and len(tips) < 6:
                P[c] = [rng.choice(tips)]
                tips.append(c)
            elif r < 0.25 and len(tips) > 1:
                a, b = rng.sample(tips, 2)
                P[c] = sorted([a, b])
                tips.remove(a)
                tips.remove(b)
                tips.append(c)
            else:
                i = rng.randrange(len(tips))
                P[c] = [tips[i]]
                tips[i] = c
    else:  # chain
        for c in range(1, n):
            P[c] = [c - 1]
    for c in range(n):   # parent order matters to _topo_reorder and to nothing else
        if len(P[c]) > 1 and rng.random() < 0.5:
            rng.shuffle(P[c])
    return P


def gen_stamps(rng, P, mode: str):
    n = len(P)
    ts = [0] * n
    if mode in ("strict", "skew", "skew1"):
        for c in range(n):
            ts[c] = (max((ts[p] for p in P[c]), default=rng.randint(0, 5)) + rng.randint(1, 4))
        if mode == "skew":
            for _ in range(max(1, n // 10)):
                c = rng.randrange(n)
                ts[c] = max(0, ts[c] + rng.choice([-1, 1]) * rng.choice([1, 2, 5, 50, 1000]))
        elif mode == "skew1":
            c = rng.randrange(n)
            ts[c] = max(0, ts[c] + rng.choice([-1, 1]) * rng.choice([1, 3, 40, 10 ** 6]))
    elif mode == "weak":
        for c in range(n):
            ts[c] = max((ts[p] for p in P[c]), default=0) + rng.choice([0, 0, 1])
    elif mode == "equal":
        ts = [rng.choice([0, 7, 10 ** 9])] * n
    elif mode == "reverse":
        for c in range(n):
            ts[c] = (max((ts[p] for p in P[c]), default=0) + rng.randint(1, 3))
        m = max(ts)
        ts = [m - t for t in ts]
    elif mode == "negative":
        for c in range(n):
            ts[c] = (max((ts[p] for p in P[c]), default=0) + rng.randint(0, 3))
        off = rng.randint(1, max(ts) + 2)
        ts = [t - off for t in ts]
        if rng.random() < 0.5:
            rng.shuffle(ts)
    elif mode == "small":
        ts = [rng.randrange(3) for _ in range(n)]
    else:  # random
        ts = [rng.randrange(max(2, n)) for _ in range(n)]
    return ts


SHAPES = ["random", "random", "crisscross", "crisscross", "octopus", "multiroot", "branchy", "chain"]
STAMPS = ["strict", "strict", "strict", "weak", "equal", "skew", "skew1", "reverse", "small", "random", "negative"]


def gen_hist(rng, big=False):
    if big:
        n = rng.choice([30, 60, 120, 200, 300])
    else:
        n = rng.choice([2, 3, 5, 6, 7, 8, 10, 12, 16, 24])
    shape = rng.choice(SHAPES)
    mode = rng.choice(STAMPS)
    P = gen_dag(rng, n, shape)
    ts = gen_stamps(rng, P, mode)
    return shape, mode, Hist(P, ts)


def pick_ids(rng, h: Hist, k: int, related=True):
    """k commit ids, biased towards the young end and towards related commits"""
    out = []
    for _ in range(k):
        if out and related and rng.random() < 0.4:
            a = h.bits(h.A[rng.choice(out)] | h.D[rng.choice(out)])
            out.append(rng.choice(a))
        else:
            out.append(rng.randrange(h.n) if rng.random() < 0.5 else max(0, h.n - 1 - rng.randrange(min(h.n, 8))))
    return out


def gen_walk_opts(rng, h: Hist, allow_excl=True):
    incl = sorted(set(pick_ids(rng, h, rng.choice([1, 1, 2, 3]))))
    excl = []
    if allow_excl and rng.random() < 0.5:
        excl = sorted(set(pick_ids(rng, h, rng.choice([1, 1, 2]))))
    lo, hi = min(h.ts), max(h.ts)
    lo_ = lo - 1 if lo < 0 else max(0, lo - 1)
    since = rng.randint(lo_, hi + 1) if rng.random() < 0.25 else None
    until = rng.randint(lo_, hi + 1) if rng.random() < 0.25 else None
    mx = rng.choice([0, 1, 2, 3, 5, 6, 7, h.n, h.n + 3]) if rng.random() < 0.3 else None
    return {"incl": incl, "excl": excl, "topo": rng.random() < 0.5, "rev": rng.random() < 0.35, "max": mx,
            "since": since, "until": until}


def _repo_queries(rng, rh: RealHist, nq: int):
    """mixed queries in model (rank) ids"""
    h = rh.hm
    qs = []
    for _ in range(nq):
        k = rng.choice(["M2", "M2", "F", "F", "M3", "I", "O", "W", "W", "W"])
        if k == "M2":
            qs.append(("M", pick_ids(rng, h, 2)))
        elif k == "M3":
            qs.append(("M", pick_ids(rng, h, rng.choice([1, 3, 4]))))
        elif k == "F":
            a, b = pick_ids(rng, h, 2)
            if rng.random() < 0.6 and h.A[b] != 1 << b:
                a = rng.choice(h.bits(h.A[b]))
            qs.append(("F", [a, b]))
        elif k == "I":
            qs.append(("I", pick_ids(rng, h, rng.choice([0, 1, 2, 3, 4, 5]))))
        elif k == "O":
            qs.append(("O", pick_ids(rng, h, rng.choice([0, 1, 2, 3, 3, 4]))))
        else:
            qs.append(("W", gen_walk_opts(rng, h)))
    return qs


def _repo_query_str(q):
    k, a = q
    if k == "W":
        return walk_query(a)
    if k == "F":
        return f"F:{a[0]}:{a[1]}"
    return f"{k}:{showl(a)}"


def _repo_eval(rh: RealHist, q):
    """real answer (model ids) for a query in model ids"""
    from dulwich import graph as G
    k, a = q
    if k == "W":
        return real_walk(rh, a)
    shas = rh.ids(a)
    if k == "M":
        r = real_call(G.find_merge_base, rh.repo, shas)
    elif k == "O":
        r = real_call(G.find_octopus_base, rh.repo, shas)
    elif k == "I":
        r = real_call(G.independent, rh.repo, shas)
    else:
        r = real_call(G.can_fast_forward, rh.repo, shas[0], shas[1])
        return r
    return r if isinstance(r, str) else rh.back(r)


def _show_ans(r):
    if isinstance(r, str):
        return r
    if isinstance(r, bool):
        return "1" if r else "0"
    return showl(r)


def _repo_classify(rh: RealHist, q, got):
    h = rh.hm
    k, a = q
    if k == "W":
        return classify_walk(h, a, got)
    if k == "F":
        return classify_ff(h, a[0], a[1], got)
    if k == "I":
        return classify_independent(h, a, got)
    if k == "O":
        if not a:
            return None if got == [] else (f"got {got} for no ids", None)
        return classify_octopus(h, a, got)
    # find_merge_base
    if not a:
        return None if got == [] else (f"got {got} for no ids", None)
    if isinstance(got, str):
        return f"raised {got}", None
    return classify_lcas(h, a[0], a[1:] or [a[0]], got)


def _run_repo_cases(ctx, stream, items):
    """items: list of (tag, RealHist, queries).  Model vs real functions on real commits + oracle."""
    lines = []
    for tag, rh, qs in items:
        lines.append("c13.q " + rh.hm.enc() + " " + " ".join(_repo_query_str(q) for q in qs))
    outs = ctx.driver.batch(lines) if lines else []
    for (tag, rh, qs), mo in zip(items, outs):
        ms = mo.split(";")
        if len(ms) != len(qs):
            ctx.disagree(stream, {"history": rh.hm.case()}, mo[:200], f"{len(qs)} answers expected", "driver")
            continue
        for q, m in zip(qs, ms):
            got = _repo_eval(rh, q)
            qs_ = _repo_query_str(q)
            ctx.count(stream + "." + q[0], (tuple(map(tuple, rh.hm.P)), tuple(rh.hm.ts), qs_), True,
                      f"{tag}:{q[0]}")
            if _show_ans(got) != m:
                ctx.disagree(stream, {"history": rh.hm.case(), "query": qs_}, m, _show_ans(got), "repo-level")
            r = _repo_classify(rh, q, got)
            if r is not None:
                _record_fail(ctx, stream + "." + q[0], rh.hm.case(), qs_, _show_ans(got), r[0], r[1], rh=rh)
        if len(ctx.samples) < 4 and rh.hm.n >= 4:
            ctx.sample({"stream": stream, "history": rh.hm.enc(), "queries": [_repo_query_str(q) for q in qs][:4],
                        "model": ms[:4]})


def _stream_repo_small(ctx):
    """Every topologically numbered DAG with <= 4 commits x every weak order, as real commits in a MemoryRepo
    (tie order = SHA order): find_merge_base / can_fast_forward for every ordered pair, independent and
    find_octopus_base for every subset, walks with every include and a sample of options."""
    rng = ctx.rng
    items = []
    N = 4
    for n in range(1, N + 1):
        for P in topo_dags(n):
            for ts in weak_orders(n):
                if n == 4 and not ctx.thorough and rng.random() < 0.5:
                    continue
                if rng.random() < 0.2:   # pre-1970 clocks
                    ts = tuple(t - rng.randint(1, 2) for t in ts)
                h0 = Hist(P, ts)
                rh = RealHist(h0, nonce=rng.randrange(4))
                qs = []
                for a in range(n):
                    for b in range(n):
                        qs.append(("F", [a, b]))
                        qs.append(("M", [a, b]))
                for k in range(0, n + 1):
                    for sub in itertools.combinations(range(n), k):
                        if k >= 2 or rng.random() < 0.3:
                            qs.append(("I", list(sub)))
                        if k >= 3:
                            qs.append(("O", list(sub)))
                            for rot in range(k):
                                qs.append(("M", list(sub[rot:] + sub[:rot])))
                for a in range(n):
                    qs.append(("W", {"incl": [a], "excl": [], "topo": False, "rev": False, "max": None,
                                     "since": None, "until": None}))
                    qs.append(("W", {"incl": [a], "excl": [], "topo": True, "rev": rng.random() < 0.5, "max": None,
                                     "since": None, "until": None}))
                    for b in range(n):
                        if a != b and rng.random() < 0.5:
                            qs.append(("W", {"incl": [a], "excl": [b], "topo": rng.random() < 0.5, "rev": False,
                                             "max": None, "since": None, "until": None}))
                for _ in range(2):
                    qs.append(("W", gen_walk_opts(rng, rh.hm)))
                items.append((f"n{n}", rh, qs))
    _run_repo_cases(ctx, "repo.small", items)


def _stream_repo_random(ctx):
    rng = ctx.rng
    items = []
    for _ in range(ctx.budget(220)):
        shape, mode, h = gen_hist(rng, big=False)
        rh = RealHist(h, nonce=rng.randrange(1000))
        items.append((f"{shape}/{mode}", rh, _repo_queries(rng, rh, 14)))
    for _ in range(ctx.budget(36)):
        shape, mode, h = gen_hist(rng, big=True)
        rh = RealHist(h, nonce=rng.randrange(1000))
        items.append((f"big:{shape}/{mode}", rh, _repo_queries(rng, rh, 10)))
    _run_repo_cases(ctx, "repo.random", items)


def _stream_core_random(ctx):
    """raw `_find_lcas` on integer ids (random relabelling = random tie order), explicit min_stamp values,
    negative stamps (correspondence only: the property is about real commit times)."""
    rng = ctx.rng
    lines, meta = [], []
    for _ in range(ctx.budget(300)):
        shape, mode, h0 = gen_hist(rng, big=rng.random() < 0.1)
        pi = list(range(h0.n))
        rng.shuffle(pi)
        P2, t2 = relabel(h0.P, h0.ts, pi)
        neg = rng.random() < 0.15
        if neg:
            off = rng.randint(1, max(1, max(t2)))
            t2 = tuple(t - off for t in t2)
        h = Hist(P2, t2)
        qs = []
        for _ in range(8):
            ids = pick_ids(rng, h, rng.choice([2, 2, 2, 3, 4]))
            m = rng.choice([None, None, h.ts[ids[0]], rng.choice(h.ts), rng.choice(h.ts) + 1, 0, -1, 1])
            qs.append(("L", ids[0], tuple(ids[1:]), m))
        lines.append("c13.q " + h.enc() + " " + " ".join(_q_str(q) for q in qs))
        meta.append((f"{shape}/{mode}{'/neg' if neg else ''}", neg, h, qs))
    outs = ctx.driver.batch(lines)
    for (tag, neg, h, qs), mo in zip(meta, outs):
        ms = mo.split(";")
        for q, m in zip(qs, ms):
            _, c1, c2s, mn = q
            got = impl_lcas(h, c1, c2s, mn)
            ctx.count("core.random", (h.enc(), _q_str(q)), True, tag)
            if _show_ans(got) != m:
                ctx.disagree("core.random", {"history": h.case(), "query": _q_str(q)}, m, _show_ans(got), "_find_lcas")
            if mn is None or mn <= min(h.ts):
                r = classify_raw_lcas(h, c1, c2s, got)
                if r is not None:
                    _record_fail(ctx, "core.random", h.case(), _q_str(q), _show_ans(got), r[0], r[1])


def _stream_topo(ctx):
    """`_topo_reorder` alone on arbitrary entry orders (every permutation of small histories, random
    sublists/orders of larger ones): model vs real, and the oracle (permutation, no parent before a child)."""
    from dulwich.walk import _topo_reorder

    class E:  # minimal WalkEntry
        def __init__(self, c):
            self.commit = c

    class C:
        def __init__(self, i, parents):
            self.id = i
            self.parents = parents
    rng = ctx.rng
    cases = []
    for n in range(1, 5):
        for P in topo_dags(n):
            h = Hist(P, [0] * n)
            for perm in itertools.permutations(range(n)):
                if n == 4 and rng.random() < 0.6 and not ctx.thorough:
                    continue
                cases.append((h, list(perm)))
            for k in range(1, n):
                for sub in itertools.permutations(range(n), k):
                    if rng.random() < 0.15:
                        cases.append((h, list(sub)))
    for _ in range(ctx.budget(150)):
        shape, mode, h = gen_hist(rng, big=rng.random() < 0.2)
        ids = list(range(h.n))
        r = rng.random()
        if r < 0.3:
            rng.shuffle(ids)
        elif r < 0.6:
            ids.reverse()
            for _ in range(rng.randint(0, 5)):
                i, j = rng.randrange(h.n), rng.randrange(h.n)
                ids[i], ids[j] = ids[j], ids[i]
        if rng.random() < 0.3:
            ids = [c for c in ids if rng.random() < 0.7]
        cases.append((h, ids))
    lines = ["c13.q " + h.enc() + " T:" + showl(ent) for h, ent in cases]
    outs = ctx.driver.batch(lines)
    for (h, ent), mo in zip(cases, outs):
        cs = {c: C(c, list(h.P[c])) for c in range(h.n)}
        try:
            with time_limit():
                got = [e.commit.id for e in _topo_reorder(iter([E(cs[c]) for c in ent]))]
        except _Timeout:
            got = "exc:Timeout"
        except Exception as e:  # noqa: BLE001
            got = "exc:" + type(e).__name__
        ctx.count("topo", (h.enc(), tuple(ent)), True, f"n{min(h.n, 5)}{'+' if h.n > 5 else ''}")
        if _show_ans(got) != mo:
            ctx.disagree("topo", {"history": h.case(), "entries": ent}, mo, _show_ans(got), "_topo_reorder")
        what = None
        if isinstance(got, str):
            what = f"raised {got}"
        elif sorted(got) != sorted(ent):
            what = f"output {got} is not a permutation of the input {ent}"
        else:
            pos = {c: i for i, c in enumerate(got)}
            for c in got:
                for p in h.P[c]:
                    if p in pos and pos[p] < pos[c]:
                        what = f"parent {p} before child {c} in {got}"
        if what:
            ctx.oracle_fail("topo", {"history": h.case(), "entries": ent, "got": _show_ans(got)}, what, None)


# ------------------------------------------------------------------------------------------------
# combinations of walker options (order x reverse x max_entries x window x exclude) and the laws between them

def walk_grid(n_reach: int):
    """order x reverse x max_entries in {None, 0, 1, 2, N-1, N, N+1} (N = commits reachable from the includes)"""
    maxes = [None] + sorted({m for m in (0, 1, 2, n_reach - 1, n_reach, n_reach + 1) if m >= 0})
    return [(topo, rev, mx) for topo in (False, True) for rev in (False, True) for mx in maxes]


def check_walk_laws(h: Hist, base: dict, res: dict):
    """Laws between the walks of one (history, include, exclude, since, until) under all (order, reverse,
    max_entries); `res[(topo, rev, max)]` = what the real walker returned.  They hold for every clock:
      reverse      walk(reverse=True) == reversed(walk(reverse=False))   (so the limit is applied before reversing)
      prefix       date order: walk(max_entries=N) == walk(max_entries=None)[:N]
      order-only   topo order yields the same commits as date order under the same other options
                   (Walker limits first and sorts what is left; git -n --topo-order limits the sorted list instead,
                   which dulwich does not document, so only the set is demanded)
    returns [(options, what)]"""
    bad = []

    def opt(k):
        return dict(base, topo=k[0], rev=k[1], max=k[2])
    for (topo, rev, mx), got in res.items():
        if isinstance(got, str):
            continue
        if rev:
            fwd = res.get((topo, False, mx))
            if fwd is not None and not isinstance(fwd, str) and got != list(reversed(fwd)):
                bad.append((opt((topo, rev, mx)), f"reverse=True gives {got}, reversed(reverse=False) is {list(reversed(fwd))}"))
        if not topo and not rev and mx is not None:
            full = res.get((False, False, None))
            if full is not None and not isinstance(full, str) and got != full[:mx]:
                bad.append((opt((topo, rev, mx)), f"max_entries={mx} gives {got}, prefix of the unlimited walk is {full[:mx]}"))
        if topo and not rev:
            date = res.get((False, False, mx))
            if date is not None and not isinstance(date, str) and sorted(got) != sorted(date):
                bad.append((opt((topo, rev, mx)), f"topo order yields {sorted(got)}, date order {sorted(date)}"))
    return bad


def _grid_bases_exhaustive(h: Hist, incl, with_excl=True):
    """every window (none / since=v / until=v for each distinct stamp / one since+until) x every single exclude"""
    vals = sorted(set(h.ts))
    wins = [(None, None)] + [(v, None) for v in vals] + [(None, v) for v in vals]
    if len(vals) >= 2:
        wins.append((vals[0 if len(vals) < 3 else 1], vals[-1 if len(vals) < 3 else -2]))
    excls = [[]] + ([[c] for c in range(h.n) if c not in incl] if with_excl else [])
    return [{"incl": list(incl), "excl": e, "since": s_, "until": u} for (s_, u) in wins for e in excls]


def _run_walk_grid(ctx, stream, items, use_model=True):
    """items: (tag, RealHist, [base option dicts in model ids]).  Every base is expanded over walk_grid; each walk
    goes to the model (correspondence), to the property oracle (classify_walk) and the laws are checked on the
    real results."""
    lines, meta = [], []
    for tag, rh, bases in items:
        h = rh.hm
        qs = []
        for b in bases:
            nr = bin(h.reach(b["incl"])).count("1")
            for (topo, rev, mx) in walk_grid(nr):
                qs.append(dict(b, topo=topo, rev=rev, max=mx))
        if not qs:
            continue
        # the driver reads one line per history; keep lines moderate
        for i in range(0, len(qs), 400):
            chunk = qs[i:i + 400]
            lines.append("c13.q " + h.enc() + " " + " ".join(walk_query(o) for o in chunk))
            meta.append((tag, rh, chunk))
    outs = ctx.driver.batch(lines) if (lines and use_model) else [None] * len(lines)
    for (tag, rh, chunk), mo in zip(meta, outs):
        if len(ctx.oracle_failures) > 200:   # enough concrete cases
            break
        h = rh.hm
        ms = mo.split(";") if mo is not None else [None] * len(chunk)
        if len(ms) != len(chunk):
            ctx.disagree(stream, {"history": h.case()}, str(mo)[:200], f"{len(chunk)} answers expected", "driver")
            continue
        groups = {}
        for o, m in zip(chunk, ms):
            got = real_walk(rh, o)
            qstr = walk_query(o)
            ctx.count(stream, (h.enc(), qstr), True,
                      f"{tag}:{'topo' if o['topo'] else 'date'}:{'rev' if o['rev'] else 'fwd'}:"
                      f"max={'none' if o['max'] is None else 'n'}:{'excl' if o['excl'] else 'noexcl'}:"
                      f"{'win' if (o['since'] is not None or o['until'] is not None) else 'nowin'}")
            if m is not None and _show_ans(got) != m:
                ctx.disagree(stream, {"history": h.case(), "query": qstr}, m, _show_ans(got), "walker-options")
            r = classify_walk(h, o, got)
            if r is not None:
                _record_fail(ctx, stream, h.case(), qstr, _show_ans(got), r[0], r[1], rh=rh)
            key = (tuple(o["incl"]), tuple(o["excl"]), o["since"], o["until"])
            groups.setdefault(key, ({k: o[k] for k in ("incl", "excl", "since", "until")}, {}))[1][
                (o["topo"], o["rev"], o["max"])] = got
        for base, res in groups.values():
            for o, what in check_walk_laws(h, base, res):
                _record_fail(ctx, stream, h.case(), walk_query(o), _show_ans(res[(o["topo"], o["rev"], o["max"])]),
                             "law: " + what, None, rh=rh)


def _grid_histories(rng, thorough=False):
    """linear histories of 1..8 commits and a few small DAGs of 5..8, under clocks that are strictly increasing,
    all equal, running backwards and zig-zag"""
    out = []
    shapes = [("chain", lambda n: [[c - 1] if c else [] for c in range(n)], range(1, 9)),
              ("diamonds", lambda n: [[] if c == 0 else ([c - 1] if c % 3 else sorted({c - 1, c - 3})) for c in range(n)], (5, 7)),
              ("crisscross", lambda n: [[] if c < 2 else sorted({c - 1, c - 2}) for c in range(n)], (5, 6, 8))]
    for name, mk, sizes in shapes:
        for n in sizes:
            P = mk(n)
            clocks = {"strict": list(range(n)), "equal": [3] * n, "backwards": [n - c for c in range(n)],
                      "zigzag": [(c % 2) * 5 + c // 2 for c in range(n)]}
            for cname, ts in clocks.items():
                out.append((f"{name}{n}/{cname}", Hist(P, ts)))
    return out


def _stream_walk_grid(ctx):
    """`walk.grid`: every combination of order x reverse x max_entries, with every window and every single exclude
    on short linear histories and small DAGs; with a sampled window/exclude on all exhaustive small histories and on
    random larger ones."""
    rng = ctx.rng
    items = []
    for tag, h0 in _grid_histories(rng):
        rh = RealHist(h0, nonce=rng.randrange(50))
        tip = rh.rank[h0.n - 1]
        bases = _grid_bases_exhaustive(rh.hm, [tip], with_excl=h0.n <= 6)
        if h0.n >= 3:
            bases += _grid_bases_exhaustive(rh.hm, sorted({tip, rh.rank[h0.n // 2]}), with_excl=False)[:6]
        items.append(("fixed:" + tag.split("/")[1], rh, bases))
    # all exhaustive small histories: the plain base and one sampled window/exclude
    for n in range(1, 5):
        for P in topo_dags(n):
            for ts in weak_orders(n):
                if n == 4 and not ctx.thorough and rng.random() < 0.75:
                    continue
                rh = RealHist(Hist(P, ts), nonce=rng.randrange(4))
                h = rh.hm
                tip = rh.rank[n - 1]
                bases = [{"incl": [tip], "excl": [], "since": None, "until": None}]
                o = gen_walk_opts(rng, h)
                if o["since"] is None and o["until"] is None and not o["excl"]:
                    o["until"] = rng.choice(h.ts)
                bases.append({k: o[k] for k in ("incl", "excl", "since", "until")})
                items.append((f"small:n{n}", rh, bases))
    for _ in range(ctx.budget(60)):
        shape, mode, h = gen_hist(rng, big=rng.random() < 0.15)
        rh = RealHist(h, nonce=rng.randrange(1000))
        o = gen_walk_opts(rng, rh.hm)
        items.append((f"random:{mode}", rh, [{k: o[k] for k in ("incl", "excl", "since", "until")}]))
    _run_walk_grid(ctx, "walk.grid", items)


# ------------------------------------------------------------------------------------------------
# walks with excludes on tied commit times (histories longer than the exhaustive bound)

def gen_tie_history(rng, k=None, a=None, t=None, shape=None, stamps=None):
    """A history in which an excluded tip X sits `k` commits above a commit B that the included tip Y also
    reaches (over `a` commits), with `t` commits below B; weakly monotone stamps with long runs of equal ones.
    Returns (Hist, Y, X, B, tag)."""
    k = rng.randint(5, 12) if k is None else k
    a = rng.choice([0, 0, 1, 2, 3]) if a is None else a
    t = rng.choice([0, 0, 1, 3, 6]) if t is None else t
    shape = shape or rng.choice(["fork", "fork", "dag", "dag", "two-excl", "cross"])
    stamps = stamps or rng.choice(["all-equal", "all-equal", "blocks", "excl-equal", "incl-newer"])
    P = []

    def new(parents):
        P.append(list(parents))
        return len(P) - 1
    # below B
    tail = []
    prev = None
    for _ in range(t):
        prev = new([prev] if prev is not None else [])
        tail.append(prev)
    if shape == "dag" and len(tail) >= 3:
        P[tail[-1]].append(tail[0])          # a merge below B
    B = new([prev] if prev is not None else [])
    # excluded side: X -> x1 -> ... -> xk -> B
    cur = B
    chain = []
    for i in range(k):
        cur = new([cur])
        chain.append(cur)
        if shape == "dag" and i >= 2 and rng.random() < 0.3:
            side = new([chain[rng.randrange(0, i)]])      # a side branch merged back into the chain
            P[cur].append(side)
    X = new([cur])
    # included side: Y -> y1 -> ... -> ya -> B
    cur = B
    inc = []
    for _ in range(a):
        cur = new([cur])
        inc.append(cur)
    ypar = [cur]
    if shape == "cross" and chain:
        ypar.append(chain[rng.randrange(len(chain))])     # Y also merges a commit of the excluded side
    Y = new(ypar)
    X2 = None
    if shape == "two-excl" and chain:
        X2 = new([chain[rng.randrange(len(chain))]])      # a second excluded tip lower on the same side
    n = len(P)
    ts = [0] * n
    base = rng.choice([0, 7, 10 ** 9])
    if stamps == "all-equal":
        ts = [base] * n
    elif stamps == "blocks":
        for c in range(n):     # parents have smaller numbers
            ts[c] = max((ts[p] for p in P[c]), default=base) + (1 if rng.random() < 0.15 else 0)
    elif stamps == "excl-equal":   # everything at or below X equal; the included side strictly newer
        ts = [base] * n
        for i, c in enumerate(inc + [Y]):
            ts[c] = base + 1 + i
    else:                          # incl-newer: Y alone is newer, the rest equal
        ts = [base] * n
        ts[Y] = base + 5
    h = Hist(P, ts)
    return h, Y, X, B, X2, f"{shape}/{stamps}"


def _tie_variants(h: Hist, Y, X, B, rng, want=4, tries=24):
    """the same history as real commits under several nonces, so that the SHA order of the tied commits varies:
    keep one per combination of (Y before X, B before X) in id order — both orders of the critical pairs"""
    seen = {}
    for _ in range(tries):
        rh = RealHist(h, nonce=rng.randrange(10 ** 6))
        key = (rh.rank[Y] < rh.rank[X], rh.rank[B] < rh.rank[X])
        if key not in seen:
            seen[key] = rh
            if len(seen) >= want:
                break
    return list(seen.items())


def _tie_queries(rng, rh: RealHist, Y, X, B, X2, full=False):
    r = rh.rank
    excl = [r[X]] + ([r[X2]] if X2 is not None else [])
    base = {"incl": [r[Y]], "excl": excl, "topo": False, "rev": False, "max": None, "since": None, "until": None}
    qs = [("W", dict(base)), ("W", dict(base, topo=True))]
    extra = [dict(base, rev=True), dict(base, topo=True, rev=True), dict(base, max=rng.choice([1, 2, 3, 50])),
             dict(base, incl=[r[Y], r[B]]), dict(base, excl=[r[X]]),
             dict(base, incl=[r[X]], excl=[r[Y]]), dict(base, excl=excl + [r[B]])]
    if full:
        qs += [("W", e) for e in extra]
    else:
        qs += [("W", e) for e in rng.sample(extra, 2)]
    return qs


def _stream_walk_ties(ctx):
    """`walk.ties`: excludes + tied stamps + long chains below the excluded tip + both id orders of the critical
    commits: model vs real walker, and the real walker vs Reach(include) minus Reach(exclude) (stamps are weakly
    monotone, so the property claims exactness)."""
    rng = ctx.rng
    items = []
    # deterministic core: every distance 4..12 of the excluded tip above the shared commit, all stamps equal
    for k in range(4, 13):
        for a in (0, 2):
            for t in (0, 2):
                h, Y, X, B, X2, tag = gen_tie_history(rng, k=k, a=a, t=t, shape="fork", stamps="all-equal")
                for key, rh in _tie_variants(h, Y, X, B, rng):
                    items.append((f"walk.ties:{tag}:Y<X={int(key[0])}:B<X={int(key[1])}", rh,
                                  _tie_queries(rng, rh, Y, X, B, X2, full=(a == 0 and t == 0))))
    for _ in range(ctx.budget(120)):
        h, Y, X, B, X2, tag = gen_tie_history(rng)
        for key, rh in _tie_variants(h, Y, X, B, rng, want=rng.choice([2, 4])):
            items.append((f"walk.ties:{tag}:Y<X={int(key[0])}:B<X={int(key[1])}", rh,
                          _tie_queries(rng, rh, Y, X, B, X2)))
    _run_repo_cases(ctx, "walk.ties", items)


# ------------------------------------------------------------------------------------------------
# C git as a third party

class GitHist:
    """the history written to a bare repository on disk (loose objects), for C git and for dulwich's Repo"""

    def __init__(self, ctx, h: Hist, idx: int):
        from dulwich.repo import Repo
        from dulwich.objects import Tree
        self.path = ctx.scratch / f"git{idx}"
        self.path.mkdir(parents=True, exist_ok=True)
        self.repo = Repo.init_bare(str(self.path))
        self.repo.object_store.add_object(Tree())
        self.rh = RealHist(h, nonce=idx, repo=self.repo)
        self.env = core.clean_env()

    def git(self, *args):
        p = subprocess.run(["git", "-C", str(self.path)] + list(args), env=self.env, stdout=subprocess.PIPE,
                           stderr=subprocess.PIPE, timeout=120)
        return p.returncode, p.stdout.decode().split(), p.stderr.decode()[-300:]

    def close(self):
        self.repo.close()


def _stream_git(ctx):
    """dulwich on a disk repository vs C git (`merge-base --all / --is-ancestor / --independent / --octopus`,
    `rev-list [--topo-order]`) vs the graph answer."""
    rng = ctx.rng
    nh = ctx.budget(10, mult=6)
    nq = 14
    notes = {}
    for idx in range(nh):
        shape, mode, h0 = gen_hist(rng, big=rng.random() < 0.25)
        while min(h0.ts) < 0:   # C git reads commit times as unsigned
            shape, mode, h0 = gen_hist(rng, big=rng.random() < 0.25)
        tie = None
        if idx >= 2 and idx % 2 == 0:   # every other history: excludes on tied stamps (walk.ties family)
            h0, tY, tX, tB, tX2, mode = gen_tie_history(rng)
            shape, tie = "ties", (tY, tX, tB, tX2)
        if idx == 0:   # the two F14 witnesses always go to git as well
            h0, shape, mode = Hist([[], [0], [1], [0, 2]], [5, 5, 5, 5]), "F14", "equal"
        if idx == 1:
            h0, shape, mode = Hist([[], [0], [1]], [1, 0, 0]), "F14", "skew"
        gh = GitHist(ctx, h0, idx)
        try:
            rh = gh.rh
            h = rh.hm
            sha = {r: s.decode() for s, r in rh.of_sha.items()}
            back = lambda toks: [rh.of_sha[t.encode()] for t in toks]
            qs = _repo_queries(rng, rh, nq)
            if tie is not None:
                qs += _tie_queries(rng, rh, *tie, full=True)
            if shape == "F14":
                top = max(range(h.n), key=lambda c: bin(h.A[c]).count("1"))
                for c in range(h.n):
                    qs += [("F", [c, top]), ("M", [c, top]), ("M", [top, c])]
                qs.append(("I", list(range(h.n))))
            for q in qs:
                k, a = q
                got = _repo_eval(rh, q)
                qstr = _repo_query_str(q)
                gitans = None
                if k == "M" and len(a) >= 2:
                    rc, out, err = gh.git("merge-base", "--all", *[sha[c] for c in a])
                    gitans = set(back(out)) if rc in (0, 1) else None
                    truth = h.lcas(a[0], a[1:])
                elif k == "O" and len(a) >= 1:
                    rc, out, err = gh.git("merge-base", "--octopus", "--all", *[sha[c] for c in a])
                    gitans = set(back(out)) if rc in (0, 1) else None
                    truth = h.octopus(a)
                elif k == "I" and len(a) >= 1:
                    rc, out, err = gh.git("merge-base", "--independent", *[sha[c] for c in a])
                    gitans = set(back(out)) if rc == 0 else None
                    truth = h.independent(a)
                elif k == "F":
                    rc, out, err = gh.git("merge-base", "--is-ancestor", sha[a[0]], sha[a[1]])
                    gitans = (rc == 0) if rc in (0, 1) else None
                    truth = h.is_anc(a[0], a[1])
                elif k == "W":
                    o = a
                    args = ["rev-list"]
                    if o["topo"]:
                        args.append("--topo-order")
                    if o["rev"]:
                        args.append("--reverse")
                    if o["since"] is not None:
                        args.append(f"--max-age={o['since']}")
                    if o["until"] is not None:
                        args.append(f"--min-age={o['until']}")
                    if o["max"] is not None:
                        # -n N: git too limits before --reverse (the N newest, reversed).  With --topo-order git
                        # limits the sorted list while Walker sorts the limited one: not compared.  With tied stamps
                        # "the N newest" is not unique: only distinct stamps, no excludes / since.
                        if o["topo"] or o["excl"] or o["since"] is not None or len(set(h.ts)) != h.n:
                            continue
                        args += ["-n", str(o["max"])]
                    args += [sha[c] for c in o["incl"]] + ["^" + sha[c] for c in o["excl"]]
                    rc, out, err = gh.git(*args)
                    gitans = back(out) if rc == 0 else None
                    truth = None
                else:
                    continue
                ctx.count("git." + k, (h.enc(), qstr), True, f"{shape}/{mode}")
                if gitans is None:
                    notes["git failed: " + err[:80]] = notes.get("git failed: " + err[:80], 0) + 1
                    continue
                r = _repo_classify(rh, q, got)
                if k == "W":
                    # git is compared where the property claims exactness; order: identical when all stamps
                    # are distinct and no excludes/window (both pop the newest pending commit)
                    exact = (not a["excl"] and a["since"] is None) or not h.nonmono_edge(
                        h.reach(a["incl"]) | h.reach(a["excl"]), strict=False)
                    if r is None and exact and not isinstance(got, str):
                        if set(got) != set(gitans):
                            ctx.oracle_fail("git.W", {"history": h.case(), "query": qstr, "got": showl(got),
                                                      "git": showl(gitans)}, "walk differs from git rev-list as a set", None)
                        elif not a["topo"] and not a["excl"] and a["since"] is None \
                                and len(set(h.ts)) == h.n and got != gitans:
                            ctx.oracle_fail("git.W", {"history": h.case(), "query": qstr, "got": showl(got),
                                                      "git": showl(gitans)}, "date order differs from git rev-list", None)
                    elif r is not None:
                        _record_fail(ctx, "git.W", h.case(), qstr, _show_ans(got), r[0], r[1], rh=rh)
                    continue
                if gitans != truth:
                    key = f"C git deviates from the graph answer on {k}"
                    notes[key] = notes.get(key, 0) + 1
                    continue
                gotv = got if isinstance(got, (str, bool)) else set(got)
                if gotv != gitans:
                    if r is None and k == "I":
                        continue
                    what, cls = r if r is not None else (f"dulwich {got} vs git {gitans}", None)
                    _record_fail(ctx, "git." + k, h.case(), qstr, _show_ans(got), "disagrees with C git: " + what, cls, rh=rh)
        finally:
            gh.close()
    for k, v in notes.items():
        ctx.notes.append(f"{k} ({v}x)")


# ------------------------------------------------------------------------------------------------
# corpus / run / search / replay

def _eval_case(ctx, stream, c: dict):
    """one stored case: {"parents","ts","query", "level": "core"|"repo"}; returns (model, impl, classification)"""
    h = Hist(c["parents"], c["ts"])
    q = c["query"]
    if c.get("level", "core") == "core":
        parts = q.split(":")
        c1 = int(parts[1])
        c2s = [int(x) for x in parts[2].split(",")] if parts[2] != "-" else []
        mn = None if parts[3] == "d" else int(parts[3])
        got = impl_lcas(h, c1, c2s, mn)
        r = classify_raw_lcas(h, c1, c2s, got) if mn is None else None
        mo = ctx.driver.batch(["c13.q " + h.enc() + " " + q])[0]
        return mo, _show_ans(got), r, h.case()
    rh = RealHist(h, nonce=c.get("nonce", 0))
    # translate the query (given in the ids of `h`) to rank ids
    parts = q.split(":")
    k = parts[0]
    ids = [rh.rank[int(x)] for x in parts[1].split(",")] if parts[1] != "-" else []
    if k == "F":
        qq = ("F", [rh.rank[int(parts[1])], rh.rank[int(parts[2])]])
    else:
        qq = (k, ids)
    got = _repo_eval(rh, qq)
    r = _repo_classify(rh, qq, got)
    mo = ctx.driver.batch(["c13.q " + rh.hm.enc() + " " + _repo_query_str(qq)])[0]
    return mo, _show_ans(got), r, rh.hm.case()


def _run_corpus(ctx):
    d = core.VERIF / "corpus" / PROP
    if not d.exists():
        return
    for f in sorted(d.glob("*.json")):
        c = json.loads(f.read_text())
        mo, got, r, case = _eval_case(ctx, "corpus", c)
        ctx.count("corpus", f.stem, True, f.stem)
        if mo != got:
            ctx.disagree("corpus", {"file": f.name, **c}, mo, got, c.get("level", "core"))
        if r is not None:
            _record_fail(ctx, "corpus", case, c["query"], got, r[0], r[1])
        elif c.get("expect_fail"):
            ctx.notes.append(f"corpus witness {f.name} no longer fails")


def run(ctx: core.Ctx):
    ctx.assumptions += [
        "histories are closed (every parent id is a commit in the store): missing commits, shallow boundaries, "
        "grafts and the commit-graph file are not modelled (C14 covers acceleration data)",
        "commit ids are totally ordered; the model breaks heap ties by that order (harness numbers commits by SHA rank)",
        "Walker paths/follow/rename detection are not modelled or exercised; since/until/max_entries/exclude/"
        "order/reverse are",
        "walks with excludes or `since` are claimed exact only for monotone stamps (parent <= child), as the property says",
        "the model is the code after the C13 fix series (min_stamp=None default, `c1 in lcas`, _remove_redundant, "
        "dict.fromkeys in independent); the translator refuses any other shape of these callers",
    ]
    t0 = time.time()
    _run_corpus(ctx)
    _stream_small(ctx)
    t1 = time.time()
    _stream_repo_small(ctx)
    t2 = time.time()
    _stream_core_random(ctx)
    _stream_repo_random(ctx)
    t3 = time.time()
    _stream_topo(ctx)
    _stream_walk_ties(ctx)
    _stream_walk_grid(ctx)
    _stream_git(ctx)
    t4 = time.time()
    ctx.extra_cov["stream_wall_s"] = {"small.lcas": round(t1 - t0, 1), "repo.small": round(t2 - t1, 1),
                                      "random": round(t3 - t2, 1), "topo+git": round(t4 - t3, 1)}
    ctx.extra_cov["c_git_comparisons"] = sum(v for k, v in ctx.streams.items() if k.startswith("git."))


def _search_ties(ctx):
    """oracle only: the deterministic core of the walk.ties family"""
    rng = ctx.rng
    for k in range(4, 13):
        h, Y, X, B, X2, tag = gen_tie_history(rng, k=k, a=0, t=0, shape="fork", stamps="all-equal")
        for key, rh in _tie_variants(h, Y, X, B, rng):
            for q in _tie_queries(rng, rh, Y, X, B, X2, full=True):
                got = _repo_eval(rh, q)
                r = _repo_classify(rh, q, got)
                if r:
                    _record_fail(ctx, "search.walk.ties", rh.hm.case(), _repo_query_str(q), _show_ans(got), r[0], r[1], rh=rh)


def search(ctx: core.Ctx):
    """Failing-input search after a broken obligation / correspondence: the direct oracle on inputs where the
    property is claimed without any known exception — strictly monotone stamps — exhaustively for <= 5 commits,
    then many more random histories."""
    from dulwich import graph as G  # noqa: F401
    rng = ctx.rng
    # 0. walker: every combination of order x reverse x max_entries x window x single exclude on short linear
    #    histories and small DAGs (oracle: the property's words + the laws between option combinations; no model)
    items = []
    for tag, h0 in _grid_histories(rng):
        rh = RealHist(h0, nonce=rng.randrange(50))
        tip = rh.rank[h0.n - 1]
        items.append(("search:" + tag.split("/")[1], rh, _grid_bases_exhaustive(rh.hm, [tip], with_excl=h0.n <= 6)))
    _run_walk_grid(ctx, "search.walk.grid", items, use_model=False)
    _search_ties(ctx)
    if ctx.oracle_failures:
        return
    # 1. every DAG with <= 5 commits, stamps = a strictly monotone assignment (depth-based and index-based),
    #    both tie orders irrelevant (no ties along edges; unrelated commits may tie)
    for n in range(1, 6):
        for P in topo_dags(n):
            depth = [0] * n
            for c in range(n):
                depth[c] = 1 + max((depth[p] for p in P[c]), default=0)
            for ts in (list(range(n)), depth):
                for pi in (tuple(range(n)), tuple(reversed(range(n)))):
                    P2, t2 = relabel(P, ts, pi)
                    h = Hist(P2, t2)
                    for c1 in range(n):
                        for c2 in range(n):
                            got = impl_lcas(h, c1, [c2])
                            r = classify_raw_lcas(h, c1, [c2], got)
                            if r:
                                _record_fail(ctx, "search.lcas", h.case(), f"L:{c1}:{c2}:d", _show_ans(got), r[0], r[1])
                            r = classify_ff(h, c1, c2, got if isinstance(got, str) else c1 in got)
                            if r:
                                _record_fail(ctx, "search.ff", h.case(), f"L:{c1}:{c2}:d", _show_ans(got), r[0], r[1])
                    if len(ctx.oracle_failures) > 20:
                        return
    if ctx.oracle_failures:
        return
    # 2. repo level, monotone stamps, many histories
    for _ in range(ctx.budget(600)):
        shape = rng.choice(SHAPES)
        n = rng.choice([3, 4, 5, 6, 8, 12, 20, 40, 100])
        P = gen_dag(rng, n, shape)
        ts = gen_stamps(rng, P, rng.choice(["strict", "strict", "weak"]))
        rh = RealHist(Hist(P, ts), nonce=rng.randrange(1000))
        for q in _repo_queries(rng, rh, 12):
            got = _repo_eval(rh, q)
            r = _repo_classify(rh, q, got)
            if r:
                _record_fail(ctx, "search.repo." + q[0], rh.hm.case(), _repo_query_str(q), _show_ans(got), r[0], r[1], rh=rh)
        if len(ctx.oracle_failures) > 20:
            return
    # 3. topo reorder / walk on the disagreeing cases themselves
    for dgr in ctx.disagreements:
        c = dgr["case"]
        if "history" in c and "query" in c and c["query"].split(":")[0] in ("M", "F", "I", "O", "W"):
            pass  # already covered by the oracle in the stream that produced the disagreement


def replay(ctx: core.Ctx, data: dict) -> int:
    c = data.get("case", {})
    hist = c.get("history") or {"parents": c.get("parents"), "ts": c.get("ts")}
    q = c.get("query")
    print("replaying", json.dumps({"history": hist, "query": q})[:600])
    if "entries" in c:
        from dulwich.walk import _topo_reorder

        class E:
            def __init__(self, cm):
                self.commit = cm

        class C:
            def __init__(self, i, parents):
                self.id = i
                self.parents = parents
        h = Hist(hist["parents"], hist["ts"])
        cs = {i: C(i, list(h.P[i])) for i in range(h.n)}
        got = [e.commit.id for e in _topo_reorder(iter([E(cs[i]) for i in c["entries"]]))]
        pos = {x: i for i, x in enumerate(got)}
        bad = sorted(got) != sorted(c["entries"]) or any(p in pos and pos[p] < pos[x] for x in got for p in h.P[x])
        print("real _topo_reorder ->", got)
        if bad:
            print(f"VIOLATION property={PROP} replay={data.get('_path', '<replayed>')}")
            return 1
        print("replay: property holds on this case")
        return 0
    h = Hist(hist["parents"], hist["ts"])
    k = q.split(":")[0]
    if k in ("L", "S"):
        parts = q.split(":")
        c1 = int(parts[1])
        c2s = [int(x) for x in parts[2].split(",")] if parts[2] != "-" else []
        mn = None if parts[3] == "d" else int(parts[3])
        got = impl_lcas(h, c1, c2s, mn)
        print("real _find_lcas ->", got, "| graph answer:", sorted(h.lcas(c1, c2s)),
              "| c1 ancestor of c2:", [h.is_anc(c1, x) for x in c2s])
        r = None
        if mn is None:
            r = classify_raw_lcas(h, c1, c2s, got)
            if r is None and len(c2s) == 1:
                r = classify_ff(h, c1, c2s[0], got if isinstance(got, str) else c1 in got)
        else:
            print("explicit min_stamp: correspondence only, no oracle")
    else:
        # repo level: ids in the stored history are SHA ranks of the commits that were built then
        rh = None
        if "orig" in c:
            o = c["orig"]
            cand = RealHist(Hist(o["parents"], o["ts"]), nonce=o["nonce"])
            if [list(p) for p in cand.hm.P] == [list(p) for p in h.P] and list(cand.hm.ts) == list(h.ts):
                rh = cand
                h = rh.hm
                ident = True
        if rh is None:
            ident = False
            for nonce in range(300):
                cand = RealHist(h, nonce=nonce)
                if cand.rank == list(range(h.n)):
                    rh = cand
                    break
        if rh is None:
            rh = RealHist(h, nonce=0)
            print("note: could not reproduce the SHA order of the stored case; heap ties may resolve differently")
        parts = q.split(":")
        rk = (lambda x: x) if ident else (lambda x: rh.rank[x])
        f = lambda s: [rk(int(x)) for x in s.split(",")] if s != "-" else []
        if k == "W":
            g = lambda s: None if s == "n" else int(s)
            qq = ("W", {"incl": f(parts[1]), "excl": f(parts[2]), "topo": parts[3] == "1", "rev": parts[4] == "1",
                        "max": g(parts[5]), "since": g(parts[6]), "until": g(parts[7])})
        elif k == "F":
            qq = ("F", [rk(int(parts[1])), rk(int(parts[2]))])
        else:
            qq = (k, f(parts[1]))
        got = _repo_eval(rh, qq)
        print("real ->", _show_ans(got))
        r = _repo_classify(rh, qq, got)
    if r is not None:
        print("oracle:", r[0], "| class:", r[1])
        known = {k_.get("match", {}).get("class") for k_ in ctx.known}
        if r[1] in known:
            print(f"KNOWN-FINDING: property={PROP} class={r[1]}")
            return 0
        print(f"VIOLATION property={PROP} replay={data.get('_path', '<replayed>')}")
        return 1
    print("replay: property holds on this case")
    return 0
