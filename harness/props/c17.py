"""C17 — checkout never writes outside the work tree or into .git.

Model: lean/DulwichModel/Model/PathSafe.lean (element validators, validate_path, cleanup_mode) and
Model/Checkout.lean (abstract file system with symlinks, verify_leading_dirs with the safe_prefix cache,
build_file_from_blob, build_index_from_tree); theorems: Props/C17.lean.
Tie: translate() regenerates Gen/PathSafe.lean (INVALID_DOTNAMES, HFS_IGNORABLE_CHARS, every literal of
_is_ntfs_dotgit / _normalize_path_element_ntfs / validate_path / cleanup_mode / the validator defaults);
run() drives (a) the exhaustive validator correspondence, (b) the build_index_from_tree correspondence on
an abstract-vs-real file system, and (c) the direct oracle: sequences of hostile trees materialised through
the real entry points in a sandbox with canaries, snapshot before/after.
"""
from __future__ import annotations

import ast
import hashlib
import itertools
import json
import os
import re
import shutil
import stat
from pathlib import Path

from .. import core, translate as T
from ..core import hx, unhx

MOD = "c17"


# ------------------------------------------------------------------------------------------------
# translator

def _consts_in_order(node: ast.AST, skip_doc=True) -> list:
    """bytes / int (not bool) constants of a function body in source order (docstring skipped)."""
    body = list(node.body)
    if skip_doc and body and isinstance(body[0], ast.Expr) and isinstance(body[0].value, ast.Constant) \
            and isinstance(body[0].value.value, str):
        body = body[1:]
    out = []
    for st in body:
        for n in ast.walk(st):
            if isinstance(n, ast.Constant) and isinstance(n.value, (bytes, int)) and not isinstance(n.value, bool):
                out.append((n.lineno, n.col_offset, n.value))
    return [v for _, _, v in sorted(out)]


def _shape(vals) -> str:
    return "".join("b" if isinstance(v, bytes) else "i" for v in vals)


def _get_boolean_default(func: ast.AST, key: bytes):
    """the default argument of `config.get_boolean(b"core", <key>, <default>)` inside func, as source text."""
    for n in ast.walk(func):
        if isinstance(n, ast.Call) and isinstance(n.func, ast.Attribute) and n.func.attr == "get_boolean" \
                and len(n.args) == 3 and isinstance(n.args[1], ast.Constant) and n.args[1].value == key:
            return n.args[2]
    raise T.TranslateError(f"get_boolean(b'core', {key!r}, default) not found")


def translate(repo: Path) -> dict:
    tree = T.module_ast(repo / "dulwich" / "index.py")
    dotnames = T.const_value(tree, "INVALID_DOTNAMES")
    if not isinstance(dotnames, tuple) or not all(isinstance(x, bytes) for x in dotnames):
        raise T.TranslateError(f"INVALID_DOTNAMES is not a tuple of bytes: {dotnames!r}")
    hfs = T.const_value(tree, "HFS_IGNORABLE_CHARS")
    if not isinstance(hfs, (set, frozenset)) or not all(isinstance(x, int) for x in hfs):
        raise T.TranslateError("HFS_IGNORABLE_CHARS is not a set of ints")

    # _normalize_path_element_default: element.lower()
    nd = T.find_def(tree, "_normalize_path_element_default")
    ret = [n for n in ast.walk(nd) if isinstance(n, ast.Return)]
    if len(ret) != 1 or ast.unparse(ret[0].value) != "element.lower()":
        raise T.TranslateError("_normalize_path_element_default is not `return element.lower()`")
    # validate_path_element_default: normalize(element) not in INVALID_DOTNAMES
    vd = T.find_def(tree, "validate_path_element_default")
    ret = [n for n in ast.walk(vd) if isinstance(n, ast.Return)]
    if len(ret) != 1 or ast.unparse(ret[0].value) != "_normalize_path_element_default(element) not in INVALID_DOTNAMES":
        raise T.TranslateError("validate_path_element_default has an unexpected body")
    # _normalize_path_element_ntfs: element.rstrip(b". ").lower()
    nn = T.find_def(tree, "_normalize_path_element_ntfs")
    ret = [n for n in ast.walk(nn) if isinstance(n, ast.Return)]
    m = re.fullmatch(r"element\.rstrip\((b'[^']*')\)\.lower\(\)", ast.unparse(ret[0].value)) if len(ret) == 1 else None
    if not m:
        raise T.TranslateError("_normalize_path_element_ntfs is not `element.rstrip(b'..').lower()`")
    ntfs_strip = ast.literal_eval(m.group(1))

    # _is_ntfs_dotgit: all literals in source order
    dg = T.find_def(tree, "_is_ntfs_dotgit")
    c = _consts_in_order(dg)
    want = "ibiibiibiibiibiibbbi"
    if _shape(c) != want:
        raise T.TranslateError(f"_is_ntfs_dotgit: literal shape {_shape(c)} != {want}: {c!r}")
    (a0, cdot, s1, e1, cgit, i4, a1, cg, s2, e2, cit, s3, e3, ctil, i5, w, ccolon, cdot2, cspace, step) = c
    if (a0, a1, w, step) != (1, 1, 1, 1):
        raise T.TranslateError(f"_is_ntfs_dotgit: unexpected one-byte slices/steps {(a0, a1, w, step)}")
    for lit in (cdot, cg, ccolon, cdot2, cspace):
        if len(lit) != 1:
            raise T.TranslateError(f"_is_ntfs_dotgit: expected single-byte literal, got {lit!r}")

    # validate_path_element_ntfs: split byte, order of tests
    vn = T.find_def(tree, "validate_path_element_ntfs")
    src_vn = ast.unparse(vn)
    m = re.search(r"for segment in element\.split\((b'[^']*')\):\n\s+if _is_ntfs_dotgit\(segment\):\n\s+return False", src_vn)
    if not m:
        raise T.TranslateError("validate_path_element_ntfs: segment loop not found")
    seg_sep = ast.literal_eval(m.group(1))
    if len(seg_sep) != 1:
        raise T.TranslateError("validate_path_element_ntfs: segment separator is not one byte")
    if "normalized = _normalize_path_element_ntfs(element)\n    if normalized in INVALID_DOTNAMES:\n        return False" not in src_vn:
        raise T.TranslateError("validate_path_element_ntfs: INVALID_DOTNAMES test not found")
    nt_guards = len(re.findall(r"os\.name == 'nt' and", src_vn))

    # validate_path_element_hfs
    vh = T.find_def(tree, "validate_path_element_hfs")
    src_vh = ast.unparse(vh)
    m = re.search(r"if normalized == (b'[^']*'):\n\s+return False", src_vh)
    if not m or "if normalized in INVALID_DOTNAMES:\n        return False" not in src_vh \
            or "except UnicodeDecodeError:\n        return False" not in src_vh:
        raise T.TranslateError("validate_path_element_hfs has an unexpected body")
    hfs_short = ast.literal_eval(m.group(1))
    nh = T.find_def(tree, "_normalize_path_element_hfs")
    src_nh = ast.unparse(nh)
    for frag in ("element.decode('utf-8', errors='strict')", "if ord(c) not in HFS_IGNORABLE_CHARS",
                 "unicodedata.normalize('NFD', filtered)", "normalized.lower().encode('utf-8', errors='strict')"):
        if frag not in src_nh:
            raise T.TranslateError(f"_normalize_path_element_hfs: `{frag}` not found")

    # validate_path: split byte
    vp = T.find_def(tree, "validate_path")
    m = re.search(r"parts = path\.split\((b'[^']*')\)\n\s+for p in parts:\n\s+if not element_validator\(p\):\n\s+return False",
                  ast.unparse(vp))
    if not m:
        raise T.TranslateError("validate_path: split/for loop not found")
    path_sep = ast.literal_eval(m.group(1))
    if len(path_sep) != 1:
        raise T.TranslateError("validate_path: separator is not one byte")

    # get_path_element_validator: defaults
    gv = T.find_def(tree, "get_path_element_validator")
    d_ntfs = ast.unparse(_get_boolean_default(gv, b"protectNTFS"))
    d_hfs = ast.unparse(_get_boolean_default(gv, b"protectHFS"))
    if d_ntfs not in ("True", "False"):
        raise T.TranslateError(f"protectNTFS default is not a literal: {d_ntfs}")
    if d_hfs != "sys.platform == 'darwin'":
        raise T.TranslateError(f"protectHFS default changed: {d_hfs}")

    # cleanup_mode
    cm = T.find_def(tree, "cleanup_mode")
    src_cm = ast.unparse(cm)
    m = re.search(r"ret = stat\.S_IFREG \| (\d+)\n\s+if mode & (\d+):\n\s+ret \|= (\d+)\n\s+return ret", src_cm)
    if not m:
        raise T.TranslateError("cleanup_mode: regular-file branch not found")
    cm_base, cm_test, cm_or = (int(x) for x in m.groups())
    # build_file_from_blob: chmod(target_path, cleanup_mode(mode)) is the only chmod
    bf = T.find_def(tree, "build_file_from_blob")
    chmods = [ast.unparse(n) for n in ast.walk(bf) if isinstance(n, ast.Call) and ast.unparse(n.func) == "os.chmod"]
    if chmods != ["os.chmod(target_path, cleanup_mode(mode))"]:
        raise T.TranslateError(f"build_file_from_blob: chmod calls changed: {chmods}")

    # sequence of guarded calls in build_index_from_tree's loop (order matters for the model)
    bi = T.find_def(tree, "build_index_from_tree")
    calls = []
    for n in ast.walk(bi):
        if isinstance(n, ast.Call):
            f = ast.unparse(n.func)
            if f in ("validate_path", "verify_leading_dirs", "_tree_to_fs_path", "os.makedirs", "os.mkdir",
                     "build_file_from_blob", "os.path.isdir", "os.path.exists"):
                calls.append((n.lineno, n.col_offset, f))
    order = [f for _, _, f in sorted(calls)]
    want_order = ["validate_path", "verify_leading_dirs", "_tree_to_fs_path", "os.path.exists", "os.makedirs",
                  "os.path.isdir", "os.mkdir", "build_file_from_blob"]
    if order != want_order:
        raise T.TranslateError(f"build_index_from_tree: call order {order} != {want_order}")
    # verify_leading_dirs: literals (separator, `slash <= 0`)
    vl = T.find_def(tree, "verify_leading_dirs")
    src_vl = ast.unparse(vl)
    for frag in ("slash = tree_path.rfind(b'/')", "if slash <= 0:\n        return", "components = tree_path[:slash].split(b'/')",
                 "del safe_prefix[common:]", "except FileNotFoundError:\n            break",
                 "if stat.S_ISLNK(st.st_mode):\n            raise InvalidPathError(tree_path)", "safe_prefix.append(part)"):
        if frag not in src_vl:
            raise T.TranslateError(f"verify_leading_dirs: `{frag}` not found")

    def lb(b):
        return T.lean_bytes(b)

    src = T.lean_header("dulwich/index.py: INVALID_DOTNAMES, HFS_IGNORABLE_CHARS, _normalize_path_element_*, "
                        "_is_ntfs_dotgit, validate_path_element_{default,ntfs,hfs}, validate_path, "
                        "get_path_element_validator, cleanup_mode, build_file_from_blob, build_index_from_tree, "
                        "verify_leading_dirs") + f"""
namespace Dulwich.Gen.PathSafe
/-- `INVALID_DOTNAMES` -/
def invalidDotnames : List (List UInt8) := [{", ".join(lb(x) for x in dotnames)}]
/-- `HFS_IGNORABLE_CHARS` (sorted code points) -/
def hfsIgnorable : List Nat := [{", ".join(str(x) for x in sorted(hfs))}]
/-- `element.rstrip(<this>)` in `_normalize_path_element_ntfs` -/
def ntfsStrip : List UInt8 := {lb(ntfs_strip)}
/-- `path.split(<this>)` in `validate_path` -/
def pathSep : UInt8 := {path_sep[0]}
/-- `element.split(<this>)` in `validate_path_element_ntfs` -/
def ntfsSegSep : UInt8 := {seg_sep[0]}
/-- number of tests in `validate_path_element_ntfs` guarded by `os.name == "nt"` (not modelled: POSIX host) -/
def ntfsNtOnlyTests : Nat := {nt_guards}
/-! literals of `_is_ntfs_dotgit`, in source order -/
def dgDot : UInt8 := {cdot[0]}
def dgGitFrom : Nat := {s1}
def dgGitTo : Nat := {e1}
def dgGit : List UInt8 := {lb(cgit)}
def dgGitTail : Nat := {i4}
def dgG : UInt8 := {cg[0]}
def dgItFrom : Nat := {s2}
def dgItTo : Nat := {e2}
def dgIt : List UInt8 := {lb(cit)}
def dgTildeFrom : Nat := {s3}
def dgTildeTo : Nat := {e3}
def dgTilde : List UInt8 := {lb(ctil)}
def dgShortTail : Nat := {i5}
def dgColon : UInt8 := {ccolon[0]}
def dgTailDot : UInt8 := {cdot2[0]}
def dgTailSpace : UInt8 := {cspace[0]}
/-- `if normalized == <this>` in `validate_path_element_hfs` -/
def hfsShort : List UInt8 := {lb(hfs_short)}
/-- default of `core.protectNTFS` in `get_path_element_validator` -/
def protectNtfsDefault : Bool := {d_ntfs.lower()}
/-- `cleanup_mode`: `ret = S_IFREG | base; if mode & test: ret |= bits` -/
def cleanupBase : Nat := {cm_base}
def cleanupExecTest : Nat := {cm_test}
def cleanupExecBits : Nat := {cm_or}
end Dulwich.Gen.PathSafe
"""
    return {"PathSafe": src}
