"""C17 — checkout never writes outside the work tree or into .git.

Model: lean/DulwichModel/Model/PathSafe.lean (element validators, validate_path, cleanup_mode) and
Model/Checkout.lean (abstract file system with symlinks, verify_leading_dirs with the safe_prefix cache,
build_file_from_blob, build_index_from_tree); theorems: Props/C17.lean.
Tie: translate() regenerates Gen/PathSafe.lean (INVALID_DOTNAMES, HFS_IGNORABLE_CHARS, every literal of
_is_ntfs_dotgit / _normalize_path_element_ntfs / validate_path / cleanup_mode / the validator defaults);
run() drives (a) the exhaustive validator correspondence, (b) the build_index_from_tree correspondence on
an abstract-vs-real file system, and (c) the direct oracle: sequences of hostile trees materialised through
the real entry points in a sandbox with canaries, snapshot before/after.
"""
from __future__ import annotations

import ast
import hashlib
import itertools
import json
import os
import re
import shutil
import stat
from pathlib import Path

from .. import core, translate as T
from ..core import hx, unhx

MOD = "c17"


# ------------------------------------------------------------------------------------------------
# translator

def _consts_in_order(node: ast.AST, skip_doc=True) -> list:
    """bytes / int (not bool) constants of a function body in source order (docstring skipped)."""
    body = list(node.body)
    if skip_doc and body and isinstance(body[0], ast.Expr) and isinstance(body[0].value, ast.Constant) \
            and isinstance(body[0].value.value, str):
        body = body[1:]
    out = []
    for st in body:
        for n in ast.walk(st):
            if isinstance(n, ast.Constant) and isinstance(n.value, (bytes, int)) and not isinstance(n.value, bool):
                out.append((n.lineno, n.col_offset, n.value))
    return [v for _, _, v in sorted(out)]


def _shape(vals) -> str:
    return "".join("b" if isinstance(v, bytes) else "i" for v in vals)


def _get_boolean_default(func: ast.AST, key: bytes):
    """the default argument of `config.get_boolean(b"core", <key>, <default>)` inside func, as source text."""
    for n in ast.walk(func):
        if isinstance(n, ast.Call) and isinstance(n.func, ast.Attribute) and n.func.attr == "get_boolean" \
                and len(n.args) == 3 and isinstance(n.args[1], ast.Constant) and n.args[1].value == key:
            return n.args[2]
    raise T.TranslateError(f"get_boolean(b'core', {key!r}, default) not found")


# ---- census of mutating call sites in the modules that touch the work tree ---------------------------------------
CENSUS_MODULES = ["stash.py", "worktree.py", "index.py", "sparse_patterns.py", "patch.py", "merge.py", "rebase.py", "am.py", "submodule.py",
                  "lfs.py", "filters.py", "porcelain/__init__.py", "porcelain/submodule.py", "porcelain/lfs.py", "cherry_pick.py", "revert.py",
                  "notes.py", "bisect.py", "attrs.py", "ignore.py", "hooks.py", "archive.py", "bundle.py", "diff.py", "line_ending.py"]
CENSUS_MUT = {"os.unlink", "os.remove", "os.rename", "os.replace", "os.symlink", "os.mkdir", "os.makedirs", "os.rmdir", "shutil.rmtree",
              "shutil.move", "shutil.copy", "shutil.copyfile", "shutil.copy2", "shutil.copytree", "os.chmod", "os.open", "os.truncate", "os.link",
              "ensure_dir_exists", "symlink", "_remove_file_with_readonly_handling", "_remove_empty_parents", "build_file_from_blob",
              "_transition_to_file", "_transition_to_absent", "_transition_to_submodule", "ensure_submodule_placeholder",
              "_ensure_parent_dir_exists", "_remove_symlink_at_target", "index.build_file_from_blob"}
# a call that vets a work-tree path (name + symlinked leading directories) earlier in the same outermost function
CENSUS_GUARDS = {"_checked_worktree_path", "_validate_patch_target", "_lstat_tracked_path", "verify_leading_dirs",
                 "_check_submodule_worktree_path"}
# Reviewed allow-list: file:function -> why an unguarded mutating call there is not a work-tree escape under C17.
#   control   : the path lies in the control directory (.git/…) or is a temp file, built from fixed names
#   explicit  : the path is an explicit argument of an API whose caller names it (not derived from a tree / the index)
#   callee    : helper that acts on a path its callers vetted; its call sites are in this census themselves
#   user-op   : rm / mv / clean act on paths the USER names or on untracked files; not a materialising operation
#   candidate : NOT reviewed safe — unvalidated index path, needs an LFS store/server to reach; reported as a candidate
CENSUS_ALLOW = {
    "am.py:DiskAmStateManager._write_file": "control", "am.py:DiskAmStateManager.clean": "control", "am.py:DiskAmStateManager.save_initial": "control",
    "attrs.py:GitAttributes.write_to_file": "explicit",
    "bisect.py:BisectState._append_to_log": "control", "bisect.py:BisectState._find_next_commit": "control", "bisect.py:BisectState.mark_bad": "control",
    "bisect.py:BisectState.mark_good": "control", "bisect.py:BisectState.reset": "control", "bisect.py:BisectState.skip": "control",
    "bisect.py:BisectState.start": "control",
    "hooks.py:CommitMsgShellHook.__init__.clean_msg": "control",
    "index.py:_ensure_parent_dir_exists": "callee", "index.py:_remove_empty_parents": "callee", "index.py:_remove_file_with_readonly_handling": "callee",
    "index.py:_transition_to_absent": "callee", "index.py:_transition_to_file": "callee", "index.py:_transition_to_submodule": "callee",
    "index.py:build_file_from_blob": "callee", "index.py:symlink": "callee",
    "lfs.py:LFSStore.create": "control", "lfs.py:LFSStore.write_object": "control",
    "patch.py:_remove_symlink_at_target": "callee",
    "porcelain/__init__.py:_get_worktree_update_config.symlink_fallback": "callee",
    "porcelain/__init__.py:_get_worktree_update_config.symlink_wrapper": "callee", "porcelain/__init__.py:am": "control",
    "porcelain/__init__.py:cherry_pick": "control", "porcelain/__init__.py:clean": "user-op", "porcelain/__init__.py:cone_mode_disable": "control",
    "porcelain/__init__.py:init": "explicit", "porcelain/__init__.py:mailinfo": "explicit", "porcelain/__init__.py:mv": "user-op",
    "porcelain/__init__.py:reflog_delete": "control", "porcelain/__init__.py:reflog_expire": "control", "porcelain/__init__.py:remove": "user-op",
    "porcelain/lfs.py:lfs_migrate": "candidate", "porcelain/lfs.py:lfs_pull": "candidate",
    "rebase.py:DiskRebaseStateManager._write_file": "control", "rebase.py:DiskRebaseStateManager.clean": "control",
    "rebase.py:DiskRebaseStateManager.save": "control",
    "stash.py:Stash.drop": "control", "stash.py:Stash.pop.symlink_fn": "callee",
    "submodule.py:ensure_submodule_placeholder": "callee",
    "worktree.py:WorkTree.reset_index.symlink_fn": "callee", "worktree.py:WorkTree.set_sparse_checkout_patterns": "control",
    "worktree.py:add_worktree": "explicit", "worktree.py:lock_worktree": "control", "worktree.py:move_worktree": "explicit",
    "worktree.py:prune_worktrees": "control", "worktree.py:remove_worktree": "explicit", "worktree.py:repair_worktree": "explicit",
    "worktree.py:temporary_worktree": "explicit", "worktree.py:unlock_worktree": "control",
}


def _is_write_open(call: ast.Call) -> bool:
    if isinstance(call.func, ast.Name) and call.func.id == "open":
        m = None
        if len(call.args) >= 2:
            m = call.args[1].value if isinstance(call.args[1], ast.Constant) else "?w"
        for k in call.keywords:
            if k.arg == "mode":
                m = k.value.value if isinstance(k.value, ast.Constant) else "?w"
        return m is not None and any(c in str(m) for c in "wax+?")
    return False


def census(repo: Path):
    """[(file, outermost function qualname, line, call, status)] for every mutating call; status = guarded | <allow category>.
    Raises TranslateError for a call site that is neither guarded nor on the reviewed allow-list."""
    rows, bad = [], []
    for m in CENSUS_MODULES:
        pth = repo / "dulwich" / m
        if not pth.exists():
            continue
        tree = T.module_ast(pth)

        def visit(node, stack, top):
            for ch in ast.iter_child_nodes(node):
                if isinstance(ch, (ast.FunctionDef, ast.AsyncFunctionDef, ast.ClassDef)):
                    visit(ch, stack + [ch.name], top if (top is not None and not isinstance(node, ast.ClassDef)) or isinstance(ch, ast.ClassDef) else ch)
                else:
                    if isinstance(ch, ast.Call):
                        f = ast.unparse(ch.func)
                        if f in CENSUS_MUT or _is_write_open(ch):
                            # outermost function (methods: Class.method)
                            names, nodes_ = [], []
                            for nm in stack:
                                names.append(nm)
                            # qualname up to the outermost FUNCTION
                            rows.append((m, stack, top, ch))
                    visit(ch, stack, top)
        visit(tree, [], None)
    out = []
    for m, stack, top, ch in rows:
        # qualname = Class.method or function (drop nested defs)
        q = ".".join(stack) if stack else "<module>"
        key = f"{m}:{q}"
        guarded = False
        if top is not None:
            for c in ast.walk(top):
                if isinstance(c, ast.Call) and ast.unparse(c.func).split(".")[-1] in CENSUS_GUARDS and c.lineno < ch.lineno:
                    guarded = True
                    break
        status = "guarded" if guarded else CENSUS_ALLOW.get(key)
        if status is None:
            bad.append(f"{key}:{ch.lineno}: {ast.unparse(ch)[:70]}")
        out.append((m, q, ch.lineno, ast.unparse(ch.func), status))
    if bad:
        raise T.TranslateError("mutating call site(s) neither preceded by a path check (" + "/".join(sorted(CENSUS_GUARDS)) +
                               ") nor on the reviewed allow-list: " + "; ".join(bad[:6]))
    return out


def translate(repo: Path) -> dict:
    tree = T.module_ast(repo / "dulwich" / "index.py")
    dotnames = T.const_value(tree, "INVALID_DOTNAMES")
    if not isinstance(dotnames, tuple) or not all(isinstance(x, bytes) for x in dotnames):
        raise T.TranslateError(f"INVALID_DOTNAMES is not a tuple of bytes: {dotnames!r}")
    hfs = T.const_value(tree, "HFS_IGNORABLE_CHARS")
    if not isinstance(hfs, (set, frozenset)) or not all(isinstance(x, int) for x in hfs):
        raise T.TranslateError("HFS_IGNORABLE_CHARS is not a set of ints")

    # _normalize_path_element_default: element.lower()
    nd = T.find_def(tree, "_normalize_path_element_default")
    ret = [n for n in ast.walk(nd) if isinstance(n, ast.Return)]
    if len(ret) != 1 or ast.unparse(ret[0].value) != "element.lower()":
        raise T.TranslateError("_normalize_path_element_default is not `return element.lower()`")
    # validate_path_element_default: normalize(element) not in INVALID_DOTNAMES
    vd = T.find_def(tree, "validate_path_element_default")
    ret = [n for n in ast.walk(vd) if isinstance(n, ast.Return)]
    if len(ret) != 1 or ast.unparse(ret[0].value) != "_normalize_path_element_default(element) not in INVALID_DOTNAMES":
        raise T.TranslateError("validate_path_element_default has an unexpected body")
    # _normalize_path_element_ntfs: element.rstrip(b". ").lower()
    nn = T.find_def(tree, "_normalize_path_element_ntfs")
    ret = [n for n in ast.walk(nn) if isinstance(n, ast.Return)]
    m = re.fullmatch(r"element\.rstrip\((b'[^']*')\)\.lower\(\)", ast.unparse(ret[0].value)) if len(ret) == 1 else None
    if not m:
        raise T.TranslateError("_normalize_path_element_ntfs is not `element.rstrip(b'..').lower()`")
    ntfs_strip = ast.literal_eval(m.group(1))

    # _is_ntfs_dotgit: all literals in source order
    dg = T.find_def(tree, "_is_ntfs_dotgit")
    c = _consts_in_order(dg)
    want = "ibiibiibiibiibiibbbi"
    if _shape(c) != want:
        raise T.TranslateError(f"_is_ntfs_dotgit: literal shape {_shape(c)} != {want}: {c!r}")
    (a0, cdot, s1, e1, cgit, i4, a1, cg, s2, e2, cit, s3, e3, ctil, i5, w, ccolon, cdot2, cspace, step) = c
    if (a0, a1, w, step) != (1, 1, 1, 1):
        raise T.TranslateError(f"_is_ntfs_dotgit: unexpected one-byte slices/steps {(a0, a1, w, step)}")
    for lit in (cdot, cg, ccolon, cdot2, cspace):
        if len(lit) != 1:
            raise T.TranslateError(f"_is_ntfs_dotgit: expected single-byte literal, got {lit!r}")

    # validate_path_element_ntfs: split byte, order of tests
    vn = T.find_def(tree, "validate_path_element_ntfs")
    src_vn = ast.unparse(vn)
    m = re.search(r"for segment in element\.split\((b'[^']*')\):\n\s+if _is_ntfs_dotgit\(segment\):\n\s+return False", src_vn)
    if not m:
        raise T.TranslateError("validate_path_element_ntfs: segment loop not found")
    seg_sep = ast.literal_eval(m.group(1))
    if len(seg_sep) != 1:
        raise T.TranslateError("validate_path_element_ntfs: segment separator is not one byte")
    if "normalized = _normalize_path_element_ntfs(element)\n    if normalized in INVALID_DOTNAMES:\n        return False" not in src_vn:
        raise T.TranslateError("validate_path_element_ntfs: INVALID_DOTNAMES test not found")
    nt_guards = len(re.findall(r"os\.name == 'nt' and", src_vn))

    # validate_path_element_hfs
    vh = T.find_def(tree, "validate_path_element_hfs")
    src_vh = ast.unparse(vh)
    m = re.search(r"if normalized == (b'[^']*'):\n\s+return False", src_vh)
    if not m or "if normalized in INVALID_DOTNAMES:\n        return False" not in src_vh \
            or "except UnicodeDecodeError:\n        return False" not in src_vh:
        raise T.TranslateError("validate_path_element_hfs has an unexpected body")
    hfs_short = ast.literal_eval(m.group(1))
    nh = T.find_def(tree, "_normalize_path_element_hfs")
    src_nh = ast.unparse(nh)
    for frag in ("element.decode('utf-8', errors='strict')", "if ord(c) not in HFS_IGNORABLE_CHARS",
                 "unicodedata.normalize('NFD', filtered)", "normalized.lower().encode('utf-8', errors='strict')"):
        if frag not in src_nh:
            raise T.TranslateError(f"_normalize_path_element_hfs: `{frag}` not found")

    # validate_path: split byte
    vp = T.find_def(tree, "validate_path")
    m = re.search(r"parts = path\.split\((b'[^']*')\)\n\s+for p in parts:\n\s+if not element_validator\(p\):\n\s+return False",
                  ast.unparse(vp))
    if not m:
        raise T.TranslateError("validate_path: split/for loop not found")
    path_sep = ast.literal_eval(m.group(1))
    if len(path_sep) != 1:
        raise T.TranslateError("validate_path: separator is not one byte")

    # get_path_element_validator: defaults
    gv = T.find_def(tree, "get_path_element_validator")
    d_ntfs = ast.unparse(_get_boolean_default(gv, b"protectNTFS"))
    d_hfs = ast.unparse(_get_boolean_default(gv, b"protectHFS"))
    if d_ntfs not in ("True", "False"):
        raise T.TranslateError(f"protectNTFS default is not a literal: {d_ntfs}")
    if d_hfs != "sys.platform == 'darwin'":
        raise T.TranslateError(f"protectHFS default changed: {d_hfs}")

    # cleanup_mode
    cm = T.find_def(tree, "cleanup_mode")
    src_cm = ast.unparse(cm)
    m = re.search(r"ret = stat\.S_IFREG \| (\d+)\n\s+if mode & (\d+):\n\s+ret \|= (\d+)\n\s+return ret", src_cm)
    if not m:
        raise T.TranslateError("cleanup_mode: regular-file branch not found")
    cm_base, cm_test, cm_or = (int(x) for x in m.groups())
    # build_file_from_blob: chmod(target_path, cleanup_mode(mode)) is the only chmod
    bf = T.find_def(tree, "build_file_from_blob")
    chmods = [ast.unparse(n) for n in ast.walk(bf) if isinstance(n, ast.Call) and ast.unparse(n.func) == "os.chmod"]
    if chmods != ["os.chmod(target_path, cleanup_mode(mode))"]:
        raise T.TranslateError(f"build_file_from_blob: chmod calls changed: {chmods}")

    # sequence of guarded calls in build_index_from_tree's loop (order matters for the model)
    bi = T.find_def(tree, "build_index_from_tree")
    calls = []
    for n in ast.walk(bi):
        if isinstance(n, ast.Call):
            f = ast.unparse(n.func)
            if f in ("validate_path", "verify_leading_dirs", "_tree_to_fs_path", "os.makedirs", "os.mkdir",
                     "build_file_from_blob", "os.path.isdir", "os.path.exists"):
                calls.append((n.lineno, n.col_offset, f))
    order = [f for _, _, f in sorted(calls)]
    want_order = ["validate_path", "verify_leading_dirs", "_tree_to_fs_path", "os.path.exists", "os.makedirs",
                  "os.path.isdir", "os.mkdir", "build_file_from_blob"]
    if order != want_order:
        raise T.TranslateError(f"build_index_from_tree: call order {order} != {want_order}")
    # verify_leading_dirs: literals (separator, `slash <= 0`)
    vl = T.find_def(tree, "verify_leading_dirs")
    src_vl = ast.unparse(vl)
    for frag in ("slash = tree_path.rfind(b'/')", "if slash <= 0:\n        return", "components = tree_path[:slash].split(b'/')",
                 "del safe_prefix[common:]", "except FileNotFoundError:\n            break",
                 "if stat.S_ISLNK(st.st_mode):\n            raise InvalidPathError(tree_path)", "safe_prefix.append(part)"):
        if frag not in src_vl:
            raise T.TranslateError(f"verify_leading_dirs: `{frag}` not found")

    # update_working_tree: the delete phase and both pre-checks lstat old paths through _lstat_tracked_path
    uw = T.find_def(tree, "update_working_tree")
    src_uw = ast.unparse(uw)
    n_guard = src_uw.count("_lstat_tracked_path(path, full_path, repo_path)")
    n_bare = src_uw.count("os.lstat(full_path)")
    if n_guard == 3 and n_bare == 1:
        lt = T.find_def(tree, "_lstat_tracked_path")
        src_lt = ast.unparse(lt)
        for frag in ("verify_leading_dirs(tree_path, [], repo_path)", "except InvalidPathError as e:\n        raise FileNotFoundError(",
                     "return os.lstat(full_path)"):
            if frag not in src_lt:
                raise T.TranslateError(f"_lstat_tracked_path: `{frag}` not found")
        delete_guarded = True
    elif n_guard == 0 and n_bare == 4:
        delete_guarded = False        # the code before the repair: theorem delete_confined will not compile
    else:
        raise T.TranslateError(f"update_working_tree: {n_guard} guarded / {n_bare} bare lstat(full_path) calls")
    if "delete_stat: os.stat_result | None = " + ("_lstat_tracked_path(path, full_path, repo_path)" if delete_guarded else "os.lstat(full_path)") not in src_uw:
        raise T.TranslateError("update_working_tree: delete-phase lstat not found")
    if "modify_stat: os.stat_result | None = os.lstat(full_path)" not in src_uw or \
            src_uw.index("verify_leading_dirs(path, [], repo_path)") > src_uw.index("modify_stat: os.stat_result | None = os.lstat(full_path)"):
        raise T.TranslateError("update_working_tree: add/modify phase no longer verifies leading dirs before lstat")
    # every verify_leading_dirs call of update_working_tree / _lstat_tracked_path gets a FRESH empty list
    fresh = True
    ncalls = 0
    for fn_node in [uw] + ([T.find_def(tree, "_lstat_tracked_path")] if delete_guarded else []):
        for n in ast.walk(fn_node):
            if isinstance(n, ast.Call) and ast.unparse(n.func) == "verify_leading_dirs":
                ncalls += 1
                if len(n.args) != 3 or n.keywords:
                    raise T.TranslateError(f"verify_leading_dirs call with unexpected arguments: {ast.unparse(n)}")
                if not (isinstance(n.args[1], ast.List) and not n.args[1].elts):
                    fresh = False     # a cache shared between paths/phases: theorem uwt_write_confined will not compile
    if ncalls != (2 if delete_guarded else 1):
        raise T.TranslateError(f"update_working_tree: {ncalls} verify_leading_dirs calls")
    # gitlink branch: does the "is a directory already there?" test of _transition_to_submodule follow symlinks?
    ts = T.find_def(tree, "_transition_to_submodule")
    ifs = [n for n in ts.body if isinstance(n, ast.If)]
    if len(ifs) != 1:
        raise T.TranslateError(f"_transition_to_submodule: expected one top-level if, found {len(ifs)}")
    test_src = ast.unparse(ifs[0].test)
    if test_src == "current_stat is not None and stat.S_ISDIR(current_stat.st_mode)":
        gitlink_follows = False
        want_body = ("ensure_submodule_placeholder(repo, path)", "if current_stat is not None:\n    _remove_file_with_readonly_handling(full_path)\nensure_submodule_placeholder(repo, path)")
        got = ("\n".join(ast.unparse(x) for x in ifs[0].body if not (isinstance(x, ast.Expr) and isinstance(x.value, ast.Constant))),
               "\n".join(ast.unparse(x) for x in ifs[0].orelse))
        if got != want_body:
            raise T.TranslateError(f"_transition_to_submodule: unexpected branches {got!r}")
    elif "os.path.isdir(" in test_src or "os.path.exists(" in test_src or "os.stat(" in test_src:
        gitlink_follows = True        # theorem uwt_confined will not compile
    else:
        raise T.TranslateError(f"_transition_to_submodule: unrecognised directory test `{test_src}`")
    if "modify_stat" not in src_uw or "_transition_to_submodule(repo, path, full_path, modify_stat, change.new, index)" not in src_uw:
        raise T.TranslateError("update_working_tree: gitlink branch no longer receives the lstat result")
    stree = T.module_ast(repo / "dulwich" / "submodule.py")
    ph = ast.unparse(T.find_def(stree, "ensure_submodule_placeholder"))
    for frag in ("if not os.path.exists(full_path):\n        os.makedirs(full_path)", "git_file_path = os.path.join(full_path, b'.git')",
                 "if not os.path.exists(git_file_path):", "with open(git_file_path, 'wb') as f:",
                 "depth = submodule_path.count(b'/') + 1", "relative_git_dir = b'../' * depth + b'.git/modules/' + submodule_path",
                 "f.write(b'gitdir: ' + relative_git_dir + b'\\n')"):
        if frag not in ph:
            raise T.TranslateError(f"ensure_submodule_placeholder: `{frag}` not found")
    # change kinds: which kinds does each apply loop of update_working_tree handle, and for which does the write loop
    # reach validate_path (+ verify_leading_dirs) before touching the disk?
    def _kinds(test):
        if isinstance(test, ast.Compare) and ast.unparse(test.left) == "change.type" and len(test.ops) == 1 \
                and isinstance(test.ops[0], ast.In) and isinstance(test.comparators[0], ast.Tuple):
            return [ast.unparse(e).replace("CHANGE_", "") for e in test.comparators[0].elts]
        return None
    loops = [n for n in uw.body if isinstance(n, ast.For) and ast.unparse(n.iter) == "changes" and ast.unparse(n.target) == "change"
             and len(n.body) == 1 and isinstance(n.body[0], ast.If) and _kinds(n.body[0].test)]
    apply_loops = [n for n in loops if any(isinstance(c, ast.Call) and ast.unparse(c.func) in ("_transition_to_absent", "_transition_to_file")
                                           for c in ast.walk(n))]
    if len(apply_loops) != 2:
        raise T.TranslateError(f"update_working_tree: expected a delete loop and a write loop over `changes`, found {len(apply_loops)}")
    del_loop, wr_loop = apply_loops
    kinds_deleted = _kinds(del_loop.body[0].test)
    kinds_written = _kinds(wr_loop.body[0].test)
    if not any(isinstance(c, ast.Call) and ast.unparse(c.func) == "_transition_to_absent" for c in ast.walk(del_loop)) or \
            not any(isinstance(c, ast.Call) and ast.unparse(c.func) == "_transition_to_file" for c in ast.walk(wr_loop)):
        raise T.TranslateError("update_working_tree: delete/write loops not in the expected order")
    # validated kinds: the raising validate_path must be a top-level statement of the write loop's if-body and precede every
    # other statement that mentions full_path / calls a _transition_*; nested under a narrower kind test = only that subset
    kinds_validated = []
    body = wr_loop.body[0].body
    seen_touch = False
    for stn in body:
        srcn = ast.unparse(stn)
        if isinstance(stn, ast.If) and srcn.startswith("if not validate_path(path, validate_path_element):") and "raise InvalidPathError(path)" in srcn:
            if not seen_touch:
                kinds_validated = list(kinds_written)
            break
        if isinstance(stn, ast.If) and _kinds(stn.test) and "validate_path(path, validate_path_element)" in srcn and "raise InvalidPathError(path)" in srcn \
                and not seen_touch:
            kinds_validated = [k for k in _kinds(stn.test) if k in kinds_written]
            break
        if "full_path" in srcn or "_transition_to" in srcn or "os." in srcn:
            seen_touch = True
    vl_pos = [i for i, stn in enumerate(body) if ast.unparse(stn).startswith("verify_leading_dirs(path, ")]
    fp_pos = [i for i, stn in enumerate(body) if "os.lstat(full_path)" in ast.unparse(stn) or "_transition_to" in ast.unparse(stn)]
    if not vl_pos or (fp_pos and vl_pos[0] > fp_pos[0]):
        kinds_validated = []          # the leading-directory check no longer precedes the first disk access for every kind
    # sparse checkout: step 2 of apply_included_paths validates names, guards the lstat, verifies leading dirs and writes
    # through build_file_from_blob
    sp_tree = T.module_ast(repo / "dulwich" / "sparse_patterns.py")
    sp = ast.unparse(T.find_def(sp_tree, "apply_included_paths"))
    new_frags = ("path_ok = validate_path(path_bytes, validate_element)", "validate_element = get_path_element_validator(config)",
                 "if not path_ok:\n                continue", "_lstat_tracked_path(path_bytes, full_path_bytes, repo_path)",
                 "if not path_ok:\n                raise InvalidPathError(path_bytes)", "verify_leading_dirs(path_bytes, [], repo_path)",
                 "os.lstat(full_path_bytes)", "build_file_from_blob(blob, entry.mode, full_path_bytes, honor_filemode=honor_filemode)",
                 "full_path_bytes = os.path.join(repo_path, path_bytes)", "repo_path = os.fsencode(repo.path)")
    old_frags = ("if os.path.exists(full_path):\n                if not force and local_modifications_exist(full_path, entry)",
                 "elif not os.path.exists(full_path):\n            try:\n                blob = repo.object_store[entry.sha]",
                 "with open(full_path, 'wb') as f:")
    if all(f in sp for f in new_frags):
        if sp.count("os.path.exists(full_path)") != 1 or sp.count("os.remove(") != 1 or sp.count("open(full_path, 'wb')") != 1:
            raise T.TranslateError("apply_included_paths: unguarded exists/remove/open besides the vetted ones")
        order = [sp.index(f) for f in ("path_ok = validate_path", "_lstat_tracked_path(path_bytes", "os.remove(full_path)",
                                       "verify_leading_dirs(path_bytes", "os.lstat(full_path_bytes)", "ensure_dir_exists(", "build_file_from_blob(blob")]
        if order != sorted(order):
            raise T.TranslateError("apply_included_paths: checks no longer precede the calls they guard")
        sparse_guarded = True
    elif all(f in sp for f in old_frags) and "validate_path" not in sp:
        sparse_guarded = False        # the code before the repair: theorem sparse_confined will not compile
    else:
        raise T.TranslateError("apply_included_paths: neither the guarded nor the old shape")
    # patch.py: both paths of a rename/copy header are vetted before anything is read or written
    # patch.py: every open(<target>, "wb") of the apply code is directly preceded by _remove_symlink_at_target(<target>)
    ptree = T.module_ast(repo / "dulwich" / "patch.py")
    n_wb = 0
    for fn in ("_apply_rename_or_copy", "apply_patches"):
        body_src = ast.unparse(T.find_def(ptree, fn))
        for m in re.finditer(r"open\((\w+), 'wb'\)", body_src):
            n_wb += 1
            pre = body_src[:m.start()].rstrip().splitlines()
            # the `with open(...)` line itself is the last one; the statement before it must be the guard
            prev = pre[-2].strip() if pre[-1].strip().startswith("with") or pre[-1].strip() == "" else pre[-1].strip()
            if prev != f"_remove_symlink_at_target({m.group(1)})":
                raise T.TranslateError(f"patch.{fn}: open({m.group(1)}, 'wb') is not preceded by _remove_symlink_at_target "
                                       f"(a symlink at the patch target would be written through)")
    rc_src = ast.unparse(T.find_def(ptree, "_apply_rename_or_copy"))
    for frag in ("src_fs_path = _validate_patch_target(r, repo_path_bytes, src_stripped)",
                 "dst_fs_path = _validate_patch_target(r, repo_path_bytes, dst_stripped)"):
        if frag not in rc_src:
            raise T.TranslateError(f"patch._apply_rename_or_copy: `{frag}` not found (rename/copy header path not vetted)")
    if rc_src.index("dst_fs_path = _validate_patch_target") > rc_src.index("open("):
        raise T.TranslateError("patch._apply_rename_or_copy: destination vetted after the first open()")
    ap_src = ast.unparse(T.find_def(ptree, "apply_patches"))
    if "fs_path = _validate_patch_target(r, repo_path_bytes, file_path)" not in ap_src:
        raise T.TranslateError("patch.apply_patches: target path no longer vetted by _validate_patch_target")
    if n_wb != 3:
        raise T.TranslateError(f"patch.py: expected 3 open(..., 'wb') in the apply code, found {n_wb}")
    rs = ast.unparse(T.find_def(ptree, "_remove_symlink_at_target"))
    for frag in ("st = os.lstat(fs_path)", "except FileNotFoundError:\n        return", "if stat.S_ISLNK(st.st_mode):\n        os.unlink(fs_path)"):
        if frag not in rs:
            raise T.TranslateError(f"_remove_symlink_at_target: `{frag}` not found")

    sites = census(repo)
    from collections import Counter
    cen = Counter((m, q, st_) for m, q, _ln, _f, st_ in sites)

    def lb(b):
        return T.lean_bytes(b)

    src = T.lean_header("dulwich/index.py: INVALID_DOTNAMES, HFS_IGNORABLE_CHARS, _normalize_path_element_*, "
                        "_is_ntfs_dotgit, validate_path_element_{default,ntfs,hfs}, validate_path, "
                        "get_path_element_validator, cleanup_mode, build_file_from_blob, build_index_from_tree, "
                        "verify_leading_dirs, _lstat_tracked_path, update_working_tree; dulwich/patch.py: write sites") + f"""
namespace Dulwich.Gen.PathSafe
/-- `INVALID_DOTNAMES` -/
def invalidDotnames : List (List UInt8) := [{", ".join(lb(x) for x in dotnames)}]
/-- `HFS_IGNORABLE_CHARS` (sorted code points) -/
def hfsIgnorable : List Nat := [{", ".join(str(x) for x in sorted(hfs))}]
/-- `element.rstrip(<this>)` in `_normalize_path_element_ntfs` -/
def ntfsStrip : List UInt8 := {lb(ntfs_strip)}
/-- `path.split(<this>)` in `validate_path` -/
def pathSep : UInt8 := {path_sep[0]}
/-- `element.split(<this>)` in `validate_path_element_ntfs` -/
def ntfsSegSep : UInt8 := {seg_sep[0]}
/-- number of tests in `validate_path_element_ntfs` guarded by `os.name == "nt"` (not modelled: POSIX host) -/
def ntfsNtOnlyTests : Nat := {nt_guards}
/-! literals of `_is_ntfs_dotgit`, in source order -/
def dgDot : UInt8 := {cdot[0]}
def dgGitFrom : Nat := {s1}
def dgGitTo : Nat := {e1}
def dgGit : List UInt8 := {lb(cgit)}
def dgGitTail : Nat := {i4}
def dgG : UInt8 := {cg[0]}
def dgItFrom : Nat := {s2}
def dgItTo : Nat := {e2}
def dgIt : List UInt8 := {lb(cit)}
def dgTildeFrom : Nat := {s3}
def dgTildeTo : Nat := {e3}
def dgTilde : List UInt8 := {lb(ctil)}
def dgShortTail : Nat := {i5}
def dgColon : UInt8 := {ccolon[0]}
def dgTailDot : UInt8 := {cdot2[0]}
def dgTailSpace : UInt8 := {cspace[0]}
/-- `if normalized == <this>` in `validate_path_element_hfs` -/
def hfsShort : List UInt8 := {lb(hfs_short)}
/-- default of `core.protectNTFS` in `get_path_element_validator` -/
def protectNtfsDefault : Bool := {d_ntfs.lower()}
/-- `cleanup_mode`: `ret = S_IFREG | base; if mode & test: ret |= bits` -/
def cleanupBase : Nat := {cm_base}
def cleanupExecTest : Nat := {cm_test}
def cleanupExecBits : Nat := {cm_or}
/-- does `update_working_tree` lstat old paths (delete phase, both pre-checks) through `_lstat_tracked_path`? -/
def deleteGuarded : Bool := {str(delete_guarded).lower()}
/-- does every `verify_leading_dirs` call of `update_working_tree` (and `_lstat_tracked_path`) get a fresh `[]`? -/
def uwtFreshCache : Bool := {str(fresh).lower()}
/-- does the "is a directory already there?" test of `_transition_to_submodule` follow symlinks (`os.path.isdir`)
rather than look at the lstat result (`stat.S_ISDIR(current_stat.st_mode)`)? -/
def gitlinkDirTestFollows : Bool := {str(gitlink_follows).lower()}
/-- does step 2 of `sparse_patterns.apply_included_paths` validate names, guard its lstat, verify leading directories
and write through `build_file_from_blob`? -/
def sparseGuarded : Bool := {str(sparse_guarded).lower()}
/-- `update_working_tree`: change kinds whose old path the delete loop removes / whose new entry the write loop writes /
for which the write loop reaches the raising `validate_path` and `verify_leading_dirs` before any disk access -/
def uwtKindsDeleted : List String := [{", ".join(json.dumps(k) for k in kinds_deleted)}]
def uwtKindsWritten : List String := [{", ".join(json.dumps(k) for k in kinds_written)}]
def uwtKindsValidated : List String := [{", ".join(json.dumps(k) for k in kinds_validated)}]
/-- census of mutating call sites (os.unlink/remove/rename/symlink/mkdir/makedirs/rmdir, rmtree, open-for-write, chmod,
build_file_from_blob, …) in the modules that touch the work tree: (file, function, status, number of sites); status =
`guarded` (a path check precedes it in the function) or the category of the reviewed allow-list.  A site that is
neither makes the translator fail. -/
def censusSites : List (String × String × String × Nat) := [
{chr(10).join("  (" + ", ".join(json.dumps(x) for x in k) + f", {n})," for k, n in sorted(cen.items()))[:-1]}]
def censusGuardedSites : Nat := {sum(n for k, n in cen.items() if k[2] == "guarded")}
def censusCandidateSites : Nat := {sum(n for k, n in cen.items() if k[2] == "candidate")}
end Dulwich.Gen.PathSafe
"""
    return {"PathSafe": src}


# ------------------------------------------------------------------------------------------------
# stream (a): validators, model vs real (in-process: pure functions)

UNITS = [b".", b"g", b"i", b"t", b"G", b"~", b"1", b" ", b":", b"/", b"\\", b"\xe2\x80\x8c"]
FRAGS = [b".git", b".GIT", b".gIt", b".Git", b"git~1", b"GIT~1", b"gIt~1", b"git~2", b"git~", b".", b"..", b" ", b":",
         b"::$INDEX_ALLOCATION", b"\\", b"/", b"a", b"g", b".gitmodules", b".g", b"it", b"\xe2\x80\x8c", b"\xef\xbb\xbf",
         b"\xe2\x80\xae", b"\xc3\x89", b"\xe2\x84\xaa", b"\x80", b"\xff", b"\xed\xa0\x80", b"\xc0\xae", b"\xe2\x80",
         b"\xf0\x9f\x98\x80", b"\xf4\x90\x80\x80", b"con", b"aux.txt", b"C:", b"", b"\t", b"\x7f", b"I", b"T", b"\xc4\xb0"]
VALIDATORS = ("d", "n", "h", "b")


def _real_validators():
    import dulwich.index as I

    def both(e):
        return I.validate_path_element_ntfs(e) and I.validate_path_element_hfs(e)
    return {"d": I.validate_path_element_default, "n": I.validate_path_element_ntfs,
            "h": I.validate_path_element_hfs, "b": both}


def _fold_real(filtered: bytes) -> bytes:
    """the value of the model's `fold` parameter (NFD then str.lower) on one input, from the real unicodedata."""
    import unicodedata
    return unicodedata.normalize("NFD", filtered.decode("utf-8")).lower().encode("utf-8")


def _fold_tables(ctx, strings, sep=b"/"):
    """For every distinct path component with a non-ASCII byte: model's filtered code points -> real fold value.
    Returns {component: "filtered=folded"} (absent: ASCII, or undecodable)."""
    comps = sorted({c for s in strings for c in s.split(sep) if any(b >= 0x80 for b in c)})
    outs = ctx.driver.batch([f"c17.hfsfilter {hx(c)}" for c in comps])
    tbl = {}
    for c, o in zip(comps, outs):
        if o.startswith("ok "):
            f = unhx(o[3:])
            if any(b >= 0x80 for b in f) or True:
                tbl[c] = f"{hx(f)}={hx(_fold_real(f))}"
    return tbl


def _check_validators(ctx, stream, strings, tagger=None):
    """validate_path(s, v) for the four validators + the element validators themselves on strings with '/'."""
    import dulwich.index as I
    real = _real_validators()
    tbl = _fold_tables(ctx, strings)
    lines, meta = [], []
    for s in strings:
        pairs = sorted({tbl[c] for c in s.split(b"/") if c in tbl})
        suffix = "".join(" " + p for p in pairs)
        for v in VALIDATORS:
            lines.append(f"c17.path {v} {hx(s)}" + (suffix if v in "hb" else ""))
            meta.append(("path", v, s))
        if b"/" in s:
            wp = tbl.get(s)
            for v in VALIDATORS:
                lines.append(f"c17.elem {v} {hx(s)}" + (" " + wp if (wp and v in "hb") else ""))
                meta.append(("elem", v, s))
    outs = ctx.driver.batch(lines)
    for (kind, v, s), o in zip(meta, outs):
        if kind == "path":
            r = I.validate_path(s, real[v])
        else:
            r = real[v](s)
        r = "1" if r else "0"
        ctx.count(stream, (kind, v, s), True, (tagger(s) + ":" if tagger else "") + f"{kind}:{v}:{r}")
        if o != r:
            ctx.disagree(stream, {"kind": kind, "validator": v, "input": hx(s)}, o, r)
        # direct oracle on the validators, in the property's words: a path with an unsafe component is refused
        if r == "1" and kind == "path":
            bad = unsafe_component(s, v)
            if bad is not None:
                ctx.oracle_fail(stream, {"validator": v, "path": hx(s)},
                                f"validate_path accepts a path with the unsafe component {bad!r} (validator {v})",
                                None)


# -- the property's own definition of "unsafe" (independent of the model; regex-based)

_RE_NTFS_DOTGIT = re.compile(rb"^(\.git|git~1)[. ]*(:.*)?$", re.I | re.S)
_HFS_IGN = re.compile("[\u200c-\u200f\u202a-\u202e\u206a-\u206f\ufeff]")


def dotgit_like(name: bytes, v: str) -> bool:
    """Is `name` a spelling of `.git` under the protections in force (d: none, n: NTFS, h: HFS, b: both)?"""
    if name.lower() == b".git":
        return True
    if v in "nb":
        for seg in name.split(b"\\"):
            if _RE_NTFS_DOTGIT.match(seg):
                return True
        if name.rstrip(b". ").lower() == b".git":
            return True
    if v in "hb":
        try:
            s = name.decode("utf-8")
        except UnicodeDecodeError:
            return False
        import unicodedata
        s = unicodedata.normalize("NFD", _HFS_IGN.sub("", s)).lower()
        if s == ".git":
            return True
    return False


def unsafe_component(path: bytes, v: str):
    """First component of `path` that must be refused: empty, `.`, `..`, or `.git`-like for the protections."""
    for c in path.split(b"/"):
        if c in (b"", b".", b"..") or dotgit_like(c, v):
            return c
    return None


def _stream_exhaustive(ctx):
    L = 6 if ctx.thorough else 5
    CH = 60000
    buf = []
    n = 0
    for ln in range(0, L + 1):
        for tup in itertools.product(UNITS, repeat=ln):
            buf.append(b"".join(tup))
            if len(buf) >= CH:
                _check_validators(ctx, "validators.exhaustive", buf)
                n += len(buf)
                buf = []
    if buf:
        _check_validators(ctx, "validators.exhaustive", buf)
        n += len(buf)
    ctx.extra_cov["exhaustive_units"] = [hx(u) for u in UNITS]
    ctx.extra_cov["exhaustive_max_units"] = L
    ctx.extra_cov["exhaustive_strings"] = n


def _stream_fragments(ctx):
    rng = ctx.rng
    strings = set()
    for _ in range(ctx.budget(6000)):
        k = rng.choice([1, 1, 2, 2, 3, 3, 4, 5, 7])
        s = b"".join(rng.choice(FRAGS) for _ in range(k))
        if rng.random() < 0.1:
            s = bytes(rng.randrange(256) for _ in range(rng.randint(1, 6)))
        strings.add(s)
    _check_validators(ctx, "validators.fragments", sorted(strings),
                      tagger=lambda s: "nonascii" if any(b >= 0x80 for b in s) else "ascii")


def _stream_misc(ctx):
    """dotgit matcher alone; validator selection from real config objects; cleanup_mode; fold-on-ASCII assumption."""
    import dulwich.index as I
    from dulwich.config import ConfigDict
    rng = ctx.rng
    names = [b"".join(t) for ln in range(0, 5) for t in itertools.product([b".", b"g", b"G", b"i", b"t", b"~", b"1", b" ", b":"], repeat=ln)]
    outs = ctx.driver.batch([f"c17.dotgit {hx(s)}" for s in names])
    for s, o in zip(names, outs):
        r = "1" if I._is_ntfs_dotgit(s) else "0"
        ctx.count("validators.dotgit", s, True, r)
        if o != r:
            ctx.disagree("validators.dotgit", {"name": hx(s)}, o, r)
    # selection
    probes = [b".git", b".git ", b"git~1", b".g\xe2\x80\x8cit", b"a", b".GIT"]
    for ntfs in (None, True, False):
        for hfs in (None, True, False):
            cfg = ConfigDict()
            if ntfs is not None:
                cfg.set((b"core",), b"protectNTFS", b"true" if ntfs else b"false")
            if hfs is not None:
                cfg.set((b"core",), b"protectHFS", b"true" if hfs else b"false")
            v = I.get_path_element_validator(cfg)
            eff_n = True if ntfs is None else ntfs   # default re-read by the translator into Gen.protectNtfsDefault
            eff_h = False if hfs is None else hfs    # sys.platform != "darwin" here
            sel = ctx.driver.batch([f"c17.select {int(eff_n)} {int(eff_h)}"])[0]
            real = _real_validators()[sel] if sel in VALIDATORS else None
            got = [bool(v(p)) for p in probes]
            want = [bool(real(p)) for p in probes] if real else None
            ctx.count("validators.select", (ntfs, hfs), True, sel)
            if got != want:
                ctx.disagree("validators.select", {"protectNTFS": ntfs, "protectHFS": hfs}, f"{sel}:{want}", f"{got}")
    # cleanup_mode
    modes = [0o100644, 0o100755, 0o104755, 0o102755, 0o101644, 0o100666, 0o100777, 0o100600, 0o100700, 0o100100,
             0o120000, 0o120777, 0o40000, 0o160000, 0o100000, 0, 0o644, 0o7777, 0o107777, 0o170000, 0o140644, 0o10644]
    modes += [rng.getrandbits(rng.choice([9, 12, 16, 17, 20])) for _ in range(ctx.budget(400))]
    outs = ctx.driver.batch([f"c17.cleanup {m}" for m in modes])
    for m, o in zip(modes, outs):
        r = str(I.cleanup_mode(m))
        ctx.count("cleanup_mode", m, True, oct(int(r)))
        if o != r:
            ctx.disagree("cleanup_mode", {"mode": m}, o, r)
        if stat.S_ISREG(int(r)) and stat.S_IMODE(int(r)) not in (0o644, 0o755):
            ctx.oracle_fail("cleanup_mode", {"mode": m}, f"cleanup_mode({oct(m)}) = {oct(int(r))}: not 0644/0755", None)
    # the assumption the HFS theorems make about `fold`: ASCII in, ASCII lower-case out
    import unicodedata
    bad = 0
    for a in range(128):
        for b in ([None] + list(range(128)) if ctx.thorough else [None, 0x41, 0x67, 0x7f]):
            s = chr(a) + (chr(b) if b is not None else "")
            ctx.count("fold.ascii", s, True)
            if unicodedata.normalize("NFD", s).lower() != s.encode().lower().decode():
                bad += 1
                ctx.disagree("fold.ascii", {"s": s.encode().hex()}, s.encode().lower().hex(),
                             unicodedata.normalize("NFD", s).lower().encode().hex())




# ------------------------------------------------------------------------------------------------
# worker side: hostile trees materialised through the real entry points in a sandbox
#
# sandbox layout (everything under ctx.scratch):   <base>/src            clone source (optional)
#                                                  <base>/outer/...      canaries
#                                                  <base>/outer/wt       the work tree, wt/.git with canaries
# A tree spec is a list of entries {"n": hex name, "m": mode, and one of "blob": hex | "link": hex | "tree": [...] |
# "gitlink": 1}; names are arbitrary bytes (may contain '/'); entries are written raw, in the given order.

# Files an operation may legitimately rewrite inside wt/.git, PER OPERATION (everything else under .git, and
# everything outside the work tree, must be byte-identical before/after the step).  `objects/` is special: object
# files are content-addressed, so an existing one never changes; new ones may appear.
_REFS = ("HEAD", "ORIG_HEAD", "packed-refs", "refs/", "logs/")
ENTITLED = {
    "reset_hard": ("index",) + _REFS, "reset_mixed": ("index",) + _REFS, "reset_soft": _REFS,
    "checkout": ("index",) + _REFS, "build_index": ("index",), "checkout_paths": ("index",),
    "stash_pop": ("index", "refs/stash", "logs/"), "patch": ("index",), "patch_to": ("index",),
    "pull": ("index", "FETCH_HEAD") + _REFS,
    "sparse": ("index", "info/sparse-checkout", "config"),
    "stash_push": ("index", "refs/stash", "logs/"), "stash_pop_real": ("index", "refs/stash", "logs/"),
    "restore": ("index",),
    "submodule_update": ("index", "config", "modules/"),
}
_SEQ = ("index", "MERGE_HEAD", "MERGE_MSG", "MERGE_MODE", "CHERRY_PICK_HEAD", "REVERT_HEAD", "AUTO_MERGE", "rebase-apply/", "rebase-merge/") + _REFS
for _op in ("merge", "cherry_pick", "revert", "am"):
    ENTITLED[_op] = _SEQ
_RE_HEAD = re.compile(rb"^(ref: refs/[\w/.-]+|[0-9a-f]{40})\n$")
_RE_REF = re.compile(rb"^[0-9a-f]{40}\n$")
_RE_LOGLINE = re.compile(rb"^[0-9a-f]{40} [0-9a-f]{40} .* \d+ [+-]\d{4}(\t.*)?$")


def _control_file_ok(rel_git: str, data: bytes) -> bool:
    """Does a rewritable control file still look like what dulwich writes there?  (Detects a hostile blob or patch
    written THROUGH a symlink into HEAD / a ref / a reflog / the index.)"""
    if rel_git == "index":
        return data[:4] == b"DIRC"
    if rel_git == "HEAD":
        return bool(_RE_HEAD.match(data))
    if rel_git == "ORIG_HEAD" or rel_git.startswith("refs/"):
        return bool(_RE_REF.match(data))
    if rel_git.startswith("logs/"):
        return all(_RE_LOGLINE.match(l) for l in data.split(b"\n") if l)
    if rel_git == "packed-refs":
        return all(l.startswith((b"#", b"^")) or re.match(rb"^[0-9a-f]{40} \S+$", l) for l in data.split(b"\n") if l)
    return True


def _snap(base: str):
    """{relpath: descriptor} of everything under base except the work-tree payload (outer/wt minus outer/wt/.git):
    ("dir", mode) | ("link", target) | ("file", mode, sha1, looks-valid) | ("other", mode)."""
    out = {}
    wt = os.path.join(base, "outer", "wt")
    gitdir = os.path.join(wt, ".git")

    def walk(d):
        try:
            ents = sorted(os.scandir(d), key=lambda e: e.name)
        except OSError as e:
            out[os.path.relpath(d, base)] = ("unreadable", type(e).__name__)
            return
        for e in ents:
            p = e.path
            rel = os.path.relpath(p, base)
            if d == wt and e.name != ".git":
                continue
            st = os.lstat(p)
            m = stat.S_IMODE(st.st_mode)
            if stat.S_ISLNK(st.st_mode):
                out[rel] = ("link", os.readlink(p))
            elif stat.S_ISDIR(st.st_mode):
                out[rel] = ("dir", m)
                walk(p)
            elif stat.S_ISREG(st.st_mode):
                with open(p, "rb") as f:
                    data = f.read()
                ok = _control_file_ok(os.path.relpath(p, gitdir), data) if p.startswith(gitdir + os.sep) else True
                out[rel] = ("file", m, hashlib.sha1(data).hexdigest(), ok)
            else:
                out[rel] = ("other", m)
    walk(base)
    return out


def _snap_diff(a: dict, b: dict, op: str = "") -> list:
    """Changes the step was NOT entitled to make."""
    d = []
    gpre = "outer/wt/.git/"
    ent = ENTITLED.get(op, ())
    for k in sorted(set(a) | set(b)):
        x, y = a.get(k), b.get(k)
        if x == y:
            continue
        if k.startswith(gpre):
            rg = k[len(gpre):]
            if rg.endswith(".lock") and (x is None or y is None):
                continue
            if rg.startswith("objects/"):
                # new object files / fan-out directories may appear; nothing that existed may change or vanish
                if x is None and y is not None and y[0] in ("file", "dir"):
                    continue
            elif any(rg == e or (e.endswith("/") and (rg.startswith(e) or rg + "/" == e)) for e in ent):
                # rewritable by this operation: fine as long as the result is a regular, plausible control file
                # (or a directory, or gone) — not a symlink, not foreign content
                if y is None or y[0] == "dir" or (y[0] == "file" and y[3]):
                    continue
        d.append([k, list(x) if x is not None else None, list(y) if y is not None else None])
    return d


def _wt_listing(wt: str):
    """[(relpath bytes-hex, type, mode, link target hex)] of the work-tree payload (no following of links)."""
    out = []
    bwt = os.fsencode(wt)

    def walk(d, top):
        try:
            ents = sorted(os.scandir(d), key=lambda e: e.name)
        except OSError:
            return
        for e in ents:
            if top and e.name == b".git":
                continue
            st = os.lstat(e.path)
            rel = os.path.relpath(e.path, bwt)
            if stat.S_ISLNK(st.st_mode):
                out.append([rel.hex(), "link", 0, os.readlink(e.path).hex()])
            elif stat.S_ISDIR(st.st_mode):
                out.append([rel.hex(), "dir", stat.S_IMODE(st.st_mode), ""])
                walk(e.path, False)
            elif stat.S_ISREG(st.st_mode):
                head = b""
                if e.name == b".git":
                    with open(e.path, "rb") as f:
                        head = f.read(8)
                out.append([rel.hex(), "file", stat.S_IMODE(st.st_mode), head.hex()])
            else:
                out.append([rel.hex(), "other", stat.S_IMODE(st.st_mode), ""])
    walk(bwt, True)
    return out


def _write_tree(store, spec) -> bytes:
    from dulwich.objects import Blob, ShaFile, Tree
    raw = b""
    for e in spec:
        name = bytes.fromhex(e["n"])
        mode = e["m"]
        if "tree" in e:
            sha = _write_tree(store, e["tree"])
        elif "gitlink" in e:
            sha = _GITLINK_SHA[0]
        else:
            b = Blob.from_string(bytes.fromhex(e["blob"] if "blob" in e else e["link"]))
            store.add_object(b)
            sha = b.id
        raw += b"%o %s\0" % (mode, name) + bytes.fromhex(sha.decode())
    t = ShaFile.from_raw_string(Tree.type_num, raw)
    store.add_object(t)
    return t.id


_GITLINK_SHA = [b"1" * 40]


def _commit(store, tree_id, parents=(), msg=b"m") -> bytes:
    from dulwich.objects import Commit
    c = Commit()
    c.tree = tree_id
    c.author = c.committer = b"v <v@example.com>"
    c.author_time = c.commit_time = 0
    c.author_timezone = c.commit_timezone = 0
    c.message = msg
    c.parents = list(parents)
    store.add_object(c)
    return c.id


def _canaries(base: str):
    o = os.path.join(base, "outer")
    os.makedirs(os.path.join(o, "outside_dir", "sub"), exist_ok=True)
    os.makedirs(os.path.join(o, "empty_dir"), exist_ok=True)
    for rel, content in (("canary.txt", b"canary\n"), ("outside_dir/x", b"precious x\n"), ("outside_dir/y", b"precious y\n"),
                         ("outside_dir/sub/y", b"precious sub/y\n"), ("outside_dir/sub/z", b"precious sub/z\n")):
        with open(os.path.join(o, rel), "wb") as f:
            f.write(content)


def _git_canaries(wt: str):
    g = os.path.join(wt, ".git")
    os.makedirs(os.path.join(g, "hooks"), exist_ok=True)
    os.makedirs(os.path.join(g, "canary_dir"), exist_ok=True)
    for rel, content, mode in (("canary", b"git canary\n", 0o644), ("hooks/pre-commit", b"#!/bin/sh\nexit 0\n", 0o755),
                               ("canary_dir/x", b"x\n", 0o644), ("canary_dir/y", b"y\n", 0o644)):
        pth = os.path.join(g, rel)
        with open(pth, "wb") as f:
            f.write(content)
        os.chmod(pth, mode)


def _set_cfg(r, cfg: dict):
    c = r.get_config()
    for k in ("protectNTFS", "protectHFS", "symlinks", "filemode"):
        if cfg.get(k) is not None:
            c.set((b"core",), k.encode(), b"true" if cfg[k] else b"false")
    c.write_to_path()


def _old_paths(r, kind: str):
    """tree paths the next update would treat as 'old': index entries / HEAD tree."""
    from dulwich.object_store import iter_tree_contents
    try:
        if kind == "index":
            return [p.hex() for p in r.open_index()]
        head = r[b"HEAD"]
        return [e.path.hex() for e in iter_tree_contents(r.object_store, head.tree)]
    except Exception:
        return []


def impl_scenario(a):
    """Run one scenario; returns per step: outcome, snapshot diff outside the payload, payload listing,
    and the pre-state facts the parent needs to classify a failure."""
    import io
    from dulwich import porcelain
    from dulwich.repo import Repo
    base = a["base"]
    assert base.startswith(a["scratch"] + os.sep) and "/../" not in base
    os.umask(0o022)
    if os.path.exists(base):
        shutil.rmtree(base)
    wt = os.path.join(base, "outer", "wt")
    os.makedirs(os.path.join(base, "outer"))
    _canaries(base)
    os.chdir(os.path.join(base, "outer"))
    steps = a["steps"]
    trees = a["trees"]
    res = []
    r = None
    commits = []

    def add_objects(repo):
        ids = []
        for spec in trees:
            tid = _write_tree(repo.object_store, spec)
            ids.append((tid, _commit(repo.object_store, tid)))
        return ids

    _GITLINK_SHA[0] = b"1" * 40
    if any(st["op"] == "submodule_update" for st in steps):
        # an attacker-controlled repository the .gitmodules of the hostile trees point at (url /ABS/subsrc)
        sub = Repo.init(os.path.join(base, "subsrc"), mkdir=True)
        stree = _write_tree(sub.object_store, [{"n": b"payload".hex(), "m": 0o100644, "blob": b"attacker file\n".hex()},
                                               {"n": b"hooks".hex(), "m": 0o40000, "tree": [{"n": b"x".hex(), "m": 0o100755, "blob": b"#!/bin/sh\n".hex()}]}])
        _GITLINK_SHA[0] = _commit(sub.object_store, stree)
        sub.refs[b"refs/heads/master"] = _GITLINK_SHA[0]
        sub.close()
    first = steps[0]
    if first["op"] in ("clone", "clone_nc"):
        src = os.path.join(base, "src")
        os.makedirs(src)
        sr = Repo.init(src)
        sc = add_objects(sr)
        for i, (_, cid) in enumerate(sc):
            sr.refs[b"refs/heads/b%d" % i] = cid
        sr.refs.set_symbolic_ref(b"HEAD", b"refs/heads/b%d" % first["t"])
        sr.close()
        before = _snap(base)
        out = "ok"
        try:
            r = porcelain.clone(src, wt, checkout=(first["op"] == "clone"), errstream=io.BytesIO())
        except Exception as e:
            out = type(e).__name__
        after = _snap(base)
        # ignore the freshly created control directory in this one diff
        diff = [d for d in _snap_diff(before, after) if not d[0].startswith("outer/wt/.git") and d[0] != "outer/wt"]
        listing = _wt_listing(wt) if os.path.isdir(wt) else []
        res.append({"op": first["op"], "out": out, "diff": diff, "wt": listing, "links": [], "old_index": [], "old_head": []})
        if r is None:
            if os.path.exists(wt):
                shutil.rmtree(wt)
            os.makedirs(wt)
            r = Repo.init(wt)
        commits = add_objects(r)
        steps = steps[1:]
    else:
        os.makedirs(wt)
        r = Repo.init(wt)
        commits = add_objects(r)
        r.refs[b"refs/heads/master"] = _commit(r.object_store, _write_tree(r.object_store, []))
    _set_cfg(r, a.get("cfg", {}))
    _git_canaries(wt)
    os.chdir(wt)

    for st in steps:
        op = st["op"]
        pre_links = [[x[0], x[3]] for x in _wt_listing(wt) if x[1] == "link"]
        old_index, old_head = _old_paths(r, "index"), _old_paths(r, "head")
        if op == "user":
            # the "user" changes the work tree by hand between operations ("on top of any earlier checkout"):
            # [path, kind, payload] with kind rm | file | dir | link; paths are plain relative names inside wt
            for ph, kind, pl in st["set"]:
                try:
                    rel = bytes.fromhex(ph)
                    assert rel and not rel.startswith(b"/") and b".." not in rel.split(b"/") and rel.split(b"/")[0] != b".git"
                    tgt = os.path.join(os.fsencode(wt), rel)
                    if os.path.islink(tgt) or os.path.isfile(tgt):
                        os.unlink(tgt)
                    elif os.path.isdir(tgt):
                        shutil.rmtree(tgt)
                    if kind != "rm":
                        os.makedirs(os.path.dirname(tgt), exist_ok=True)
                    if kind == "file":
                        with open(tgt, "wb") as f:
                            f.write(bytes.fromhex(pl))
                    elif kind == "dir":
                        os.makedirs(tgt)
                        with open(os.path.join(tgt, b"inner"), "wb") as f:
                            f.write(b"user file\n")
                    elif kind == "link":
                        os.symlink(bytes.fromhex(pl), tgt)
                except OSError:
                    pass      # the user could not do that on this disk state
            for ph in st.get("stage", []):
                try:
                    porcelain.add(r, paths=[os.path.join(os.fsencode(wt), bytes.fromhex(ph))])
                except Exception:
                    pass
            res.append({"op": "user", "out": "ok", "diff": [], "wt": _wt_listing(wt), "links": [], "old_index": [], "old_head": []})
            continue
        if op == "pull" and os.path.isdir(os.path.join(base, "src")):
            # (harness side, before the snapshot) the clone source publishes a commit with tree t on top of our HEAD
            sr = Repo(os.path.join(base, "src"))
            try:
                sr.refs[b"refs/heads/pullme"] = _commit(sr.object_store, commits[st["t"]][0], [r.refs[b"HEAD"]], b"pull me")
            except KeyError:
                pass      # no HEAD commit to build on (the clone failed): the pull will simply fail
            finally:
                sr.close()
        before = _snap(base)
        out = "ok"
        try:
            if op in ("reset_hard", "reset_mixed", "reset_soft"):
                porcelain.reset(r, op.split("_")[1], commits[st["t"]][1])
            elif op == "checkout":
                porcelain.checkout(r, commits[st["t"]][1], force=bool(st.get("force")))
            elif op == "build_index":
                r.get_worktree().reset_index(commits[st["t"]][0])
            elif op == "checkout_paths":
                porcelain.checkout(r, commits[st["t"]][1], paths=[bytes.fromhex(p) for p in st["paths"]])
            elif op == "stash_pop":
                head = r.refs[b"HEAD"]
                ci = _commit(r.object_store, commits[st["i"]][0], [head], b"index on x")
                cs = _commit(r.object_store, commits[st["t"]][0], [head, ci], b"WIP on x")
                try:
                    old = r.refs[b"refs/stash"]
                except KeyError:
                    old = None
                r.refs.set_if_equals(b"refs/stash", old, cs, message=b"WIP on x")
                porcelain.stash_pop(r)
            elif op == "pull":
                # a commit with tree t on top of the local HEAD, published by the clone source, then a real pull
                src = os.path.join(base, "src")
                porcelain.pull(r, src, refspecs=[b"refs/heads/pullme"], force=bool(st.get("force")),
                               errstream=io.BytesIO(), outstream=io.BytesIO())
            elif op == "stash_push":
                porcelain.stash_push(r)
            elif op == "stash_pop_real":
                porcelain.stash_pop(r)
            elif op == "restore":
                from dulwich.object_store import iter_tree_contents
                paths = [e.path for e in iter_tree_contents(r.object_store, commits[st["t"]][0])]
                porcelain.restore(r, paths=paths, source=commits[st["t"]][1], staged=False, worktree=True)
            elif op == "merge":
                head = r.refs[b"HEAD"]
                hp = r[head].parents
                x = _commit(r.object_store, commits[st["t"]][0], [hp[0] if (hp and st.get("side")) else head], b"merge me")
                porcelain.merge(r, x)
            elif op == "cherry_pick":
                head = r.refs[b"HEAD"]
                x = _commit(r.object_store, commits[st["t"]][0], [head], b"pick me")
                porcelain.cherry_pick(r, x)
            elif op == "revert":
                head = r.refs[b"HEAD"]
                pc = _commit(r.object_store, commits[st["t"]][0], [], b"parent")
                x = _commit(r.object_store, r[head].tree, [pc], b"revert me")
                porcelain.revert(r, x)
            elif op == "am":
                from dulwich.patch import write_tree_diff
                buf = io.BytesIO()
                write_tree_diff(buf, r.object_store, r[b"HEAD"].tree, commits[st["t"]][0])
                mbox = (b"From 0000000000000000000000000000000000000000 Mon Sep 17 00:00:00 2001\nFrom: A U Thor <a@example.com>\n"
                        b"Date: Thu, 1 Jan 1970 00:00:00 +0000\nSubject: [PATCH] hostile\n\nbody\n---\n" + buf.getvalue() + b"-- \n2.39.5\n")
                porcelain.am(r, io.BytesIO(mbox))
            elif op == "submodule_update":
                porcelain.submodule_update(r, init=True, force=bool(st.get("force")), errstream=io.BytesIO())
            elif op == "sparse":
                porcelain.sparse_checkout(r, patterns=list(st["patterns"]), force=bool(st.get("force")), cone=False)
            elif op == "patch":
                porcelain.apply_patch(r, io.BytesIO(bytes.fromhex(st["patch"])), strip=st.get("strip", 1))
            elif op == "patch_to":
                # the patch HEAD-tree -> tree t as dulwich itself writes it
                from dulwich.patch import write_tree_diff
                buf = io.BytesIO()
                write_tree_diff(buf, r.object_store, r[b"HEAD"].tree, commits[st["t"]][0])
                porcelain.apply_patch(r, io.BytesIO(buf.getvalue()))
            else:
                raise ValueError("unknown op " + op)
        except Exception as e:
            out = type(e).__name__ + ": " + str(e)[:120]
        after = _snap(base)
        res.append({"op": op, "out": out, "diff": _snap_diff(before, after, op), "wt": _wt_listing(wt),
                    "links": pre_links, "old_index": old_index, "old_head": old_head})
    try:
        r.close()
    except Exception:
        pass
    os.chdir(a["scratch"])
    if not a.get("keep"):
        shutil.rmtree(base, ignore_errors=True)
    return res




def impl_bift(a):
    """One real build_index_from_tree run on a prepared directory tree; returns the entry list the real
    iter_tree_contents produced, the outcome class and a walk of the whole sandbox (for the model comparison)."""
    import errno
    from dulwich.index import InvalidPathError, build_index_from_tree
    from dulwich.object_store import MemoryObjectStore, iter_tree_contents
    import dulwich.index as I
    base = a["base"]
    assert base.startswith(a["scratch"] + os.sep) and "/../" not in base
    os.umask(0o022)
    if os.path.exists(base):
        shutil.rmtree(base)
    os.makedirs(base)
    bb = os.fsencode(base)
    for rel, kind, *pl in a["nodes"]:
        pth = os.path.join(bb, bytes.fromhex(rel))
        if kind == "d":
            os.makedirs(pth, exist_ok=True)
        elif kind == "f":
            with open(pth, "wb") as f:
                f.write(bytes.fromhex(pl[1]))
            os.chmod(pth, pl[0])
        else:
            t = bytes.fromhex(pl[0])
            os.symlink(bb + t if t.startswith(b"/") else t, pth)
    store = MemoryObjectStore()

    def absolutise(spec):
        out = []
        for e in spec:
            e = dict(e)
            if "link" in e and bytes.fromhex(e["link"]).startswith(b"/"):
                e["link"] = (bb + bytes.fromhex(e["link"])).hex()
            if "tree" in e:
                e["tree"] = absolutise(e["tree"])
            out.append(e)
        return out
    tid = _write_tree(store, absolutise(a["tree"]))
    entries = []
    for e in iter_tree_contents(store, tid):
        if stat.S_ISDIR(e.mode):
            continue
        c = b"" if (e.mode & 0o170000) == 0o160000 else store[e.sha].as_raw_string()
        if (e.mode & 0o170000) == 0o120000 and c.startswith(bb + b"/"):
            c = c[len(bb):]
        entries.append([e.path.hex(), e.mode, c.hex()])
    vf = {"d": I.validate_path_element_default, "n": I.validate_path_element_ntfs, "h": I.validate_path_element_hfs,
          "b": lambda x: I.validate_path_element_ntfs(x) and I.validate_path_element_hfs(x)}[a["v"]]
    wt = os.path.join(bb, bytes.fromhex(a["root"]))
    out = "ok"
    os.chdir(base)
    try:
        build_index_from_tree(wt, os.path.join(bb, b"_index"), store, tid, honor_filemode=True, validate_path_element=vf)
    except InvalidPathError:
        out = "InvalidPath"
    except OSError as e:
        out = errno.errorcode.get(e.errno, "OSError")
    walk = {}

    def rec(d):
        for e in sorted(os.scandir(d), key=lambda x: x.name):
            rel = os.path.relpath(e.path, bb)
            if rel in (b"_index", b"_index.lock"):
                continue
            st = os.lstat(e.path)
            if stat.S_ISLNK(st.st_mode):
                t = os.readlink(e.path)
                if t.startswith(bb + b"/"):
                    t = t[len(bb):]
                walk[rel.hex()] = "l:" + (t.hex() or "-")
            elif stat.S_ISDIR(st.st_mode):
                walk[rel.hex()] = "d"
                rec(e.path)
            else:
                with open(e.path, "rb") as f:
                    walk[rel.hex()] = f"f:{stat.S_IMODE(st.st_mode)}:" + (f.read().hex() or "-")
    rec(bb)
    os.chdir(a["scratch"])
    shutil.rmtree(base, ignore_errors=True)
    return {"entries": entries, "out": out, "walk": walk}



def _prep_nodes(bb: bytes, nodes):
    for rel, kind, *pl in nodes:
        pth = os.path.join(bb, bytes.fromhex(rel))
        if kind == "d":
            os.makedirs(pth, exist_ok=True)
        elif kind == "f":
            with open(pth, "wb") as f:
                f.write(bytes.fromhex(pl[1]))
            os.chmod(pth, pl[0])
        else:
            t = bytes.fromhex(pl[0])
            os.symlink(bb + t if t.startswith(b"/") else t, pth)


def _walk_files(bb: bytes, skip=(b"outer/wt/.git",)):
    walk = {}

    def rec(d):
        for e in sorted(os.scandir(d), key=lambda x: x.name):
            rel = os.path.relpath(e.path, bb)
            if rel in skip or rel in (b"_index", b"_index.lock"):
                continue
            st = os.lstat(e.path)
            if stat.S_ISLNK(st.st_mode):
                t = os.readlink(e.path)
                if t.startswith(bb + b"/"):
                    t = t[len(bb):]
                walk[rel.hex()] = "l:" + (t.hex() or "-")
            elif stat.S_ISDIR(st.st_mode):
                walk[rel.hex()] = "d"
                rec(e.path)
            else:
                with open(e.path, "rb") as f:
                    walk[rel.hex()] = f"f:{stat.S_IMODE(st.st_mode)}:" + (f.read().hex() or "-")
    rec(bb)
    return walk


def impl_uwt_delete(a):
    """One real update_working_tree whose only change is the DELETE of `path` (old tree {path}, new tree {}),
    on a prepared directory tree; returns the outcome and a walk of the sandbox."""
    import errno
    import dulwich.index as I
    from dulwich.diff_tree import tree_changes
    from dulwich.repo import Repo
    base = a["base"]
    assert base.startswith(a["scratch"] + os.sep) and "/../" not in base
    os.umask(0o022)
    if os.path.exists(base):
        shutil.rmtree(base)
    bb = os.fsencode(base)
    wt = os.path.join(bb, bytes.fromhex(a["root"]))
    os.makedirs(wt)
    r = Repo.init(os.fsdecode(wt))
    _prep_nodes(bb, a["nodes"])
    old = _write_tree(r.object_store, a["old"])
    new = _write_tree(r.object_store, [])
    vf = {"d": I.validate_path_element_default, "n": I.validate_path_element_ntfs}[a["v"]]
    os.chdir(base)
    out = "ok"
    try:
        I.update_working_tree(r, old, new, change_iterator=tree_changes(r.object_store, old, new),
                              validate_path_element=vf, allow_overwrite_modified=True)
    except I.InvalidPathError:
        out = "InvalidPath"
    except OSError as e:
        out = errno.errorcode.get(e.errno, "OSError")
    walk = _walk_files(bb)
    r.close()
    os.chdir(a["scratch"])
    shutil.rmtree(base, ignore_errors=True)
    return {"out": out, "walk": walk}



def impl_uwt_write(a):
    """One real update_working_tree(None -> tree) (adds only) on a prepared directory tree; returns the change list in
    the order the real code applies it, the outcome class and a walk of the sandbox."""
    import dulwich.index as I
    from dulwich.diff_tree import tree_changes
    from dulwich.repo import Repo
    base = a["base"]
    assert base.startswith(a["scratch"] + os.sep) and "/../" not in base
    os.umask(0o022)
    if os.path.exists(base):
        shutil.rmtree(base)
    bb = os.fsencode(base)
    wt = os.path.join(bb, bytes.fromhex(a["root"]))
    os.makedirs(wt)
    r = Repo.init(os.fsdecode(wt))
    _prep_nodes(bb, a["nodes"])

    def absolutise(spec):
        out = []
        for e in spec:
            e = dict(e)
            if "link" in e and bytes.fromhex(e["link"]).startswith(b"/"):
                e["link"] = (bb + bytes.fromhex(e["link"])).hex()
            if "tree" in e:
                e["tree"] = absolutise(e["tree"])
            out.append(e)
        return out
    tid = _write_tree(r.object_store, absolutise(a["tree"]))
    changes = list(tree_changes(r.object_store, None, tid))
    entries = []
    for ch in changes:
        e = ch.new
        c = b"" if (e.mode & 0o170000) == 0o160000 else r.object_store[e.sha].as_raw_string()
        if (e.mode & 0o170000) == 0o120000 and c.startswith(bb + b"/"):
            c = c[len(bb):]
        entries.append([e.path.hex(), e.mode, c.hex()])
    vf = {"d": I.validate_path_element_default, "n": I.validate_path_element_ntfs}[a["v"]]
    os.chdir(base)
    out = "ok"
    try:
        I.update_working_tree(r, None, tid, change_iterator=iter(changes), validate_path_element=vf,
                              allow_overwrite_modified=True)
    except I.InvalidPathError:
        out = "InvalidPath"
    except OSError:
        out = "oserror"
    walk = _walk_files(bb)
    r.close()
    os.chdir(a["scratch"])
    shutil.rmtree(base, ignore_errors=True)
    return {"entries": entries, "out": out, "walk": walk}


def impl_sparse_apply(a):
    """One real apply_included_paths(force=True) on a prepared directory tree with an index built straight from the
    given entries (as `reset --mixed` does: names unvalidated); returns outcome class and a walk of the sandbox."""
    import dulwich.index as I
    from dulwich.objects import Blob
    from dulwich.repo import Repo
    from dulwich.sparse_patterns import apply_included_paths
    base = a["base"]
    assert base.startswith(a["scratch"] + os.sep) and "/../" not in base
    os.umask(0o022)
    if os.path.exists(base):
        shutil.rmtree(base)
    bb = os.fsencode(base)
    wt = os.path.join(bb, bytes.fromhex(a["root"]))
    os.makedirs(wt)
    r = Repo.init(os.fsdecode(wt))
    c = r.get_config()
    c.set((b"core",), b"protectNTFS", b"true" if a["v"] == "n" else b"false")
    c.write_to_path()
    _prep_nodes(bb, a["nodes"])
    index = r.open_index()
    included = set()
    for ph, mode, ch, excluded in a["entries"]:
        content = bytes.fromhex(ch)
        if (mode & 0o170000) == 0o120000 and content.startswith(b"/"):
            content = bb + content
        b = Blob.from_string(content)
        r.object_store.add_object(b)
        path = bytes.fromhex(ph)
        index[path] = I.IndexEntry(ctime=(0, 0), mtime=(0, 0), dev=0, ino=0, mode=mode, uid=0, gid=0, size=0, sha=b.id, flags=0)
        if not excluded:
            included.add(path.decode("utf-8"))
    index.write()
    os.chdir(base)
    out = "ok"
    try:
        apply_included_paths(r, included, force=True)
    except I.InvalidPathError:
        out = "InvalidPath"
    except OSError:
        out = "oserror"
    walk = _walk_files(bb)
    r.close()
    os.chdir(a["scratch"])
    shutil.rmtree(base, ignore_errors=True)
    return {"out": out, "walk": walk}


# ------------------------------------------------------------------------------------------------
# parent side: scenario construction, the oracle in the property's words, failure classification

def E_blob(name: bytes, content: bytes = b"data\n", mode: int = 0o100644):
    return {"n": name.hex(), "m": mode, "blob": content.hex()}


def E_link(name: bytes, target: bytes):
    return {"n": name.hex(), "m": 0o120000, "link": target.hex()}


def E_tree(name: bytes, entries: list):
    return {"n": name.hex(), "m": 0o40000, "tree": entries}


def E_gitlink(name: bytes):
    return {"n": name.hex(), "m": 0o160000, "gitlink": 1}


def mk_tree(items) -> list:
    """items: (path, kind, payload[, mode]); kind f=blob l=symlink g=gitlink; path split on '/' into subtrees,
    unless kind is upper-case (F/L): then the whole path is ONE raw entry name (may contain '/')."""
    root: list = []
    index = {(): root}
    for it in items:
        path, kind, payload = it[0], it[1], it[2]
        mode = it[3] if len(it) > 3 else 0o100644
        comps = [path] if kind.isupper() else path.split(b"/")
        cur = ()
        for c in comps[:-1]:
            nxt = cur + (c,)
            if nxt not in index:
                sub: list = []
                index[cur].append(E_tree(c, sub))
                index[nxt] = sub
            cur = nxt
        k = kind.lower()
        if k == "f":
            index[cur].append(E_blob(comps[-1], payload, mode))
        elif k == "l":
            index[cur].append(E_link(comps[-1], payload))
        else:
            index[cur].append(E_gitlink(comps[-1]))
    return root


def tree_paths(spec, prefix=b""):
    out = []
    for e in spec:
        n = bytes.fromhex(e["n"])
        p = prefix + b"/" + n if prefix else n
        if "tree" in e:
            out += tree_paths(e["tree"], p)
        else:
            out.append((p, e))
    return out


LINK_TARGETS = [b"../outside_dir", b"..", b".git", b".git/hooks", b".git/canary_dir", b"../outside_dir/sub", b".",
                b"sib", b"../empty_dir", b"/ABS/outer/outside_dir", b"../outside_dir/x", b".git/canary", b".git/config",
                b".git/HEAD", b".git/index", b".git/refs/heads/master", b".git/refs/heads", b".git/logs", b".git/objects"]
KEY_TARGETS = (b"../outside_dir", b".git/canary_dir", b".git/canary", b"../outside_dir/x", b".git/HEAD", b".git/refs/heads")
UNSAFE_NAMES = [b".git", b".GIT", b".Git", b".git ", b".git.", b".git . .", b"git~1", b"GIT~1", b"git~1 .",
                b".git::$INDEX_ALLOCATION", b".git:stream", b".g\xe2\x80\x8cit", b"\xef\xbb\xbf.git", b".gi\xe2\x80\xaet",
                b"a\\.git", b".git\\x", b"..", b".", b"", b". ", b".. "]
RAW_NAMES = [b"../outside_dir/pwn", b"../pwn", b"d/../../outside_dir/pwn", b"d/../../pwn", b"./x", b"d//x", b"/ABS/outer/abs_pwn",
             b".git/hooks/pwn", b".GIT/hooks/pwn", b"d/.git/config", b".git/canary", b"../outside_dir/x",
             b"..", b"C:/x", b"d/./x", b"a/b/../../../outside_dir/pwn", b".git /hooks/pwn", b"git~1/hooks/pwn"]
MODES = [0o100644, 0o100755, 0o104755, 0o102755, 0o101644, 0o100666, 0o100777, 0o100002, 0o106777, 0o100664]
KEEP = (b"keep", "f", b"keep\n")


def _abs(b: bytes, base: str) -> bytes:
    """the placeholder ABS stands for the sandbox's absolute path without its leading slash (never a system path)"""
    return b.replace(b"ABS", os.fsencode(base)[1:])


def _fix_abs(spec, base):
    out = []
    for e in spec:
        e = dict(e)
        e["n"] = _abs(bytes.fromhex(e["n"]), base).hex()
        if "link" in e:
            e["link"] = _abs(bytes.fromhex(e["link"]), base).hex()
        if "blob" in e and bytes.fromhex(e["n"]) == b".gitmodules":
            e["blob"] = _abs(bytes.fromhex(e["blob"]), base).hex()
        if "tree" in e:
            e["tree"] = _fix_abs(e["tree"], base)
        out.append(e)
    return out


def effective_v(cfg: dict) -> str:
    n = cfg.get("protectNTFS")
    hf = cfg.get("protectHFS")
    n = True if n is None else n
    hf = False if hf is None else hf
    return {(False, False): "d", (True, False): "n", (False, True): "h", (True, True): "b"}[(n, hf)]


def _resolve_rel(rel: bytes, links: dict, base: str, depth=0):
    """lexical resolution of <base>/outer/wt/<rel> through the work tree's pre-state symlinks (all components but
    following a final link too); returns a path relative to base (bytes), or None."""
    import posixpath as pp
    if depth > 8:
        return None
    cur = b"outer/wt"
    comps = rel.split(b"/")
    for i, c in enumerate(comps):
        nxt = pp.normpath(pp.join(cur, c))
        key = pp.relpath(nxt, b"outer/wt") if nxt.startswith(b"outer/wt/") else None
        if key is not None and key in links:
            t = links[key]
            if t.startswith(b"/"):
                bb = os.fsencode(base)
                if not t.startswith(bb + b"/"):
                    return None
                dest = pp.normpath(t[len(bb) + 1:])
            else:
                dest = pp.normpath(pp.join(cur, t))
            if dest.startswith(b"outer/wt/"):
                return _resolve_rel(pp.join(pp.relpath(dest, b"outer/wt"), *comps[i + 1:]) if comps[i + 1:] else
                                    pp.relpath(dest, b"outer/wt"), links, base, depth + 1)
            cur = dest
        else:
            cur = nxt
    return cur


def classify(step: dict, sr: dict, base: str):
    """Narrow failing-input classes (matched against findings/C17.jsonl); None = unclassified."""
    import posixpath as pp
    diff = sr["diff"]
    removed = [d for d in diff if d[2] is None]
    changed = [d for d in diff if d[2] is not None]
    links = {bytes.fromhex(p): bytes.fromhex(t) for p, t in sr["links"]}
    # ... or created by this very step before the delete ran (ADD d -> X precedes DELETE d/x in the change list)
    for relhex, typ, _mode, extra in sr["wt"]:
        if typ == "link":
            links.setdefault(bytes.fromhex(relhex), bytes.fromhex(extra))
    op = sr["op"]
    if op in ("reset_hard", "checkout", "pull", "merge", "cherry_pick", "revert") and removed and not changed:
        old = [bytes.fromhex(p) for p in (sr["old_index"] if op == "reset_hard" else sr["old_head"])]
        allowed = set()
        for p in old:
            comps = p.split(b"/")
            for k in range(1, len(comps)):
                pre = b"/".join(comps[:k])
                if pre in links:
                    dest = _resolve_rel(pre, links, base)
                    full = _resolve_rel(p, links, base)
                    if dest is None or full is None:
                        break
                    q = full
                    while q and q != dest and q != b".":
                        allowed.add(q)
                        q = pp.dirname(q)
                    break
        if allowed and all(os.fsencode(d[0]) in allowed for d in removed):
            return "uwt-delete-through-symlinked-leading-dir"
    if op == "submodule_update" and diff:
        # everything touched lies below the resolution of a gitlink path of HEAD through a work-tree symlink
        roots = set()
        for p in [bytes.fromhex(x) for x in sr["old_head"]]:
            comps = p.split(b"/")
            if any(b"/".join(comps[:k]) in links for k in range(1, len(comps) + 1)):
                q = _resolve_rel(p, links, base)
                if q:
                    roots.add(q)
        touched = [os.fsencode(d[0]) for d in diff]
        if roots and all(any(t == q or t.startswith(q + b"/") for q in roots) for t in touched):
            return "submodule-update-through-symlink"
    if op == "sparse" and diff:
        idx = [bytes.fromhex(p) for p in sr["old_index"]]
        by_name, by_link = set(), set()
        for p in idx:
            comps = p.split(b"/")
            # a leading component OR the path itself is a symlink on disk (open(..., "wb") follows a final link too)
            via_link = any(b"/".join(comps[:k]) in links for k in range(1, len(comps) + 1)) and b".." not in comps and b"" not in comps
            unsafe = any(c in (b"", b".", b"..") or dotgit_like(c, "b") for c in comps)
            if via_link:
                q = _resolve_rel(p, links, base)
                while q and q not in (b"", b".", b"outer", b"outer/wt"):
                    by_link.add(q)
                    q = pp.dirname(q)
            elif unsafe:
                q = pp.normpath(b"outer/wt/" + p)
                while q not in (b"", b".", b"outer", b"outer/wt"):
                    by_name.add(q)
                    q = pp.dirname(q)
        touched = {os.fsencode(d[0]) for d in diff}
        if touched <= by_name:
            return "sparse-unvalidated-index-name"
        if touched <= by_link | by_name:
            return "sparse-through-symlink"
    if op in ("patch", "patch_to") and changed and not removed:
        dests = {_resolve_rel(l, links, base) for l in links}
        if all(os.fsencode(d[0]) in dests for d in changed):
            return "patch-write-through-final-symlink"
    return None


def judge(ctx, stream: str, case: dict, res, base: str):
    """The oracle, in the property's words, on one scenario's per-step results."""
    v = effective_v(case.get("cfg", {}))
    steps = case["steps"]
    for i, sr in enumerate(res):
        step = steps[i] if i < len(steps) else {}
        if sr["op"] == "user":
            continue
        if sr["diff"]:
            cls = classify(step, sr, base)
            ctx.oracle_fail(stream, {**case, "failing_step": i, "diff": sr["diff"][:6], "outcome": sr["out"]},
                            f"step {i} ({sr['op']}) created/changed/deleted outside the work tree or inside .git: "
                            f"{sr['diff'][:3]}", cls)
        prev = {x[0]: (x[1], x[2]) for x in res[i - 1]["wt"]} if i > 0 else {}
        for relhex, typ, mode, extra in sr["wt"]:
            if prev.get(relhex) == (typ, mode):
                continue      # left by an earlier step (reported there): each step answers for what IT materialised
            rel = bytes.fromhex(relhex)
            if typ in ("file", "dir") and mode & 0o7002:
                ctx.oracle_fail(stream, {**case, "failing_step": i, "path": relhex, "mode": oct(mode)},
                                f"step {i} ({sr['op']}) left {rel!r} with mode {oct(mode)} (set-id/sticky/world-writable)",
                                None)
            for comp in rel.split(b"/"):
                if dotgit_like(comp, v):
                    if comp == b".git" and typ == "file" and bytes.fromhex(extra) == b"gitdir: " and b"/" in rel:
                        continue   # submodule placeholder written by dulwich itself below a gitlink path
                    cls = None
                    if sr["op"] == "sparse":
                        cls = "sparse-unvalidated-index-name"
                    if sr["op"] in ("patch", "patch_to"):
                        # same defect as the known patch finding when the name was created by writing THROUGH a
                        # symlink that sat at the patch target (final component) before the step
                        links = {bytes.fromhex(p): bytes.fromhex(t) for p, t in sr["links"]}
                        if any(_resolve_rel(l, links, base) == b"outer/wt/" + rel for l in links):
                            cls = "patch-write-through-final-symlink"
                    ctx.oracle_fail(stream, {**case, "failing_step": i, "path": relhex},
                                    f"step {i} ({sr['op']}) materialised the unsafe name {comp!r} at {rel!r} "
                                    f"(protections {v})", cls)
                    break


def run_scenario(ctx, worker, stream: str, case: dict, tag: str, n: int):
    base = str(ctx.scratch / "p" / "q" / f"c{n}")
    trees = [_fix_abs(t, base) for t in case["trees"]]
    steps = []
    for st in case["steps"]:
        st = dict(st)
        if "patch" in st:
            st["patch"] = _abs(bytes.fromhex(st["patch"]), base).hex()
        steps.append(st)
    rep = worker.ask({"mod": MOD, "op": "scenario", "args": {"base": base, "scratch": str(ctx.scratch), "trees": trees,
                                                            "steps": steps, "cfg": case.get("cfg", {})}}, timeout=120)
    ctx.count(stream, json.dumps(case, sort_keys=True), True, tag)
    if "r" not in rep:
        # a crash / unexpected harness-level exception is not a verdict about the property
        ctx.notes.append(f"scenario {tag} did not complete: {str(rep)[:200]}")
        ctx.extra_cov["scenario_errors"] = ctx.extra_cov.get("scenario_errors", 0) + 1
        return None
    judge(ctx, stream, case, rep["r"], base)
    if stream.endswith("random") and len([x for x in ctx.samples if isinstance(x, dict) and x.get("stream") == stream]) < 1:
        ctx.sample({"stream": stream, "steps": case["steps"], "cfg": case.get("cfg"),
                    "trees": [[(p.decode("latin1"), oct(e["m"])) for p, e in tree_paths(t)] for t in case["trees"]],
                    "outcomes": [sr["out"][:60] for sr in rep["r"]]})
    for sr in rep["r"]:
        key = sr["op"] + ":" + ("ok" if sr["out"] == "ok" else sr["out"].split(":")[0])
        d = ctx.hist.setdefault(stream + ".outcomes", {})
        d[key] = d.get(key, 0) + 1
    return rep["r"]


def _patch_new(path: bytes, content: bytes = b"pwned\n", mode: bytes = b"100644") -> bytes:
    return (b"diff --git a/" + path + b" b/" + path + b"\nnew file mode " + mode + b"\n--- /dev/null\n+++ b/" + path +
            b"\n@@ -0,0 +1 @@\n+" + content)


def _patch_del(path: bytes, content: bytes) -> bytes:
    return (b"diff --git a/" + path + b" b/" + path + b"\ndeleted file mode 100644\n--- a/" + path + b"\n+++ /dev/null\n"
            b"@@ -1 +0,0 @@\n-" + content)


def _patch_mod(path: bytes, old: bytes, new: bytes) -> bytes:
    return (b"diff --git a/" + path + b" b/" + path + b"\n--- a/" + path + b"\n+++ b/" + path + b"\n@@ -1 +1 @@\n-" + old + b"+" + new)


UNSAFE_PATHS = [b".git/hooks/pre-commit", b".GIT/hooks/pwn", b"../outside_dir/pwned", b"d/pwned", b"/ABS/outer/abs_pwn",
                b"git~1/hooks/pwn", b".git /hooks/pwn", b"lnk", b"x/../../outside_dir/pwn2", b"g/pwn", b"../outside_dir/x", b"d/x"]
RC_SLOTS = ("diff_a", "diff_b", "minus", "plus", "from", "to")


def _patch_rc(kind: str, names: dict, body: str, mode: bool, prefixed: bool) -> bytes:
    """A rename/copy patch whose path-bearing header lines are given one by one (they may DISAGREE)."""
    pre_a, pre_b = (b"a/", b"b/") if prefixed else (b"", b"")
    out = b"diff --git a/" + names["diff_a"] + b" b/" + names["diff_b"] + b"\n"
    if mode:
        out += b"old mode 100644\nnew mode 100755\n"
    out += b"similarity index " + (b"100%" if body != "hunks" else b"80%") + b"\n"
    out += kind.encode() + b" from " + pre_a + names["from"] + b"\n" + kind.encode() + b" to " + pre_b + names["to"] + b"\n"
    if body in ("headers", "hunks"):
        out += b"--- a/" + names["minus"] + b"\n+++ b/" + names["plus"] + b"\n"
    if body == "hunks":
        out += b"@@ -1 +1 @@\n-src\n+dst\n"
    return out


def rc_patch_scenarios():
    """Every unsafe path in every header slot of rename/copy patches (pure, with a harmless ---/+++ pair and no hunks,
    with hunks; with and without mode change; from/to lines bare or a/-b/-prefixed), 12 patches per scenario."""
    tree = mk_tree([KEEP] + [(b"s%d" % i, "f", b"src\n") for i in range(12)] +
                   [(b"d", "l", b"../outside_dir"), (b"lnk", "l", b".git/canary"), (b"g", "l", b".git/canary_dir")])
    patches = []
    k = 0
    for kind in ("rename", "copy"):
        for body in ("none", "headers", "hunks"):
            for prefixed in (True, False):
                for slot in RC_SLOTS:
                    for U in UNSAFE_PATHS:
                        i = len(patches) % 12
                        names = {"diff_a": b"s%d" % i, "diff_b": b"n%d" % i, "minus": b"s%d" % i, "plus": b"n%d" % i,
                                 "from": b"s%d" % i, "to": b"n%d" % i}
                        names[slot] = U
                        k += 1
                        patches.append((f"{kind}:{body}:{slot}", _patch_rc(kind, names, body, k % 2 == 0, prefixed)))
    out = []
    for j in range(0, len(patches), 12):
        chunk = patches[j:j + 12]
        steps = [_step("reset_hard", 0)] + [{"op": "patch", "patch": pt.hex()} for _, pt in chunk]
        out.append(("rcpatch:" + chunk[0][0], {"trees": [tree], "steps": steps, "cfg": {}}))
    return out


KINDS = ["file", "exec", "ln_sib", "ln_outer", "ln_git", "ln_gitsub", "ln_file", "ln_dangling", "dir", "gitlink"]
_KIND_TARGET = {"ln_sib": b"sibdir", "ln_outer": b"../outside_dir", "ln_git": b".git", "ln_gitsub": b".git/canary_dir",
                "ln_file": b"../outside_dir/x", "ln_dangling": b"nowhere"}


def kind_items(P: bytes, kind: str) -> list:
    """tree items that make path P be of the given kind (link targets are relative to the link's directory)"""
    up = b"../" * P.count(b"/")
    if kind == "file":
        return [(P, "f", b"file\n")]
    if kind == "exec":
        return [(P, "f", b"exec\n", 0o100755)]
    if kind == "dir":
        return [(P + b"/inner", "f", b"inner\n"), (P + b"/sub/deep", "f", b"deep\n")]
    if kind == "gitlink":
        return [(P, "g", None)]
    t = _KIND_TARGET[kind]
    return [(P, "l", t if kind == "ln_dangling" else up + t)]


def kind_user_set(P: bytes, kind: str) -> list:
    """the same kind put on disk by hand (gitlink: an empty directory with a .git file is not created by hand: use dir)"""
    up = b"../" * P.count(b"/")
    if kind in ("file", "exec"):
        return [[P.hex(), "file", b"user\n".hex()]]
    if kind in ("dir", "gitlink"):
        return [[P.hex(), "dir", ""]]
    t = _KIND_TARGET[kind]
    return [[P.hex(), "link", (t if kind == "ln_dangling" else up + t).hex()]]


def kind_collision_scenarios(triples_rng=None, n_triples=0):
    """Every ordered pair of kinds at the same path (top level, and below a real directory), each as a plain switch
    and with HEAD/index moved away from the disk in between (reset --mixed / --soft, stash pop, manual change by the
    user); the same below a leading directory that is a symlink on disk."""
    out = []
    base_items = [KEEP, (b"sibdir/f", "f", b"sib\n")]
    T0 = mk_tree(base_items)
    for P in (b"p", b"rd/p"):
        extra = [(b"rd/other", "f", b"o\n")] if b"/" in P else []
        T0p = mk_tree(base_items + extra)
        for k1 in KINDS:
            for k2 in KINDS:
                T1 = mk_tree(base_items + extra + kind_items(P, k1))
                T2 = mk_tree(base_items + extra + kind_items(P, k2))
                trees = [T0p, T1, T2]
                tag = f"kinds:{k1}>{k2}:{P.decode()}"
                out.append((tag + ":plain", {"trees": trees, "steps": [_step("reset_hard", 1), _step("reset_hard", 2)], "cfg": {}}))
                out.append((tag + ":mixed", {"trees": trees, "steps": [_step("reset_hard", 1), _step("reset_mixed", 0), _step("reset_hard", 2)], "cfg": {}}))
                out.append((tag + ":soft", {"trees": trees, "steps": [_step("reset_hard", 1), _step("reset_soft", 0), _step("checkout_force", 2)], "cfg": {}}))
                if P == b"p":
                    out.append((tag + ":user", {"trees": trees, "steps": [_step("reset_hard", 0), {"op": "user", "set": kind_user_set(P, k1)},
                                                                          _step("reset_hard", 2)], "cfg": {}}))
                    out.append((tag + ":stash", {"trees": trees, "steps": [_step("reset_hard", 1), _step("reset_mixed", 0), _step("stash_pop", 2)], "cfg": {}}))
    # below a leading directory that is a symlink on disk while the index no longer says so
    for T in (b"../outside_dir", b".git", b".git/canary_dir", b"sibdir"):
        for k2 in KINDS:
            trees = [T0, mk_tree(base_items + [(b"ld", "l", T)]), mk_tree(base_items + kind_items(b"ld/p", k2))]
            out.append((f"kinds:leading:{k2}:{T.decode()}", {"trees": trees, "steps": [_step("reset_hard", 1), _step("reset_mixed", 0), _step("reset_hard", 2)], "cfg": {}}))
            out.append((f"kinds:leading-user:{k2}:{T.decode()}", {"trees": trees, "steps": [_step("reset_hard", 0), {"op": "user", "set": [[b"ld".hex(), "link", T.hex()]]},
                                                                                            _step("checkout_force", 2)], "cfg": {}}))
    if triples_rng is not None:
        for _ in range(n_triples):
            P = triples_rng.choice([b"p", b"rd/p"])
            extra = [(b"rd/other", "f", b"o\n")] if b"/" in P else []
            ks = [triples_rng.choice(KINDS) for _ in range(3)]
            trees = [mk_tree(base_items + extra)] + [mk_tree(base_items + extra + kind_items(P, k)) for k in ks]
            mid = lambda: _step(triples_rng.choice(["reset_mixed", "reset_soft"]), 0)
            fin = lambda t: _step(triples_rng.choice(["reset_hard", "checkout_force", "stash_pop"]), t)
            steps = [_step("reset_hard", 1)]
            for t in (2, 3):
                if triples_rng.random() < 0.7:
                    steps.append(mid())
                if triples_rng.random() < 0.3:
                    steps.append({"op": "user", "set": kind_user_set(P, triples_rng.choice(KINDS))})
                steps.append(fin(t))
            out.append(("kinds3:" + ">".join(ks), {"trees": trees, "steps": steps, "cfg": {}}))
    return out


def submodule_scenarios():
    """submodule update materialises the submodule's tree at a gitlink path of HEAD: below a symlinked leading directory,
    at a path that is itself a symlink, and the benign case."""
    out = []
    def gm(path):
        return (b".gitmodules", "f", b'[submodule "s"]\n\tpath = ' + path + b"\n\turl = /ABS/subsrc\n")
    for T in (b"../outside_dir", b".git/canary_dir", b"sibdir"):
        Tl = mk_tree([KEEP, (b"sibdir/f", "f", b"s\n"), gm(b"d/sub"), (b"d", "l", T)])      # .gitmodules already on disk
        Tn = mk_tree([KEEP, (b"sibdir/f", "f", b"s\n"), gm(b"d/sub"), (b"d/sub", "g", None)])
        Tflat = [E_blob(b"keep", b"keep\n"), E_blob(b".gitmodules", gm(b"d/sub")[2]), E_link(b"d", T), E_gitlink(b"d/sub")]
        Tfin_l = mk_tree([KEEP, gm(b"sub"), (b"sub", "l", T)])
        Tfin = mk_tree([KEEP, gm(b"sub"), (b"sub", "g", None)])
        out.append(("submodule:leading-mixed", {"trees": [Tl, Tn], "cfg": {}, "steps": [_step("reset_hard", 0), _step("reset_mixed", 1), {"op": "submodule_update"}]}))
        out.append(("submodule:leading-soft", {"trees": [Tl, Tn], "cfg": {}, "steps": [_step("reset_hard", 0), _step("reset_soft", 1), {"op": "submodule_update", "force": 1}]}))
        out.append(("submodule:leading-flat", {"trees": [Tflat], "cfg": {}, "steps": [_step("reset_hard", 0), {"op": "submodule_update"}]}))
        out.append(("submodule:final-mixed", {"trees": [Tfin_l, Tfin], "cfg": {}, "steps": [_step("reset_hard", 0), _step("reset_mixed", 1), {"op": "submodule_update"}]}))
    Tok = mk_tree([KEEP, gm(b"sub"), (b"sub", "g", None)])
    out.append(("submodule:benign", {"trees": [Tok], "cfg": {}, "steps": [_step("reset_hard", 0), {"op": "submodule_update"}]}))
    for U in (b".git/modules-x", b"../outside_dir/sm", b".GIT/x", b"git~1"):
        Tu = mk_tree([KEEP, gm(U), (U, "g", None)])
        out.append(("submodule:unsafe-name", {"trees": [mk_tree([KEEP, gm(U)]), Tu], "cfg": {}, "steps": [_step("reset_hard", 0), _step("reset_mixed", 1), {"op": "submodule_update"}]}))
    return out


def sparse_scenarios():
    """sparse checkout materialises / removes INDEX paths: hostile index contents (reset --mixed does not validate
    names) and a leading symlink on disk."""
    out = []
    T0 = mk_tree([KEEP])
    Traw = [E_blob(b"keep", b"keep\n"), E_blob(b"../outside_dir/pwn", b"pwned\n"), E_blob(b".git/hooks/pwn", b"#!/bin/sh\n"),
            E_blob(b".GIT/hooks/pwn", b"x\n"), E_tree(b"ok", [E_blob(b"f", b"f\n")])]
    out.append(("sparse:rawnames", {"trees": [T0, Traw], "cfg": {},
                                    "steps": [_step("reset_hard", 0), _step("reset_mixed", 1), {"op": "sparse", "patterns": ["*"]}]}))
    for T in (b"../outside_dir", b".git/canary_dir"):
        Tl = mk_tree([KEEP, (b"d", "l", T)])
        Td = mk_tree([KEEP, (b"d/x", "f", b"precious x\n"), (b"d/pwn", "f", b"pwned\n")])
        out.append(("sparse:leading-include", {"trees": [Tl, Td], "cfg": {},
                                               "steps": [_step("reset_hard", 0), _step("reset_mixed", 1), {"op": "sparse", "patterns": ["*"]}]}))
        out.append(("sparse:leading-exclude", {"trees": [Tl, Td], "cfg": {},
                                               "steps": [_step("reset_hard", 0), _step("reset_mixed", 1), {"op": "sparse", "patterns": ["/keep"], "force": 1}]}))
    Tplain = mk_tree([KEEP, (b"d/x", "f", b"x\n"), (b"e/y", "f", b"y\n")])
    out.append(("sparse:benign", {"trees": [Tplain], "cfg": {}, "steps": [_step("reset_hard", 0), {"op": "sparse", "patterns": ["/d/"]},
                                                                         {"op": "sparse", "patterns": ["*"]}]}))
    return out


def unchanged_route_scenarios():
    """Entries that reach update_working_tree's write loop as UNCHANGED: the unsafe path is already in the index (a
    mixed reset copies tree names unvalidated), the target tree of the following reset --hard is the SAME tree, and the
    file is absent on disk.  Every hostile-name family, as nested trees (so that index tree == target tree) and flat,
    under every protection setting; packed trees (always run) and one name per tree."""
    out = []
    T0 = mk_tree([KEEP])
    cfgs = [{}, {"protectNTFS": False}, {"protectHFS": True}, {"protectNTFS": False, "protectHFS": True}]
    names = [U for U in UNSAFE_NAMES if U and b"/" not in U]
    packs = {
        "dirs": [KEEP] + [(U + b"/hooks/pwn", "f", b"#!/bin/sh\n", 0o100755) for U in names if U not in (b".", b"..")],
        "blobs": [KEEP] + [(b"sub/" + U, "f", b"blob at unsafe name\n") for U in names if U not in (b".", b"..")],
        "dots": [KEEP, (b"../outside_dir/pwn", "f", b"pwned\n"), (b"d/../../outside_dir/pwn2", "f", b"pwned\n"), (b"../pwn3", "f", b"pwned\n"),
                 (b"a/b/../../../outside_dir/pwn4", "f", b"pwned\n"), (b"./dot", "f", b"x\n")],
        "git": [KEEP, (b".git/hooks/pre-commit", "f", b"#!/bin/sh\necho pwned\n", 0o100755), (b".git/canary", "f", b"pwned\n"),
                (b"d/.git/config", "f", b"[core]\n")],
        "links": [KEEP, (b".git/hooks/l", "l", b"../../x"), (b"../outside_dir/l", "l", b"x"), (b".GIT", "l", b".git")],
        "gitlinks": [KEEP, (b"../outside_dir/gl", "g", None), (b".git/gl", "g", None), (b".Git/gl", "g", None)],
    }
    for ci, cfg in enumerate(cfgs):
        for pn, items in packs.items():
            out.append((f"unchanged:pack:{pn}", {"trees": [T0, mk_tree(items)], "cfg": cfg,
                                                "steps": [_step("reset_hard", 0), _step("reset_mixed", 1), _step("reset_hard", 1)]}))
            if ci < 2 and pn in ("dirs", "dots", "git"):
                # the same packed hostile trees straight through every entry point that materialises a tree
                for op in ("clone", "checkout_force", "build_index", "stash_pop", "patch_to", "am", "merge", "cherry_pick", "restore", "pull_force"):
                    steps = [_step(op, 1)] if op == "clone" else ([_step("clone", 0), _step(op, 1)] if op == "pull_force" and not cfg
                                                                  else [_step("reset_hard", 0), _step(op if op != "pull_force" else "reset_hard", 1)])
                    out.append((f"unchanged:pack:{pn}:{op}", {"trees": [T0, mk_tree(items)], "cfg": {} if op == "clone" else cfg, "steps": steps}))
        singles = [(U + b"/hooks/pwn", "f", b"x\n") for U in names] + [(b"sub/" + U, "f", b"x\n") for U in names] + \
                  [(b"d/" + U + b"/config", "f", b"x\n") for U in names] + [(R.lstrip(b"/") if False else R, "f", b"raw\n") for R in RAW_NAMES]
        for it in singles:
            out.append((f"unchanged:one:{effective_v(cfg)}", {"trees": [T0, mk_tree([KEEP, it])], "cfg": cfg,
                                                             "steps": [_step("reset_hard", 0), _step("reset_mixed", 1), _step("reset_hard", 1)]}))
            if ci == 0:
                # the same names as FLAT entries (index tree != target tree: arrives as add/delete instead)
                out.append(("unchanged:flat", {"trees": [T0, [E_blob(b"keep", b"keep\n"), E_blob(it[0], b"x\n")]], "cfg": cfg,
                                               "steps": [_step("reset_hard", 0), _step("reset_mixed", 1), _step("reset_hard", 1)]}))
    return out


FIRST_OPS = ["clone", "reset_hard", "checkout", "checkout_force", "build_index", "stash_pop", "clone_nc"]
NEXT_OPS = ["reset_hard", "checkout", "checkout_force", "build_index", "stash_pop", "reset_mixed", "reset_soft", "patch_to", "pull_force",
            "merge", "merge_side", "cherry_pick", "revert", "am", "restore", "stash_push", "stash_pop_real"]


def _step(op: str, t, i=None) -> dict:
    if op == "merge_side":
        return {"op": "merge", "t": t, "side": 1}
    if op == "user_rm":
        return {"op": "user", "set": [[t.hex(), "rm", ""]]}
    if op == "user_edit":
        return {"op": "user", "set": [[t.hex(), "file", b"edited by the user\n".hex()]]}
    if op == "user_add":
        return {"op": "user", "set": [[t.hex(), "file", b"added by the user\n".hex()]], "stage": [t.hex()]}
    if op == "user_link":
        return {"op": "user", "set": [[t.hex(), "link", b"../outside_dir".hex()]]}
    if op == "pull_force":
        return {"op": "pull", "t": t, "force": 1}
    if op == "checkout_paths":
        return {"op": op, "t": t, "paths": [p.hex() for p in i]}
    if op == "checkout_force":
        return {"op": "checkout", "t": t, "force": 1}
    if op == "stash_pop":
        return {"op": "stash_pop", "t": t, "i": t if i is None else i}
    return {"op": op, "t": t}


def fixed_scenarios():
    """Deterministic part: the collision templates of the quantifier (symlink then directory of the same name,
    directory then symlink, file then directory), the delete-phase (F18) shapes, unsafe names under each
    protection setting, mode bits, hostile patches."""
    out = []
    for T in LINK_TARGETS:
        Tl = mk_tree([KEEP, (b"d", "l", T)])
        Td = mk_tree([KEEP, (b"d/x", "f", b"dx\n"), (b"d/sub/y", "f", b"dy\n"), (b"d/hooks/pwn", "f", b"#!/bin/sh\n", 0o100755)])
        Tf = mk_tree([KEEP, (b"d", "f", b"file d\n")])
        Te = mk_tree([KEEP])
        Tu = mk_tree([KEEP, (b"d", "l", T), (b"zz/.git/evil", "f", b"evil\n")])
        # d as a symlink AND flat entries whose NAMES lie below d (not a well-formed tree in git's sense; dulwich
        # accepts a '/' inside an entry name and validate_path splits on it)
        Tls = [E_blob(b"keep", b"keep\n"), E_link(b"d", T), E_blob(b"d/y", b"below link\n"), E_blob(b"d/sub/z", b"below link\n"),
               E_blob(b"d/hooks/pwn2", b"#!/bin/sh\n", 0o100755)]
        Tls2 = [E_blob(b"keep", b"keep\n"), E_link(b"d", T), E_blob(b"d/y", b"below link\n")]
        trees = [Tl, Td, Tf, Te, Tu, Tls, Tls2]
        seqs = [
            # directory d with files, then a tree in which d is a symlink and later entries lie below d: the delete
            # phase verifies/removes d, the write phase creates the link and must re-verify for d/y
            [("reset_hard", 1), ("reset_hard", 6)], [("reset_hard", 1), ("reset_hard", 5)], [("clone", 1), ("checkout_force", 6)],
            [("reset_hard", 1), ("checkout_force", 5)], [("clone", 1), ("pull_force", 6)], [("clone", 1), ("pull", 5)],
            [("reset_hard", 1), ("stash_pop", 6)], [("build_index", 1), ("build_index", 5)], [("reset_hard", 1), ("patch_to", 6)],
            [("clone", 5)], [("reset_hard", 6)], [("clone_nc", 1), ("checkout_force", 6)],
            # symlink then directory of the same name
            [("reset_hard", 0), ("reset_hard", 1)], [("clone", 0), ("checkout_force", 1)], [("build_index", 0), ("build_index", 1)],
            [("reset_hard", 0), ("stash_pop", 1)], [("checkout", 0), ("patch_to", 1)], [("clone", 0), ("checkout", 1)],
            # directory then symlink then something else (delete phase)
            [("reset_hard", 1), ("reset_hard", 0), ("reset_hard", 3)], [("checkout", 1), ("checkout_force", 0), ("checkout_force", 3)],
            [("build_index", 1), ("reset_hard", 0), ("reset_hard", 2)],
            # index / HEAD says d/x while d is a symlink on disk (F18 shapes)
            [("reset_hard", 0), ("reset_mixed", 1), ("reset_hard", 3)], [("reset_hard", 0), ("reset_soft", 1), ("checkout_force", 3)],
            [("reset_hard", 0), ("reset_soft", 1), ("checkout", 3)],
            [("reset_hard", 0), ("stash_pop", 3, 1), ("reset_hard", 3)], [("reset_hard", 0), ("stash_pop", 3, 1), ("reset_hard", 2)],
            # HEAD lists d/x, the work tree was never populated (clone --no-checkout), the next tree has d as a symlink:
            # ADD d precedes DELETE d/x in the change list
            [("clone_nc", 1), ("checkout_force", 0)], [("clone_nc", 1), ("checkout", 0)], [("clone_nc", 1), ("reset_hard", 0)],
            [("reset_hard", 3), ("reset_soft", 1), ("checkout_force", 0)], [("reset_hard", 3), ("reset_mixed", 1), ("reset_hard", 0)],
            # a REAL stash round trip around a switch in which d becomes a symlink (the stashed change lies below d)
            [("reset_hard", 1), ("user_rm", b"d/x"), ("stash_push", 0), ("checkout_force", 0), ("stash_pop_real", 0)],
            [("reset_hard", 1), ("user_edit", b"d/x"), ("stash_push", 0), ("reset_hard", 0), ("stash_pop_real", 0)],
            [("reset_hard", 1), ("user_edit", b"d/sub/y"), ("stash_push", 0), ("reset_hard", 3), ("user_link", b"d"), ("stash_pop_real", 0)],
            [("reset_hard", 1), ("user_add", b"d/hooks/new"), ("stash_push", 0), ("reset_hard", 0), ("stash_pop_real", 0)],
            # the other porcelain that materialises trees: merge (fast-forward and true merge), cherry-pick, revert, am, restore
            [("reset_hard", 0), ("merge", 1)], [("reset_hard", 0), ("cherry_pick", 1)], [("reset_hard", 0), ("revert", 1)],
            [("reset_hard", 0), ("am", 1)], [("reset_hard", 0), ("restore", 1)], [("reset_hard", 0), ("merge_side", 1)],
            [("reset_hard", 0), ("reset_mixed", 3), ("merge", 1)], [("reset_hard", 0), ("reset_mixed", 3), ("cherry_pick", 1)],
            [("reset_hard", 0), ("reset_soft", 3), ("revert", 1)], [("reset_hard", 0), ("reset_mixed", 3), ("am", 1)],
            [("reset_hard", 0), ("reset_mixed", 1), ("restore", 1)], [("reset_hard", 0), ("reset_mixed", 1), ("merge", 3)],
            [("reset_hard", 0), ("reset_mixed", 1), ("cherry_pick", 3)], [("reset_hard", 0), ("reset_soft", 1), ("revert", 3)],
            [("reset_hard", 1), ("merge", 6)], [("reset_hard", 1), ("cherry_pick", 5)], [("reset_hard", 1), ("revert", 6)], [("reset_hard", 1), ("am", 6)],
            [("reset_hard", 3), ("merge", 4)], [("reset_hard", 3), ("cherry_pick", 4)], [("reset_hard", 3), ("am", 4)], [("reset_hard", 3), ("restore", 4)],
            # aborted update (later invalid entry) then another
            [("reset_hard", 1), ("reset_hard", 4), ("reset_hard", 3)], [("checkout", 1), ("checkout_force", 4), ("checkout_force", 3)],
            # symlink then regular file of the same name (the file must replace the link, not be written through it)
            [("reset_hard", 0), ("build_index", 2)], [("reset_hard", 0), ("stash_pop", 2)], [("reset_hard", 0), ("reset_hard", 2)],
            [("clone", 0), ("checkout_force", 2)], [("reset_hard", 0), ("patch_to", 2)], [("build_index", 0), ("checkout_paths", 2, [b"d"])],
            [("reset_hard", 0), ("checkout_paths", 1, [b"d/x", b"d/sub/y", b"d/hooks/pwn"])],
            # the index / HEAD no longer lists d while d is still a symlink on disk, then a tree with d/... (write phase)
            [("reset_hard", 0), ("reset_mixed", 3), ("reset_hard", 1)], [("reset_hard", 0), ("reset_soft", 3), ("checkout_force", 1)],
            [("reset_hard", 0), ("reset_soft", 3), ("checkout", 1)], [("reset_hard", 0), ("reset_mixed", 3), ("stash_pop", 1)],
            # file then directory, directory then file
            [("reset_hard", 2), ("reset_hard", 1), ("reset_hard", 0)], [("clone", 2), ("checkout_force", 1), ("checkout_force", 2)],
        ]
        for sq in seqs:
            out.append(("collide:" + T.decode(), {"trees": trees, "steps": [_step(*x) for x in sq], "cfg": {}}))
        # hostile patches against a work tree that has the link
        for pt in (_patch_new(b"d"), _patch_new(b"d/pwn"), _patch_new(b"d/sub/pwn"), _patch_del(b"d/x", b"precious x\n"),
                   _patch_mod(b"d/x", b"precious x\n", b"pwned\n"), _patch_mod(b"d", b"git canary\n", b"pwned\n")):
            out.append(("patch:" + T.decode(), {"trees": trees, "steps": [_step("reset_hard", 0), {"op": "patch", "patch": pt.hex()}],
                                               "cfg": {}}))
    cfgs = [{}, {"protectNTFS": False}, {"protectHFS": True}, {"protectNTFS": False, "protectHFS": True}]
    for ci, cfg in enumerate(cfgs):
        for ui, U in enumerate(UNSAFE_NAMES):
            shapes = [mk_tree([KEEP, (U + b"/hooks/pwn", "f", b"#!/bin/sh\n", 0o100755), (U + b"/canary", "f", b"x\n")]) if U else
                      [E_blob(b"keep"), E_tree(b"", [E_blob(b"pwn")])],
                      [E_blob(b"keep"), E_blob(U, b"blob at unsafe name\n")],
                      mk_tree([KEEP, (b"d/" + U + b"/config", "f", b"[core]\n")]) if U else [E_blob(b"keep"), E_tree(b"d", [E_blob(b"")])],
                      [E_blob(b"keep"), E_link(U, b"../outside_dir")]]
            for si, spec in enumerate(shapes):
                op = FIRST_OPS[(ui + si + ci) % len(FIRST_OPS)]
                if op in ("clone", "clone_nc") and cfg:
                    op = "reset_hard"
                steps = [_step(op, 0)]
                if (ui + si) % 3 == 0:
                    steps.append(_step("reset_hard", 1))
                out.append((f"unsafe:{effective_v(cfg)}", {"trees": [spec, mk_tree([KEEP])], "steps": steps, "cfg": cfg}))
        for ri, R in enumerate(RAW_NAMES):
            spec = [E_blob(b"keep"), E_tree(b"d", [E_blob(b"ok")]), E_blob(R, b"raw name\n")]
            out.append((f"raw:{effective_v(cfg)}", {"trees": [spec, mk_tree([KEEP])],
                                                   "steps": [_step(FIRST_OPS[(ri + ci) % len(FIRST_OPS)] if not (cfg and FIRST_OPS[(ri + ci) % len(FIRST_OPS)].startswith("clone")) else "reset_hard", 0),
                                                             _step("reset_hard", 1)], "cfg": cfg}))
            out.append((f"rawpatch:{effective_v(cfg)}", {"trees": [mk_tree([KEEP])],
                                                        "steps": [_step("reset_hard", 0), {"op": "patch", "patch": _patch_new(R).hex()},
                                                                  {"op": "patch", "patch": _patch_new(R).hex(), "strip": 0}], "cfg": cfg}))
    out += rc_patch_scenarios()
    out += kind_collision_scenarios()
    out += sparse_scenarios()
    out += unchanged_route_scenarios()
    out += submodule_scenarios()
    for m in MODES:
        spec = [E_blob(b"keep"), E_blob(b"f", b"x\n", m), E_tree(b"d", [E_blob(b"g", b"y\n", m)])]
        for op in ("clone", "reset_hard", "build_index", "stash_pop", "patch_to"):
            steps = [_step(op, 0)] if op != "patch_to" else [_step("reset_hard", 1), _step("patch_to", 0)]
            out.append(("modes", {"trees": [spec, mk_tree([KEEP])], "steps": steps, "cfg": {}}))
        out.append(("modes", {"trees": [mk_tree([KEEP])], "steps": [_step("reset_hard", 0),
                                                                    {"op": "patch", "patch": _patch_new(b"suid", b"x\n", b"%o" % m).hex()}],
                              "cfg": {}}))
    return out


def random_scenario(rng):
    dirs = [b"d", b"e", b"lnk"]
    def rand_tree():
        items = [KEEP]
        used = set()
        for _ in range(rng.randint(1, 4)):
            d = rng.choice(dirs)
            k = rng.random()
            if k < 0.3:
                p, it = d, (d, "l", rng.choice(LINK_TARGETS))
            elif k < 0.4:
                p, it = d, (d, "f", b"file\n", rng.choice(MODES))
            elif k < 0.47:
                p = d if rng.random() < 0.6 else d + b"/" + rng.choice([b"sub", b"x", b"l2"])
                it = (p, "g", None)
            elif k < 0.55:
                sub = rng.choice([b"l2", b"sub"])
                p, it = d + b"/" + sub, (d + b"/" + sub, "l", rng.choice(LINK_TARGETS + [b"../..", b"../../outside_dir"]))
            elif k < 0.63:
                r = rng.choice(RAW_NAMES + [d + b"/y", d + b"/sub/z", d + b"/x", d + b"/l2/q"] * 3)
                if r.startswith(d + b"/"):
                    items.append((r, "F", b"flat name below " + d + b"\n"))
                    continue
                p, it = r, (r, "F", b"raw\n")
            elif k < 0.7:
                u = rng.choice(UNSAFE_NAMES)
                p, it = d + b"/" + u, (d + b"/" + u + b"/f", "f", b"u\n")
            else:
                leaf = rng.choice([b"x", b"y", b"sub/y", b"sub/z", b"hooks/pre-commit", b"canary", b"config", b"pwn", b"l2/x", b"sub/l2/z"])
                p, it = d + b"/" + leaf, (d + b"/" + leaf, "f", rng.choice([b"precious x\n", b"new\n", b"git canary\n"]), rng.choice(MODES))
            # a path may not be both a leaf and a directory in one spec (mk_tree would emit duplicates; allowed rarely)
            if any(p == q or p.startswith(q + b"/") or q.startswith(p + b"/") for q in used) and rng.random() < 0.9:
                continue
            used.add(p)
            items.append(it)
        return mk_tree(items)
    trees = [rand_tree() for _ in range(3)] + [mk_tree([KEEP])]
    n = rng.choice([2, 3, 3])
    steps = []
    for i in range(n):
        op = rng.choice(FIRST_OPS if i == 0 else NEXT_OPS)
        t = rng.randrange(len(trees))
        steps.append(_step(op, t, rng.randrange(len(trees))))
    if steps[0]["op"] not in ("clone", "clone_nc"):
        steps = [st if st["op"] != "pull" else _step("reset_hard", st["t"]) for st in steps]
    if rng.random() < 0.3 and len(steps) >= 2:
        # the user changes the disk by hand between two operations
        pth = rng.choice(dirs) if rng.random() < 0.7 else rng.choice(dirs) + b"/" + rng.choice([b"sub", b"x", b"l2"])
        kind = rng.choice(KINDS)
        steps.insert(rng.randrange(1, len(steps)), {"op": "user", "set": kind_user_set(pth, kind) if b"/" not in pth or kind not in _KIND_TARGET
                                                    else [[pth.hex(), "link", rng.choice(LINK_TARGETS[:6]).hex()]]})
    if rng.random() < 0.1:
        steps.append({"op": "sparse", "patterns": rng.choice([["*"], ["/keep"], ["/d/"]]), "force": int(rng.random() < 0.5)})
    if rng.random() < 0.15:
        steps.append({"op": "patch", "patch": _patch_new(rng.choice([b"d", b"e", b"lnk", b"d/x", b"lnk/pwn", b"d/sub/pwn"])).hex()})
    cfg = rng.choice([{}, {}, {}, {"protectNTFS": False}, {"protectHFS": True}, {"symlinks": True, "filemode": False}])
    if steps[0]["op"] in ("clone", "clone_nc"):
        cfg = {}
    return {"trees": trees, "steps": steps, "cfg": cfg}


# ------------------------------------------------------------------------------------------------

def run(ctx: core.Ctx):
    ctx.assumptions += [
        "POSIX host: the tests guarded by os.name == 'nt' (backslash, reserved device names, drive prefix) are "
        "neither modelled nor executed; case-insensitive / normalising file systems are not executed",
        "Unicode NFD + str.lower() of the HFS validator is a parameter (`fold`) of the model; its value on every "
        "input that occurs is taken from the real unicodedata at run time; the theorems assume only that it maps "
        "ASCII to ASCII lower case (checked in stream fold.ascii)",
        "file-system model (Model/Checkout.lean): the work-tree root is a physical path; os.makedirs = exists-tests on "
        "the pre-state then mkdir outermost first, aborting on the first error; files are created 0644 (umask 022); "
        "no concurrent writer; directory modes, ownership, timestamps, the index file and path-length limits are not "
        "modelled; tied to the real build_index_from_tree / update_working_tree delete by streams bift.model and "
        "uwt.delete.model on real directory trees",
        "`confined`/`safe_prefix_sound` are proved for build_index_from_tree (clone, reset_index; stash pop runs the same "
        "verify+write loop); the add/modify phase of update_working_tree, checkout(paths=), restore and patch "
        "application are covered by the direct oracle only (sandbox with canaries, snapshot before/after each step)",
        "snapshot oracle: every path of the sandbox outside the work-tree payload (incl. all of wt/.git) is compared by "
        "type, mode, link target and content hash before/after each step; inside wt/.git a step may change only what "
        "that operation is entitled to rewrite (ENTITLED table: e.g. patch/build_index -> index only; reset -> index, "
        "HEAD, ORIG_HEAD, refs/**, logs/**), and only into a regular file that still looks like that control file "
        "(HEAD/ref/reflog/index syntax) — a write redirected through a symlink with foreign content is reported; "
        "existing object files may never change, new ones may appear",
    ]
    _stream_misc(ctx)
    _stream_fragments(ctx)
    _stream_exhaustive(ctx)
    _stream_bift(ctx)
    _stream_uwt_delete(ctx)
    _stream_uwt_write(ctx)
    _stream_sparse_apply(ctx)
    _stream_sequences(ctx)



BIFT_TARGETS = [b"../outside_dir", b"..", b"/outer/outside_dir", b"e", b"d", b"../outside_dir/x", b"nowhere", b".", b"e/f",
                b"../../outer/outside_dir/sub", b"loop"]


def gen_bift_case(rng, gitlinks=True, more_gitlinks=False):
    """initial directory tree (work tree `outer/wt` + canaries + leftovers of an earlier checkout) and a tree."""
    nodes = [[b"outer".hex(), "d"], [b"outer/wt".hex(), "d"], [b"outer/outside_dir".hex(), "d"],
             [b"outer/outside_dir/sub".hex(), "d"], [b"outer/outside_dir/x".hex(), "f", 0o644, b"precious".hex()],
             [b"outer/outside_dir/sub/y".hex(), "f", 0o600, b"precious".hex()], [b"outer/canary".hex(), "f", 0o644, b"c".hex()]]
    names = [b"a", b"d", b"e", b"loop"]
    present = {}
    for n in names:
        k = rng.random()
        if k < 0.35:
            continue
        if k < 0.6:
            present[n] = "l"
            nodes.append([(b"outer/wt/" + n).hex(), "l", (n if n == b"loop" and rng.random() < 0.5 else rng.choice(BIFT_TARGETS)).hex()])
        elif k < 0.8:
            present[n] = "d"
            nodes.append([(b"outer/wt/" + n).hex(), "d"])
            for leaf in rng.sample([b"f", b"x", b"sub", b"l"], rng.randint(0, 3)):
                kk = rng.random()
                pth = (b"outer/wt/" + n + b"/" + leaf).hex()
                if kk < 0.4:
                    nodes.append([pth, "f", rng.choice([0o644, 0o755, 0o600]), rng.choice([b"old", b"data\n", b""]).hex()])
                elif kk < 0.7:
                    nodes.append([pth, "l", rng.choice(BIFT_TARGETS + [b"../..", b"../d", b"../../outside_dir"]).hex()])
                else:
                    nodes.append([pth, "d"])
        else:
            present[n] = "f"
            nodes.append([(b"outer/wt/" + n).hex(), "f", rng.choice([0o644, 0o755]), rng.choice([b"old", b"data\n"]).hex()])
    items = []
    used = set()
    for _ in range(rng.randint(1, 6)):
        n = rng.choice(names)
        k = rng.random()
        if k < 0.2:
            p, it = n, (n, "l", rng.choice(BIFT_TARGETS))
        elif k < 0.3:
            p, it = n, (n, "f", rng.choice([b"data\n", b"new", b"old"]), rng.choice(MODES))
        elif k < (0.42 if more_gitlinks else 0.35) and gitlinks:
            p = n if rng.random() < 0.6 else n + b"/" + rng.choice([b"sub", b"x", b"l", b"f"])
            it = (p, "g", None)
        elif k < 0.42:
            r = rng.choice([b"../outside_dir/pwn", b"d/../../outside_dir/pwn", b".git/x", b"d/.GIT/x", b"d//x", b"./x", b"d/.git /x", b"git~1"])
            p, it = r, (r, "F", b"raw")
        elif k < 0.5:
            # a FLAT entry whose name contains '/', below a name that may be a symlink/file entry of the same tree
            r = n + b"/" + rng.choice([b"y", b"sub/z", b"x", b"pwn"])
            items.append((r, "F", rng.choice([b"raw", b"precious"]), rng.choice(MODES)))
            continue
        else:
            leaf = rng.choice([b"f", b"x", b"sub/y", b"sub/z", b"l", b"l/q", b"x/deep/er", b"sub"])
            kind = rng.choice(["f", "f", "f", "l", "g"] if gitlinks else ["f", "f", "f", "l"])
            p = n + b"/" + leaf
            it = (p, kind, rng.choice(BIFT_TARGETS) if kind == "l" else rng.choice([b"data\n", b"new", b"old", b"precious"]),
                  rng.choice(MODES))
        if any(p == q or p.startswith(q + b"/") or q.startswith(p + b"/") for q in used):
            continue
        used.add(p)
        items.append(it)
    if more_gitlinks:
        # a blob entry at the very path of a gitlink entry of the same tree would meet the directory the gitlink just
        # made (only `.git` inside): _transition_to_file's rmtree branch for that case is not modelled
        gl = {it[0] for it in items if it[1] == "g"}
        items = [it for it in items if not (it[1] in ("F", "f", "l") and it[0] in gl)]
    if not items:
        items = [(b"a", "f", b"x")]
    return {"nodes": nodes, "tree": mk_tree(items), "v": rng.choice(["d", "n", "n"]), "root": b"outer/wt".hex()}


def _stream_bift(ctx, scale=1):
    """(b) build_index_from_tree: the Lean model on the abstract file system vs the real function on a real one."""
    w = core.Worker("py", mem_mb=2048)
    try:
        cases = [gen_bift_case(ctx.rng) for _ in range(ctx.budget(500) * scale)]
        reps = []
        for i, c in enumerate(cases):
            rep = w.ask({"mod": MOD, "op": "bift", "args": {**c, "base": str(ctx.scratch / "p" / "q" / f"b{i}"),
                                                           "scratch": str(ctx.scratch)}}, timeout=60)
            reps.append(rep.get("r"))
            if "r" not in rep:
                ctx.notes.append(f"bift case did not complete: {str(rep)[:200]}")
        lines, idx = [], []
        for c, r in zip(cases, reps):
            if r is None:
                continue
            nodes = [":".join([n[0], n[1]] + ([str(n[2]), n[3] or "-"] if n[1] == "f" else [n[2] or "-"] if n[1] == "l" else []))
                     for n in c["nodes"]]
            ents = [f"{p or '-'}:{m}:{cc or '-'}" for p, m, cc in r["entries"]]
            queries = sorted(set(r["walk"]) | {n[0] for n in c["nodes"]})
            lines.append(" ".join(["c17.bift", c["v"], c["root"], str(len(nodes))] + nodes + [str(len(ents))] + ents + queries))
            idx.append((c, r))
        outs = ctx.driver.batch(lines)
        for (c, r), o in zip(idx, outs):
            parts = o.split(" ")
            if len(parts) < 3:
                raise core.InfraError(f"driver answered {o!r} to c17.bift")
            status, nlog = parts[0], parts[1]
            model = dict(x.split("=", 1) for x in parts[3:] if "=" in x)
            real = {k: r["walk"].get(k, "-") for k in model}
            ctx.count("bift.model", json.dumps(c, sort_keys=True), True, f"{c['v']}:{r['out']}:log{min(int(nlog), 9) if nlog.isdigit() else '?'}")
            if status != r["out"] or model != real:
                diff = {k: (model[k], real[k]) for k in model if model[k] != real[k]}
                ctx.disagree("bift.model", {"case": c, "entries": r["entries"]}, f"{status} {diff}"[:600], f"{r['out']}", "py")
            # direct oracle on the same run: nothing outside outer/wt changed
            init = {}
            for n in c["nodes"]:
                init[n[0]] = "d" if n[1] == "d" else (f"f:{n[2]}:{n[3] or '-'}" if n[1] == "f" else f"l:{n[2] or '-'}")
            for k in set(init) | set(r["walk"]):
                rel = bytes.fromhex(k)
                if rel == b"outer/wt" or rel.startswith(b"outer/wt/"):
                    continue
                if init.get(k) != r["walk"].get(k):
                    ctx.oracle_fail("bift.model", {"bift_case": c, "path": k},
                                    f"build_index_from_tree changed {rel!r} outside the work tree: "
                                    f"{init.get(k)} -> {r['walk'].get(k)}", None)
                    break
        if idx:
            ctx.sample({"stream": "bift.model", "case": idx[0][0], "real": idx[0][1]["out"], "model": outs[0][:200]})
    finally:
        w.close()



def _node_tokens(nodes):
    return [":".join([n[0], n[1]] + ([str(n[2]), n[3] or "-"] if n[1] == "f" else [n[2] or "-"] if n[1] == "l" else []))
            for n in nodes]


def _stream_uwt_delete(ctx, scale=1):
    """(b') the delete phase of update_working_tree for ONE old path: model `deleteOld` vs the real function,
    compared on every regular file and symlink of the sandbox (directories: rmdir of emptied parents is not modelled).
    The direct oracle runs on the same cases: nothing outside the work tree may disappear."""
    w = core.Worker("py", mem_mb=2048)
    rng = ctx.rng
    try:
        cases = []
        for _ in range(ctx.budget(150) * scale):
            c = gen_bift_case(rng)
            path = rng.choice([b"d/x", b"d/sub/y", b"d/f", b"e/f", b"e/x", b"a", b"d", b"a/f", b"e/l/q", b"d/l", b"loop/x", b"e/sub/y",
                               b"d/../x", b".git/canary"])
            c["path"] = path.hex()
            c["old"] = mk_tree([(path, "F" if b".." in path else "f", b"precious")])
            cases.append(c)
        lines, idx = [], []
        for i, c in enumerate(cases):
            rep = w.ask({"mod": MOD, "op": "uwt_delete", "args": {"base": str(ctx.scratch / "p" / "q" / f"u{i}"), "scratch": str(ctx.scratch),
                                                                 "nodes": c["nodes"], "old": c["old"], "v": c["v"], "root": c["root"]}}, timeout=60)
            if "r" not in rep:
                ctx.notes.append(f"uwt_delete case did not complete: {str(rep)[:200]}")
                continue
            r = rep["r"]
            nodes = _node_tokens(c["nodes"])
            queries = sorted(set(r["walk"]) | {n[0] for n in c["nodes"]})
            lines.append(" ".join(["c17.del", c["v"], c["root"], str(len(nodes))] + nodes + [c["path"]] + queries))
            idx.append((c, r))
        outs = ctx.driver.batch(lines)
        for (c, r), o in zip(idx, outs):
            parts = o.split(" ")
            if len(parts) < 2:
                raise core.InfraError(f"driver answered {o!r} to c17.del")
            model = dict(x.split("=", 1) for x in parts[2:] if "=" in x)
            mf = {k: v for k, v in model.items() if v[0] in "fl"}
            rf = {k: v for k, v in r["walk"].items() if v[0] in "fl"}
            ctx.count("uwt.delete.model", json.dumps(c, sort_keys=True), True, f"{c['v']}:log{parts[1]}:{r['out']}")
            if mf != rf:
                diff = {k: (mf.get(k), rf.get(k)) for k in set(mf) | set(rf) if mf.get(k) != rf.get(k)}
                ctx.disagree("uwt.delete.model", {"case": c}, f"{parts[0]} {diff}"[:500], r["out"], "py")
            init = {n[0]: n for n in c["nodes"] if n[1] in "fl"}
            for k in init:
                rel = bytes.fromhex(k)
                if not (rel == b"outer/wt" or rel.startswith(b"outer/wt/")) and k not in r["walk"]:
                    # the narrow class of the known finding: a leading component of the old path is a symlink on disk
                    lead = bytes.fromhex(c["path"]).split(b"/")[:-1]
                    links = {bytes.fromhex(n[0]) for n in c["nodes"] if n[1] == "l"}
                    through = any(b"outer/wt/" + b"/".join(lead[:j]) in links for j in range(1, len(lead) + 1))
                    ctx.oracle_fail("uwt.delete.model", {"delete_case": c, "path": k},
                                    f"update_working_tree (delete of {bytes.fromhex(c['path'])!r}) removed {rel!r} outside the work tree",
                                    "uwt-delete-through-symlinked-leading-dir" if through else None)
                    break
    finally:
        w.close()



def _stream_uwt_write(ctx, scale=1):
    """(b'') the add/modify phase of update_working_tree (blob, symlink and gitlink entries): model `uwtPhaseAllG` vs the real
    function on real directory trees, node by node; built-in oracle: nothing outside the work tree changes."""
    w = core.Worker("py", mem_mb=2048)
    try:
        cases = [gen_bift_case(ctx.rng, gitlinks=True, more_gitlinks=True) for _ in range(ctx.budget(300) * scale)]
        lines, idx = [], []
        for i, c in enumerate(cases):
            rep = w.ask({"mod": MOD, "op": "uwt_write", "args": {**c, "base": str(ctx.scratch / "p" / "q" / f"w{i}"),
                                                                "scratch": str(ctx.scratch)}}, timeout=60)
            if "r" not in rep:
                ctx.notes.append(f"uwt_write case did not complete: {str(rep)[:200]}")
                continue
            r = rep["r"]
            nodes = _node_tokens(c["nodes"])
            ents = [f"{p or '-'}:{m}:{cc or '-'}" for p, m, cc in r["entries"]]
            queries = sorted(set(r["walk"]) | {n[0] for n in c["nodes"]})
            lines.append(" ".join(["c17.uwtw", c["v"], c["root"], str(len(nodes))] + nodes + [str(len(ents))] + ents + queries))
            idx.append((c, r))
        outs = ctx.driver.batch(lines)
        for (c, r), o in zip(idx, outs):
            parts = o.split(" ")
            if len(parts) < 2:
                raise core.InfraError(f"driver answered {o!r} to c17.uwtw")
            status = {"ok": "ok", "InvalidPath": "InvalidPath"}.get(parts[0], "oserror")
            model = dict(x.split("=", 1) for x in parts[2:] if "=" in x)
            real = {k: r["walk"].get(k, "-") for k in model}
            ctx.count("uwt.write.model", json.dumps(c, sort_keys=True), True,
                      f"{c['v']}:{r['out']}:log{min(int(parts[1]), 9) if parts[1].isdigit() else '?'}")
            if status != r["out"] or model != real:
                diff = {k: (model[k], real[k]) for k in model if model[k] != real[k]}
                ctx.disagree("uwt.write.model", {"case": c, "entries": r["entries"]}, f"{parts[0]} {diff}"[:600], r["out"], "py")
            init = {}
            for n in c["nodes"]:
                init[n[0]] = "d" if n[1] == "d" else (f"f:{n[2]}:{n[3] or '-'}" if n[1] == "f" else f"l:{n[2] or '-'}")
            for k in set(init) | set(r["walk"]):
                rel = bytes.fromhex(k)
                if rel == b"outer/wt" or rel.startswith(b"outer/wt/"):
                    continue
                if init.get(k) != r["walk"].get(k):
                    ctx.oracle_fail("uwt.write.model", {"uwt_write_case": c, "path": k},
                                    f"update_working_tree (write phase) changed {rel!r} outside the work tree: "
                                    f"{init.get(k)} -> {r['walk'].get(k)}", None)
                    break
    finally:
        w.close()


def _stream_sparse_apply(ctx, scale=1):
    """(b3) sparse checkout, step 2 of apply_included_paths (force=True): model `sparseApply` vs the real function on
    real directory trees with an index whose names are NOT validated; built-in oracle: nothing outside changes."""
    w = core.Worker("py", mem_mb=2048)
    rng = ctx.rng
    try:
        cases = []
        for _ in range(ctx.budget(200) * scale):
            c = gen_bift_case(rng, gitlinks=False)
            ents, seen = [], set()
            for _ in range(rng.randint(1, 6)):
                p = rng.choice([b"a", b"d", b"e", b"loop", b"d/x", b"d/sub/y", b"d/pwn", b"e/f", b"e/l", b"e/l/q", b"a/f", b"e/sub/new", b"d/l",
                                b"../outside_dir/pwn", b"../outside_dir/x", b"d/../../outside_dir/pwn", b".git/hooks/pwn", b"e/.GIT/x",
                                b"git~1", b"x/y/z", b"new"])
                if p in seen:
                    continue
                seen.add(p)
                kind = rng.choice(["f", "f", "f", "l"])
                content = rng.choice(BIFT_TARGETS) if kind == "l" else rng.choice([b"data\n", b"new", b"old", b"precious"])
                ents.append([p.hex(), 0o120000 if kind == "l" else rng.choice(MODES), content.hex(), int(rng.random() < 0.45)])
            ents.sort(key=lambda e: bytes.fromhex(e[0]))          # index order
            c["entries"] = ents
            cases.append(c)
        lines, idx = [], []
        for i, c in enumerate(cases):
            rep = w.ask({"mod": MOD, "op": "sparse_apply", "args": {"base": str(ctx.scratch / "p" / "q" / f"s{i}"), "scratch": str(ctx.scratch),
                                                                   "nodes": c["nodes"], "entries": c["entries"], "v": c["v"], "root": c["root"]}}, timeout=60)
            if "r" not in rep:
                ctx.notes.append(f"sparse_apply case did not complete: {str(rep)[:200]}")
                continue
            r = rep["r"]
            nodes = _node_tokens(c["nodes"])
            ents = [f"{p or '-'}:{m}:{cc or '-'}:{x}" for p, m, cc, x in c["entries"]]
            queries = sorted(set(r["walk"]) | {n[0] for n in c["nodes"]})
            lines.append(" ".join(["c17.sparse", c["v"], c["root"], str(len(nodes))] + nodes + [str(len(ents))] + ents + queries))
            idx.append((c, r))
        outs = ctx.driver.batch(lines)
        for (c, r), o in zip(idx, outs):
            parts = o.split(" ")
            if len(parts) < 2:
                raise core.InfraError(f"driver answered {o!r} to c17.sparse")
            status = {"ok": "ok", "InvalidPath": "InvalidPath"}.get(parts[0], "oserror")
            model = dict(x.split("=", 1) for x in parts[2:] if "=" in x)
            real = {k: r["walk"].get(k, "-") for k in model}
            ctx.count("sparse.model", json.dumps(c, sort_keys=True), True, f"{c['v']}:{r['out']}:log{min(int(parts[1]), 9) if parts[1].isdigit() else '?'}")
            if status != r["out"] or model != real:
                diff = {k: (model[k], real[k]) for k in model if model[k] != real[k]}
                ctx.disagree("sparse.model", {"case": c}, f"{parts[0]} {diff}"[:600], r["out"], "py")
            init = {}
            for n in c["nodes"]:
                init[n[0]] = "d" if n[1] == "d" else (f"f:{n[2]}:{n[3] or '-'}" if n[1] == "f" else f"l:{n[2] or '-'}")
            for k in set(init) | set(r["walk"]):
                rel = bytes.fromhex(k)
                if rel == b"outer/wt" or rel.startswith(b"outer/wt/"):
                    continue
                if init.get(k) != r["walk"].get(k):
                    ctx.oracle_fail("sparse.model", {"sparse_case": c, "path": k},
                                    f"apply_included_paths changed {rel!r} outside the work tree: {init.get(k)} -> {r['walk'].get(k)}", None)
                    break
    finally:
        w.close()


def _stream_sequences(ctx, scale=1, full=False, stream_prefix="seq"):
    """(c) the direct oracle: sequences of hostile trees through the real entry points, snapshot before/after."""
    w = core.Worker("py", mem_mb=2048)
    n = 0
    try:
        for f in sorted((core.VERIF / "corpus" / "C17").glob("*.json")):
            c = json.loads(f.read_text())
            run_scenario(ctx, w, "seq.corpus", c["case"], f.stem, n)   # past failures: must hold now
            n += 1
        fixed = fixed_scenarios()
        fixed += [x for x in kind_collision_scenarios(ctx.rng, ctx.budget(25)) if x[0].startswith("kinds3:")]
        ctx.extra_cov["fixed_scenarios_total"] = len(fixed)
        if not full and not ctx.thorough and not (ctx.lean is not None and not ctx.lean.ok):
            # quick tier: every template for the key link targets, a seed-dependent third of the rest
            fixed = [(t, c) for t, c in fixed
                     if (t.split(":", 1)[0] in ("collide", "patch") and t.split(":", 1)[1].encode() in KEY_TARGETS)
                     or t == "modes" or t.startswith("rcpatch:") and ":headers:" in t or t.startswith("sparse:") or t.startswith("unchanged:pack:") or t.startswith("submodule:")
                     or (t.startswith("kinds:") and "gitlink" in t and t.endswith((":p:mixed", ":p:soft")))
                     or (t.startswith("kinds:leading") and ctx.rng.random() < 0.25)
                     or ctx.rng.random() < (0.04 if t.startswith("kinds:") else 0.06 if t.startswith("unchanged:") else 0.14)]
        ctx.extra_cov["fixed_scenarios_run"] = len(fixed)
        for tag, case in fixed:
            run_scenario(ctx, w, stream_prefix + ".fixed", case, tag.split(":")[0], n)
            n += 1
        for _ in range(ctx.budget(200) * scale):
            case = random_scenario(ctx.rng)
            run_scenario(ctx, w, stream_prefix + ".random", case, "+".join(s["op"] for s in case["steps"])[:60], n)
            n += 1
    finally:
        w.close()


def search(ctx: core.Ctx):
    """Failing-input search after a broken obligation / translator / correspondence: the direct oracle with every
    fixed template and a boosted random budget, then the two file-system correspondence streams (their built-in
    oracle: nothing outside the work tree changes) with a boosted budget."""
    _stream_sequences(ctx, scale=3, full=True, stream_prefix="search.seq")
    if ctx.oracle_failures:
        return
    _stream_bift(ctx, scale=4)
    _stream_uwt_delete(ctx, scale=3)
    _stream_uwt_write(ctx, scale=3)
    _stream_sparse_apply(ctx, scale=3)


def replay(ctx: core.Ctx, data: dict) -> int:
    """Re-run a failing input (replay file written by finish, or a corpus file)."""
    case = data.get("case", data)
    ctx.known = []          # a replay reports the bare verdict of the oracle on this input
    if "trees" in case:
        w = core.Worker("py", mem_mb=2048)
        try:
            res = run_scenario(ctx, w, "replay", {k: case[k] for k in ("trees", "steps", "cfg") if k in case}, "replay", 0)
        finally:
            w.close()
        for sr in res or []:
            print("replay step", sr["op"], "->", sr["out"], "| diff outside payload:", sr["diff"][:4])
    elif "path" in case and "validator" in case:
        _check_validators(ctx, "replay", [unhx(case["path"])])
    elif "input" in case:
        _check_validators(ctx, "replay", [unhx(case["input"])])
    for f in ctx.oracle_failures:
        print("oracle:", f["what"][:300], "class:", f["class"])
    if ctx.oracle_failures or ctx.disagreements:
        print(f"VIOLATION property=C17 replay={data.get('_path', '<replayed>')}")
        return 1
    print("replay: property holds on this case")
    return 0
