"""C11 — index file round trip, ordering, checksum, agreement with C git.

Model: lean/DulwichModel/Model/Index.lean; theorems: Props/C11.lean (lemmas in Lemmas/Index.lean).
Tie: translate() regenerates Gen/Index.lean (flag masks, struct layouts, field masks, padding and varint
constants, version thresholds, extension-signature rules, trailer handling) from dulwich/index.py and
dulwich/pack.py; run() drives the correspondence streams (model bytes vs real bytes BYTE-FOR-BYTE, model
reader vs real reader) and the direct oracles (real write->read, C git as third party, damage detection).
"""
from __future__ import annotations

import ast
import hashlib
import io
import json
import os
import shutil
import struct
import subprocess
from pathlib import Path

from .. import core, translate as T
from ..core import hx, unhx

MOD = "c11"
PROP = "C11"


# ------------------------------------------------------------------------------------------------
# translator

_FMT_W = {"L": 4, "I": 4, "H": 2, "B": 1, "Q": 8}


def _fmt_widths(fmt) -> list[int]:
    """'>LLLLLL20sH' -> [4,4,4,4,4,4,20,2]; only big-endian unsigned integer codes and Ns are understood."""
    if isinstance(fmt, bytes):
        fmt = fmt.decode()
    if not fmt.startswith(">"):
        raise T.TranslateError(f"struct format {fmt!r} is not big-endian")
    out, num = [], ""
    for ch in fmt[1:]:
        if ch.isdigit():
            num += ch
        elif ch == "s":
            out.append(int(num or "1"))
            num = ""
        elif ch in _FMT_W:
            out += [_FMT_W[ch]] * int(num or "1")
            num = ""
        else:
            raise T.TranslateError(f"struct format {fmt!r}: code {ch!r} not understood by the model")
    return out


def _struct_calls(func: ast.AST, which: str):
    """all struct.<which>(fmt, ...) calls in source order -> [(fmt, call node)]"""
    out = []
    for n in ast.walk(func):
        if isinstance(n, ast.Call) and isinstance(n.func, ast.Attribute) and n.func.attr == which \
                and isinstance(n.func.value, ast.Name) and n.func.value.id == "struct" and n.args \
                and isinstance(n.args[0], ast.Constant):
            out.append((n.lineno, n.col_offset, n.args[0].value, n))
    return [(f, c) for _, _, f, c in sorted(out, key=lambda t: (t[0], t[1]))]


def _one(lst, what):
    if len(lst) != 1:
        raise T.TranslateError(f"{what}: expected exactly one match, got {len(lst)}")
    return lst[0]


def _compares(func: ast.AST, name: str):
    """[(op class name, constant)] for every `name <op> <int literal>` in func, in source order."""
    out = []
    for n in ast.walk(func):
        if isinstance(n, ast.Compare) and isinstance(n.left, ast.Name) and n.left.id == name and len(n.ops) == 1 \
                and isinstance(n.comparators[0], ast.Constant) and isinstance(n.comparators[0].value, int):
            out.append((n.lineno, n.col_offset, type(n.ops[0]).__name__, n.comparators[0].value))
    return [(o, c) for _, _, o, c in sorted(out)]


def _pad_consts(func: ast.AST, what: str):
    """`(<expr> + A) & ~M` -> (A, M)"""
    found = []
    for n in ast.walk(func):
        if isinstance(n, ast.BinOp) and isinstance(n.op, ast.BitAnd) and isinstance(n.right, ast.UnaryOp) \
                and isinstance(n.right.op, ast.Invert) and isinstance(n.right.operand, ast.Constant) \
                and isinstance(n.left, ast.BinOp) and isinstance(n.left.op, ast.Add) \
                and isinstance(n.left.right, ast.Constant):
            found.append((n.left.right.value, n.right.operand.value))
    return _one(found, f"{what}: padding expression `(.. + A) & ~M`")


def _varint_enc_consts(func):
    mask = [n.right.value for n in ast.walk(func) if isinstance(n, ast.BinOp) and isinstance(n.op, ast.BitAnd)
            and isinstance(n.right, ast.Constant)]
    shift = [n.value.value for n in ast.walk(func) if isinstance(n, ast.AugAssign) and isinstance(n.op, ast.RShift)
             and isinstance(n.value, ast.Constant)]
    cont = [n.value.value for n in ast.walk(func) if isinstance(n, ast.AugAssign) and isinstance(n.op, ast.BitOr)
            and isinstance(n.value, ast.Constant)]
    zero = [n for n in ast.walk(func) if isinstance(n, ast.If) and isinstance(n.test, ast.Compare)
            and isinstance(n.test.ops[0], ast.Eq) and T.eval_literal(n.test.comparators[0]) == 0
            and isinstance(n.body[0], ast.Return) and T.eval_literal(n.body[0].value) == b"\x00"]
    _one(zero, "_encode_varint: `if value == 0: return b'\\x00'`")
    return _one(mask, "_encode_varint mask"), _one(shift, "_encode_varint shift"), _one(cont, "_encode_varint cont")


def _varint_dec_consts(func, what):
    """`(byte & MASK) << shift`, `shift += S`, `byte & CONT` -> (MASK, S, CONT)"""
    masks = []
    for n in ast.walk(func):
        if isinstance(n, ast.BinOp) and isinstance(n.op, ast.BitAnd) and isinstance(n.left, ast.Name) \
                and n.left.id == "byte" and isinstance(n.right, ast.Constant):
            masks.append((n.lineno, n.col_offset, n.right.value))
    masks = [m for _, _, m in sorted(masks)]
    if len(masks) != 2:
        raise T.TranslateError(f"{what}: expected `byte & MASK` and `byte & CONT`, got {masks}")
    shift = [n.value.value for n in ast.walk(func) if isinstance(n, ast.AugAssign) and isinstance(n.op, ast.Add)
             and isinstance(n.target, ast.Name) and n.target.id == "shift" and isinstance(n.value, ast.Constant)]
    return masks[0], _one(shift, f"{what}: shift += S"), masks[1]


def _opt(v):
    return "none" if v is None else f"(some {v})"


def translate(repo: Path) -> dict:
    tree = T.module_ast(repo / "dulwich" / "index.py")
    ptree = T.module_ast(repo / "dulwich" / "pack.py")
    c = {k: T.const_value(tree, k) for k in (
        "FLAG_STAGEMASK", "FLAG_STAGESHIFT", "FLAG_NAMEMASK", "FLAG_VALID", "FLAG_EXTENDED",
        "EXTENDED_FLAG_SKIP_WORKTREE", "EXTENDED_FLAG_INTEND_TO_ADD", "DEFAULT_VERSION",
        "TREE_EXTENSION", "REUC_EXTENSION", "UNTR_EXTENSION", "SDIR_EXTENSION")}

    # header
    hdr = T.find_def(tree, "read_index_header")
    magic = [n.comparators[0].value for n in ast.walk(hdr) if isinstance(n, ast.Compare)
             and isinstance(n.left, ast.Name) and n.left.id == "header" and isinstance(n.ops[0], ast.NotEq)
             and isinstance(n.comparators[0], ast.Constant)]
    magic = _one(magic, "read_index_header: header != b'DIRC'")
    vers = [T.eval_literal(n.comparators[0]) for n in ast.walk(hdr) if isinstance(n, ast.Compare)
            and isinstance(n.left, ast.Name) and n.left.id == "version" and isinstance(n.ops[0], ast.NotIn)]
    vers = list(_one(vers, "read_index_header: version not in (...)"))
    hdr_fmt = _fmt_widths(_one(_struct_calls(hdr, "unpack"), "read_index_header unpack")[0])
    hdr_read = [T.eval_literal(n.args[0]) for n in ast.walk(hdr) if isinstance(n, ast.Call)
                and isinstance(n.func, ast.Attribute) and n.func.attr == "read" and n.args]
    if hdr_read != [4, 8]:
        raise T.TranslateError(f"read_index_header reads {hdr_read}, model expects [4, 8]")

    # varints
    e_mask, e_shift, e_cont = _varint_enc_consts(T.find_def(tree, "_encode_varint"))
    s_mask, s_shift, s_cont = _varint_dec_consts(T.find_def(tree, "_decompress_path_from_stream"), "_decompress_path_from_stream")
    d_mask, d_shift, d_cont = _varint_dec_consts(T.find_def(tree, "_decode_varint"), "_decode_varint")

    # times
    wt = T.find_def(tree, "write_cache_time")
    rt = T.find_def(tree, "read_cache_time")
    wt_fmt = _fmt_widths(_one(_struct_calls(wt, "pack"), "write_cache_time pack")[0])
    rt_fmt = _fmt_widths(_one(_struct_calls(rt, "unpack"), "read_cache_time unpack")[0])

    # write_cache_entry
    wce = T.find_def(tree, "write_cache_entry")
    packs = _struct_calls(wce, "pack")
    if len(packs) != 2:
        raise T.TranslateError(f"write_cache_entry: expected 2 struct.pack calls, got {len(packs)}")
    (w_fmt, w_call), (wx_fmt, _) = packs
    w_widths = _fmt_widths(w_fmt)
    fields, masks = [], {}
    for a in w_call.args[1:]:
        node, mask = a, None
        if isinstance(a, ast.BinOp) and isinstance(a.op, ast.BitAnd) and isinstance(a.right, ast.Constant):
            node, mask = a.left, a.right.value
        if isinstance(node, ast.Attribute) and isinstance(node.value, ast.Name) and node.value.id == "entry":
            fields.append(node.attr)
            masks[node.attr] = mask
        elif isinstance(node, ast.Call) and isinstance(node.func, ast.Name) and node.func.id == "hex_to_sha":
            fields.append("sha")
        elif isinstance(node, ast.Name):
            fields.append(node.id)
        else:
            raise T.TranslateError(f"write_cache_entry: unrecognised struct.pack argument {ast.dump(a)[:80]}")
    if fields != ["dev", "ino", "mode", "uid", "gid", "size", "sha", "flags"]:
        raise T.TranslateError(f"write_cache_entry packs fields {fields}; the model's layout is different")
    for k, m in masks.items():
        if m is not None and (m & (m + 1)) != 0:
            raise T.TranslateError(f"write_cache_entry: mask {m:#x} on {k} is not of the form 2^k-1")
    w_pad = _pad_consts(wce, "write_cache_entry")
    w_cmp = _compares(wce, "version")
    if [o for o, _ in w_cmp] != ["GtE", "Lt", "GtE"]:
        raise T.TranslateError(f"write_cache_entry: version comparisons changed: {w_cmp}")
    # flags = len(entry.name) | (entry.flags & ~FLAG_NAMEMASK)
    ok = False
    for n in ast.walk(wce):
        if isinstance(n, ast.Assign) and isinstance(n.targets[0], ast.Name) and n.targets[0].id == "flags":
            ok = ast.dump(n.value) == ast.dump(ast.parse("len(entry.name) | (entry.flags & ~FLAG_NAMEMASK)", mode="eval").body)
            break
    if not ok:
        raise T.TranslateError("write_cache_entry: `flags = len(entry.name) | (entry.flags & ~FLAG_NAMEMASK)` changed; "
                               "the model's flag arithmetic no longer describes the code")

    # read_cache_entry
    rce = T.find_def(tree, "read_cache_entry")
    unpacks = _struct_calls(rce, "unpack")
    if len(unpacks) != 2:
        raise T.TranslateError(f"read_cache_entry: expected 2 struct.unpack calls, got {len(unpacks)}")
    r_widths = _fmt_widths(unpacks[0][0])
    rx_widths = _fmt_widths(unpacks[1][0])
    r_call = unpacks[0][1]
    r_read = T.eval_literal(r_call.args[1].args[0])
    r_pad = _pad_consts(rce, "read_cache_entry")
    r_cmp = _compares(rce, "version")
    if [o for o, _ in r_cmp] != ["Lt", "GtE", "Lt"]:
        raise T.TranslateError(f"read_cache_entry: version comparisons changed: {r_cmp}")
    src_rce = ast.unparse(rce)
    for needle in ("f.read(flags & FLAG_NAMEMASK)", "flags & ~FLAG_NAMEMASK", "flags & FLAG_EXTENDED"):
        if needle not in src_rce:
            raise T.TranslateError(f"read_cache_entry: `{needle}` not found; the model's reader no longer describes the code")

    # write_index: version bump
    wi = T.find_def(tree, "write_index")
    wi_cmp = _compares(wi, "version")
    bump = [n.value.value for n in ast.walk(wi) if isinstance(n, ast.Assign) and isinstance(n.targets[0], ast.Name)
            and n.targets[0].id == "version" and isinstance(n.value, ast.Constant)]
    bump = _one(bump, "write_index: version = 3")
    if not wi_cmp or wi_cmp[0][0] != "Lt":
        raise T.TranslateError(f"write_index: `version < 3` not found: {wi_cmp}")
    wi_fmt = _fmt_widths(_one(_struct_calls(wi, "pack"), "write_index header pack")[0])

    # write_index_extension
    wie = T.find_def(tree, "write_index_extension")
    ext_len_fmt = _fmt_widths(_one(_struct_calls(wie, "pack"), "write_index_extension pack")[0])

    # write_index_dict: sorted(entries), stage order
    wid = T.find_def(tree, "write_index_dict")
    if "for key in sorted(entries)" not in ast.unparse(wid):
        raise T.TranslateError("write_index_dict: `for key in sorted(entries)` not found")
    stage_cls = T.find_def(tree, "Stage")
    stage_vals = {st.targets[0].id: st.value.value for st in stage_cls.body
                  if isinstance(st, ast.Assign) and isinstance(st.value, ast.Constant) and isinstance(st.value.value, int)}
    order = []
    for n in ast.walk(wid):
        if isinstance(n, ast.Call) and isinstance(n.func, ast.Attribute) and n.func.attr == "serialize":
            slot = n.func.value.attr if isinstance(n.func.value, ast.Attribute) else "value"
            st = n.args[1]
            order.append((n.lineno, slot, stage_vals[st.attr]))
    order = [(s, v) for _, s, v in sorted(order)]
    if [s for s, _ in order] != ["ancestor", "this", "other", "value"]:
        raise T.TranslateError(f"write_index_dict: serialize order changed: {order}")
    # read side: which stage goes to which slot
    rd = T.find_def(tree, "read_index_dict_with_version")
    slots = {}
    for n in ast.walk(rd):
        if isinstance(n, ast.If) and isinstance(n.test, ast.Compare) and isinstance(n.test.left, ast.Name) \
                and n.test.left.id == "stage" and isinstance(n.test.comparators[0], ast.Attribute):
            stname = n.test.comparators[0].attr
            b = n.body[0]
            if isinstance(b, ast.Assign) and isinstance(b.targets[0], ast.Attribute):
                slots[b.targets[0].attr] = stage_vals[stname]
            elif isinstance(b, ast.Assign) and isinstance(b.targets[0], ast.Subscript):
                slots["normal"] = stage_vals[stname]
    if set(slots) != {"ancestor", "this", "other", "normal"}:
        raise T.TranslateError(f"read_index_dict_with_version: stage dispatch changed: {slots}")
    # extension loop
    trailer = [n.right.value for n in ast.walk(rd) if isinstance(n, ast.BinOp) and isinstance(n.op, ast.Sub)
               and isinstance(n.left, ast.Name) and n.left.id == "eof_pos" and isinstance(n.right, ast.Constant)]
    trailer = _one(trailer, "read_index_dict_with_version: eof_pos - 20")
    rng = [(n.left.value, n.comparators[1].value) for n in ast.walk(rd) if isinstance(n, ast.Compare) and len(n.ops) == 2
           and isinstance(n.left, ast.Constant) and isinstance(n.comparators[1], ast.Constant)
           and all(isinstance(o, ast.LtE) for o in n.ops)]
    sig_lo, sig_hi = _one(rng, "read_index_dict_with_version: 65 <= b <= 90")
    ext_sz_fmt = _fmt_widths(_one(_struct_calls(rd, "unpack"), "read_index_dict_with_version unpack")[0])
    # which extension classes drop their payload (to_bytes returns b"")
    from_raw = T.find_def(tree, "IndexExtension.from_raw")
    drop = []
    for n in ast.walk(from_raw):
        if isinstance(n, ast.If) and isinstance(n.test, ast.Compare) and isinstance(n.test.left, ast.Name) \
                and n.test.left.id == "signature" and isinstance(n.test.comparators[0], ast.Name):
            signame = n.test.comparators[0].id
            ret = n.body[0].value
            cls = ret.func.value.id
            cdef = T.find_def(tree, cls)
            tb = [m for m in cdef.body if isinstance(m, ast.FunctionDef) and m.name == "to_bytes"]
            if tb:
                rets = [r for r in ast.walk(tb[0]) if isinstance(r, ast.Return)]
                if len(rets) == 1 and isinstance(rets[0].value, ast.Constant) and rets[0].value.value == b"":
                    drop.append(c[signame])
                else:
                    raise T.TranslateError(f"{cls}.to_bytes is no longer `return b''`: the model must learn its format")
    # Index.write: empty-payload filter, skip-hash trailer
    iw = T.find_def(tree, "Index.write")
    iw_src = ast.unparse(iw)
    if "if ext_data:" not in iw_src:
        raise T.TranslateError("Index.write: `if ext_data:` filter not found")
    zeros = [T.eval_literal(n.args[0]) for n in ast.walk(iw) if isinstance(n, ast.Call) and isinstance(n.func, ast.Attribute)
             and n.func.attr == "write" and n.args and isinstance(n.args[0], ast.BinOp)]
    zeros = _one(zeros, "Index.write: f.write(b'\\x00' * 20)")
    ir = T.find_def(tree, "Index.read")
    allow = [kw.value.value for n in ast.walk(ir) if isinstance(n, ast.Call) and isinstance(n.func, ast.Attribute)
             and n.func.attr == "check_sha" for kw in n.keywords if kw.arg == "allow_empty"]
    allow = _one(allow, "Index.read: check_sha(allow_empty=...)")
    cs = T.find_def(ptree, "SHA1Reader.check_sha")
    sha_read = [n.args[0].value for n in ast.walk(cs) if isinstance(n, ast.Call) and isinstance(n.func, ast.Attribute)
                and n.func.attr == "read" and n.args and isinstance(n.args[0], ast.Constant)]
    sha_read = _one(sha_read, "SHA1Reader.check_sha: self.f.read(20)")

    def b(x):
        return T.lean_bytes(x)

    src = T.lean_header("dulwich/index.py: FLAG_*, struct layouts and field masks of write_cache_entry/read_cache_entry, "
                        "padding, varint constants, version thresholds, header, extension rules; "
                        "dulwich/pack.py: SHA1Reader.check_sha") + f"""
namespace Dulwich.Gen.Index
def flagStageMask : Nat := {c['FLAG_STAGEMASK']}
def flagStageShift : Nat := {c['FLAG_STAGESHIFT']}
def flagNameMask : Nat := {c['FLAG_NAMEMASK']}
def flagValid : Nat := {c['FLAG_VALID']}
def flagExtended : Nat := {c['FLAG_EXTENDED']}
def extSkipWorktree : Nat := {c['EXTENDED_FLAG_SKIP_WORKTREE']}
def extIntentToAdd : Nat := {c['EXTENDED_FLAG_INTEND_TO_ADD']}
def defaultVersion : Nat := {c['DEFAULT_VERSION']}
def treeSig : List UInt8 := {b(c['TREE_EXTENSION'])}
def reucSig : List UInt8 := {b(c['REUC_EXTENSION'])}
def untrSig : List UInt8 := {b(c['UNTR_EXTENSION'])}
def sdirSig : List UInt8 := {b(c['SDIR_EXTENSION'])}
/-- signatures whose class parses to nothing and serialises to `b""` (`from_raw` / `to_bytes`) -/
def dropPayloadSigs : List (List UInt8) := [{", ".join(b(x) for x in drop)}]
/-- `read_index_header`: magic, accepted versions, `>LL` -/
def magic : List UInt8 := {b(magic)}
def versions : List Nat := {vers}
def headerFmt : List Nat := {hdr_fmt}
def writeHeaderFmt : List Nat := {wi_fmt}
/-- `_encode_varint`: `value & M`, `value >>= S`, `byte |= C` -/
def varintEncMask : Nat := {e_mask}
def varintEncShift : Nat := {e_shift}
def varintEncCont : Nat := {e_cont}
/-- `_decompress_path_from_stream`: `(byte & M) << shift`, `shift += S`, `byte & C` -/
def varintStreamMask : Nat := {s_mask}
def varintStreamShift : Nat := {s_shift}
def varintStreamCont : Nat := {s_cont}
/-- `_decode_varint` (same three constants) -/
def varintDecMask : Nat := {d_mask}
def varintDecShift : Nat := {d_shift}
def varintDecCont : Nat := {d_cont}
/-- struct layouts (field widths in bytes) -/
def timeWriteFmt : List Nat := {wt_fmt}
def timeReadFmt : List Nat := {rt_fmt}
def entryWriteFmt : List Nat := {w_widths}
def entryReadFmt : List Nat := {r_widths}
def entryReadLen : Nat := {r_read}
def extFlagsWriteFmt : List Nat := {_fmt_widths(wx_fmt)}
def extFlagsReadFmt : List Nat := {rx_widths}
def extLenWriteFmt : List Nat := {ext_len_fmt}
def extLenReadFmt : List Nat := {ext_sz_fmt}
/-- `entry.<field> & MASK` inside the struct.pack call of `write_cache_entry` (none = packed unmasked) -/
def devMask : Option Nat := {_opt(masks['dev'])}
def inoMask : Option Nat := {_opt(masks['ino'])}
def modeMask : Option Nat := {_opt(masks['mode'])}
def uidMask : Option Nat := {_opt(masks['uid'])}
def gidMask : Option Nat := {_opt(masks['gid'])}
def sizeMask : Option Nat := {_opt(masks['size'])}
/-- `(f.tell() - beginoffset + A) & ~M` -/
def padAddWrite : Nat := {w_pad[0]}
def padMaskWrite : Nat := {w_pad[1]}
def padAddRead : Nat := {r_pad[0]}
def padMaskRead : Nat := {r_pad[1]}
/-- version thresholds: write_cache_entry `version >= A`, `version < B`, `version >= C` -/
def wCompressFrom : Nat := {w_cmp[0][1]}
def wExtendedFrom : Nat := {w_cmp[1][1]}
def wCompressFrom2 : Nat := {w_cmp[2][1]}
/-- read_cache_entry `version < A` (extended flag), `version >= B` (compressed), `version < C` (padding) -/
def rExtendedFrom : Nat := {r_cmp[0][1]}
def rCompressFrom : Nat := {r_cmp[1][1]}
def rPadBelow : Nat := {r_cmp[2][1]}
/-- write_index: `if uses_extended_flags and version < A: version = B` -/
def bumpBelow : Nat := {wi_cmp[0][1]}
def bumpTo : Nat := {bump}
/-- stage numbers written for (ancestor, this, other, plain value) by write_index_dict, in that order -/
def writeStageOrder : List Nat := {[v for _, v in order]}
/-- stage numbers read into (normal, ancestor, this, other) by read_index_dict_with_version -/
def readStageNormal : Nat := {slots['normal']}
def readStageAncestor : Nat := {slots['ancestor']}
def readStageThis : Nat := {slots['this']}
def readStageOther : Nat := {slots['other']}
/-- extension loop: `current_pos >= eof_pos - T`; signature bytes must satisfy `LO <= b <= HI` -/
def trailerLen : Nat := {trailer}
def sigLo : Nat := {sig_lo}
def sigHi : Nat := {sig_hi}
/-- Index.write: skip-hash trailer length; Index.read: `check_sha(allow_empty=..)`; check_sha reads N bytes -/
def skipHashZeros : Nat := {len(zeros)}
def allowEmpty : Bool := {'true' if allow else 'false'}
def shaReadLen : Nat := {sha_read}
end Dulwich.Gen.Index
"""
    return {"Index": src}
