"""C11 — index file round trip, ordering, checksum, agreement with C git.

Model: lean/DulwichModel/Model/Index.lean; theorems: Props/C11.lean (lemmas in Lemmas/Index.lean).
Tie: translate() regenerates Gen/Index.lean (flag masks, struct layouts, field masks, padding and varint
constants, version thresholds, extension-signature rules, trailer handling) from dulwich/index.py and
dulwich/pack.py; run() drives the correspondence streams (model bytes vs real bytes BYTE-FOR-BYTE, model
reader vs real reader) and the direct oracles (real write->read, C git as third party, damage detection).
"""
from __future__ import annotations

import ast
import hashlib
import io
import json
import os
import shutil
import struct
import subprocess
from pathlib import Path

from .. import core, translate as T
from ..core import hx, unhx

MOD = "c11"
PROP = "C11"


# ------------------------------------------------------------------------------------------------
# translator

_FMT_W = {"L": 4, "I": 4, "H": 2, "B": 1, "Q": 8}


def _fmt_widths(fmt) -> list[int]:
    """'>LLLLLL20sH' -> [4,4,4,4,4,4,20,2]; only big-endian unsigned integer codes and Ns are understood."""
    if isinstance(fmt, bytes):
        fmt = fmt.decode()
    if not fmt.startswith(">"):
        raise T.TranslateError(f"struct format {fmt!r} is not big-endian")
    out, num = [], ""
    for ch in fmt[1:]:
        if ch.isdigit():
            num += ch
        elif ch == "s":
            out.append(int(num or "1"))
            num = ""
        elif ch in _FMT_W:
            out += [_FMT_W[ch]] * int(num or "1")
            num = ""
        else:
            raise T.TranslateError(f"struct format {fmt!r}: code {ch!r} not understood by the model")
    return out


def _struct_calls(func: ast.AST, which: str):
    """all struct.<which>(fmt, ...) calls in source order -> [(fmt, call node)]"""
    out = []
    for n in ast.walk(func):
        if isinstance(n, ast.Call) and isinstance(n.func, ast.Attribute) and n.func.attr == which \
                and isinstance(n.func.value, ast.Name) and n.func.value.id == "struct" and n.args \
                and isinstance(n.args[0], ast.Constant):
            out.append((n.lineno, n.col_offset, n.args[0].value, n))
    return [(f, c) for _, _, f, c in sorted(out, key=lambda t: (t[0], t[1]))]


def _one(lst, what):
    if len(lst) != 1:
        raise T.TranslateError(f"{what}: expected exactly one match, got {len(lst)}")
    return lst[0]


def _compares(func: ast.AST, name: str):
    """[(op class name, constant)] for every `name <op> <int literal>` in func, in source order."""
    out = []
    for n in ast.walk(func):
        if isinstance(n, ast.Compare) and isinstance(n.left, ast.Name) and n.left.id == name and len(n.ops) == 1 \
                and isinstance(n.comparators[0], ast.Constant) and isinstance(n.comparators[0].value, int):
            out.append((n.lineno, n.col_offset, type(n.ops[0]).__name__, n.comparators[0].value))
    return [(o, c) for _, _, o, c in sorted(out)]


def _pad_consts(func: ast.AST, what: str):
    """`(<expr> + A) & ~M` -> (A, M)"""
    found = []
    for n in ast.walk(func):
        if isinstance(n, ast.BinOp) and isinstance(n.op, ast.BitAnd) and isinstance(n.right, ast.UnaryOp) \
                and isinstance(n.right.op, ast.Invert) and isinstance(n.right.operand, ast.Constant) \
                and isinstance(n.left, ast.BinOp) and isinstance(n.left.op, ast.Add) \
                and isinstance(n.left.right, ast.Constant):
            found.append((n.left.right.value, n.right.operand.value))
    return _one(found, f"{what}: padding expression `(.. + A) & ~M`")


def _all_equal(vals, what):
    if not vals or len(set(vals)) != 1:
        raise T.TranslateError(f"{what}: expected one repeated constant, got {vals}")
    return vals[0]


def _varint_enc_consts(func):
    """git's offset varint as coded in `_encode_varint`:
    `result = [value & M]; value >>= S; while value > 0: value -= 1; result.append(C | (value & M)); value >>= S;
    return bytes(reversed(result))` -> (M, S, C)"""
    mask = [n.right.value for n in ast.walk(func) if isinstance(n, ast.BinOp) and isinstance(n.op, ast.BitAnd)
            and isinstance(n.right, ast.Constant)]
    shift = [n.value.value for n in ast.walk(func) if isinstance(n, ast.AugAssign) and isinstance(n.op, ast.RShift)
             and isinstance(n.value, ast.Constant)]
    cont = [n.left.value for n in ast.walk(func) if isinstance(n, ast.BinOp) and isinstance(n.op, ast.BitOr)
            and isinstance(n.left, ast.Constant)]
    dec = [n.value.value for n in ast.walk(func) if isinstance(n, ast.AugAssign) and isinstance(n.op, ast.Sub)
           and isinstance(n.value, ast.Constant)]
    src = ast.unparse(func)
    if dec != [1] or "bytes(reversed(result))" not in src or len(mask) != 2 or len(shift) != 2:
        raise T.TranslateError("_encode_varint is no longer git's offset varint as modelled "
                               f"(masks {mask}, shifts {shift}, decrements {dec})")
    return _all_equal(mask, "_encode_varint mask"), _all_equal(shift, "_encode_varint shift"), _one(cont, "_encode_varint cont")


def _varint_dec_consts(func, what, var):
    """`<var> = -1 … <var> = (<var> + 1) << S | byte & MASK … byte & CONT` -> (MASK, S, CONT)"""
    masks = []
    for n in ast.walk(func):
        if isinstance(n, ast.BinOp) and isinstance(n.op, ast.BitAnd) and isinstance(n.left, ast.Name) \
                and n.left.id == "byte" and isinstance(n.right, ast.Constant):
            masks.append((n.lineno, n.col_offset, n.right.value))
    masks = [m for _, _, m in sorted(masks)]
    if len(masks) != 2:
        raise T.TranslateError(f"{what}: expected `byte & MASK` and `byte & CONT`, got {masks}")
    shift = []
    for n in ast.walk(func):
        if isinstance(n, ast.Assign) and isinstance(n.targets[0], ast.Name) and n.targets[0].id == var \
                and isinstance(n.value, ast.BinOp) and isinstance(n.value.op, ast.BitOr):
            lhs = n.value.left
            if isinstance(lhs, ast.BinOp) and isinstance(lhs.op, ast.LShift) and isinstance(lhs.right, ast.Constant) \
                    and ast.unparse(lhs.left) == f"{var} + 1":
                shift.append(lhs.right.value)
    init = [T.eval_literal(n.value) for n in ast.walk(func) if isinstance(n, ast.Assign)
            and isinstance(n.targets[0], ast.Name) and n.targets[0].id == var and not isinstance(n.value, ast.BinOp)]
    if init != [-1]:
        raise T.TranslateError(f"{what}: `{var} = -1` initialisation not found ({init})")
    return masks[0], _one(shift, f"{what}: ({var} + 1) << S"), masks[1]


def _opt(v):
    return "none" if v is None else f"(some {v})"


def translate(repo: Path) -> dict:
    tree = T.module_ast(repo / "dulwich" / "index.py")
    ptree = T.module_ast(repo / "dulwich" / "pack.py")
    c = {k: T.const_value(tree, k) for k in (
        "FLAG_STAGEMASK", "FLAG_STAGESHIFT", "FLAG_NAMEMASK", "FLAG_VALID", "FLAG_EXTENDED",
        "EXTENDED_FLAG_SKIP_WORKTREE", "EXTENDED_FLAG_INTEND_TO_ADD", "DEFAULT_VERSION",
        "TREE_EXTENSION", "REUC_EXTENSION", "UNTR_EXTENSION", "SDIR_EXTENSION")}

    # header
    hdr = T.find_def(tree, "read_index_header")
    magic = [n.comparators[0].value for n in ast.walk(hdr) if isinstance(n, ast.Compare)
             and isinstance(n.left, ast.Name) and n.left.id == "header" and isinstance(n.ops[0], ast.NotEq)
             and isinstance(n.comparators[0], ast.Constant)]
    magic = _one(magic, "read_index_header: header != b'DIRC'")
    vers = [T.eval_literal(n.comparators[0]) for n in ast.walk(hdr) if isinstance(n, ast.Compare)
            and isinstance(n.left, ast.Name) and n.left.id == "version" and isinstance(n.ops[0], ast.NotIn)]
    vers = list(_one(vers, "read_index_header: version not in (...)"))
    hdr_fmt = _fmt_widths(_one(_struct_calls(hdr, "unpack"), "read_index_header unpack")[0])
    hdr_read = [T.eval_literal(n.args[0]) for n in ast.walk(hdr) if isinstance(n, ast.Call)
                and isinstance(n.func, ast.Attribute) and n.func.attr == "read" and n.args]
    if hdr_read != [4, 8]:
        raise T.TranslateError(f"read_index_header reads {hdr_read}, model expects [4, 8]")

    # varints
    e_mask, e_shift, e_cont = _varint_enc_consts(T.find_def(tree, "_encode_varint"))
    s_mask, s_shift, s_cont = _varint_dec_consts(T.find_def(tree, "_decompress_path_from_stream"),
                                                 "_decompress_path_from_stream", "remove_len")
    d_mask, d_shift, d_cont = _varint_dec_consts(T.find_def(tree, "_decode_varint"), "_decode_varint", "value")
    if "raise ValueError" not in ast.unparse(T.find_def(tree, "_decode_varint")):
        raise T.TranslateError("_decode_varint no longer raises ValueError at the end of the data")

    # times
    wt = T.find_def(tree, "write_cache_time")
    rt = T.find_def(tree, "read_cache_time")
    wt_pack = _one(_struct_calls(wt, "pack"), "write_cache_time pack")
    wt_fmt = _fmt_widths(wt_pack[0])
    t_masks = []
    for a_ in wt_pack[1].args[1:]:
        if isinstance(a_, ast.BinOp) and isinstance(a_.op, ast.BitAnd) and isinstance(a_.right, ast.Constant) \
                and isinstance(a_.left, ast.Name):
            t_masks.append((a_.left.id, a_.right.value))
        elif isinstance(a_, ast.Name):
            t_masks.append((a_.id, None))
        else:
            raise T.TranslateError(f"write_cache_time: unrecognised struct.pack argument {ast.dump(a_)[:80]}")
    if [n_ for n_, _ in t_masks] != ["secs", "nsecs"]:
        raise T.TranslateError(f"write_cache_time packs {t_masks}; the model expects (secs, nsecs)")
    for _, m_ in t_masks:
        if m_ is not None and (m_ & (m_ + 1)) != 0:
            raise T.TranslateError(f"write_cache_time: mask {m_:#x} is not of the form 2^k-1")
    rt_fmt = _fmt_widths(_one(_struct_calls(rt, "unpack"), "read_cache_time unpack")[0])

    # write_cache_entry
    wce = T.find_def(tree, "write_cache_entry")
    packs = _struct_calls(wce, "pack")
    if len(packs) != 2:
        raise T.TranslateError(f"write_cache_entry: expected 2 struct.pack calls, got {len(packs)}")
    (w_fmt, w_call), (wx_fmt, _) = packs
    w_widths = _fmt_widths(w_fmt)
    fields, masks = [], {}
    for a in w_call.args[1:]:
        node, mask = a, None
        if isinstance(a, ast.BinOp) and isinstance(a.op, ast.BitAnd) and isinstance(a.right, ast.Constant):
            node, mask = a.left, a.right.value
        if isinstance(node, ast.Attribute) and isinstance(node.value, ast.Name) and node.value.id == "entry":
            fields.append(node.attr)
            masks[node.attr] = mask
        elif isinstance(node, ast.Call) and isinstance(node.func, ast.Name) and node.func.id == "hex_to_sha":
            fields.append("sha")
        elif isinstance(node, ast.Name):
            fields.append(node.id)
        else:
            raise T.TranslateError(f"write_cache_entry: unrecognised struct.pack argument {ast.dump(a)[:80]}")
    if fields != ["dev", "ino", "mode", "uid", "gid", "size", "sha", "flags"]:
        raise T.TranslateError(f"write_cache_entry packs fields {fields}; the model's layout is different")
    for k, m in masks.items():
        if m is not None and (m & (m + 1)) != 0:
            raise T.TranslateError(f"write_cache_entry: mask {m:#x} on {k} is not of the form 2^k-1")
    w_pad = _pad_consts(wce, "write_cache_entry")
    w_cmp = _compares(wce, "version")
    if [o for o, _ in w_cmp] != ["GtE", "Lt", "GtE"]:
        raise T.TranslateError(f"write_cache_entry: version comparisons changed: {w_cmp}")
    # flags = len(entry.name) | (entry.flags & ~FLAG_NAMEMASK)
    ok = False
    for n in ast.walk(wce):
        if isinstance(n, ast.Assign) and isinstance(n.targets[0], ast.Name) and n.targets[0].id == "flags":
            ok = ast.dump(n.value) == ast.dump(ast.parse("min(len(entry.name), FLAG_NAMEMASK) | (entry.flags & ~FLAG_NAMEMASK)", mode="eval").body)
            break
    if not ok:
        raise T.TranslateError("write_cache_entry: `flags = min(len(entry.name), FLAG_NAMEMASK) | (entry.flags & ~FLAG_NAMEMASK)` changed; "
                               "the model's flag arithmetic no longer describes the code")

    # read_cache_entry
    rce = T.find_def(tree, "read_cache_entry")
    unpacks = _struct_calls(rce, "unpack")
    if len(unpacks) != 2:
        raise T.TranslateError(f"read_cache_entry: expected 2 struct.unpack calls, got {len(unpacks)}")
    r_widths = _fmt_widths(unpacks[0][0])
    rx_widths = _fmt_widths(unpacks[1][0])
    r_call = unpacks[0][1]
    r_read = T.eval_literal(r_call.args[1].args[0])
    r_pad = _pad_consts(rce, "read_cache_entry")
    r_cmp = _compares(rce, "version")
    if [o for o, _ in r_cmp] != ["Lt", "GtE"]:
        raise T.TranslateError(f"read_cache_entry: version comparisons changed: {r_cmp}")
    src_rce = ast.unparse(rce)
    for needle in ("name_len = flags & FLAG_NAMEMASK", "name = f.read(name_len)", "if name_len == FLAG_NAMEMASK:",
                   "if char == b'\\x00':", "raise ValueError('Unterminated name in index entry')",
                   "name_end - beginoffset", "flags & ~FLAG_NAMEMASK", "flags & FLAG_EXTENDED"):
        if needle not in src_rce:
            raise T.TranslateError(f"read_cache_entry: `{needle}` not found; the model's reader no longer describes the code")

    # write_index: version bump
    wi = T.find_def(tree, "write_index")
    wi_cmp = _compares(wi, "version")
    bump = [n.value.value for n in ast.walk(wi) if isinstance(n, ast.Assign) and isinstance(n.targets[0], ast.Name)
            and n.targets[0].id == "version" and isinstance(n.value, ast.Constant)]
    bump = _one(bump, "write_index: version = 3")
    if not wi_cmp or wi_cmp[0][0] != "Lt":
        raise T.TranslateError(f"write_index: `version < 3` not found: {wi_cmp}")
    wi_fmt = _fmt_widths(_one(_struct_calls(wi, "pack"), "write_index header pack")[0])

    # write_index_extension
    wie = T.find_def(tree, "write_index_extension")
    ext_len_fmt = _fmt_widths(_one(_struct_calls(wie, "pack"), "write_index_extension pack")[0])

    # write_index_dict: sorted(entries), stage order
    wid = T.find_def(tree, "write_index_dict")
    if "for key in sorted(entries)" not in ast.unparse(wid):
        raise T.TranslateError("write_index_dict: `for key in sorted(entries)` not found")
    stage_cls = T.find_def(tree, "Stage")
    stage_vals = {st.targets[0].id: st.value.value for st in stage_cls.body
                  if isinstance(st, ast.Assign) and isinstance(st.value, ast.Constant) and isinstance(st.value.value, int)}
    order = []
    for n in ast.walk(wid):
        if isinstance(n, ast.Call) and isinstance(n.func, ast.Attribute) and n.func.attr == "serialize":
            slot = n.func.value.attr if isinstance(n.func.value, ast.Attribute) else "value"
            st = n.args[1]
            order.append((n.lineno, slot, stage_vals[st.attr]))
    order = [(s, v) for _, s, v in sorted(order)]
    if [s for s, _ in order] != ["ancestor", "this", "other", "value"]:
        raise T.TranslateError(f"write_index_dict: serialize order changed: {order}")
    # read side: which stage goes to which slot
    rd = T.find_def(tree, "read_index_dict_with_version")
    slots = {}
    for n in ast.walk(rd):
        if isinstance(n, ast.If) and isinstance(n.test, ast.Compare) and isinstance(n.test.left, ast.Name) \
                and n.test.left.id == "stage" and isinstance(n.test.comparators[0], ast.Attribute):
            stname = n.test.comparators[0].attr
            b = n.body[0]
            if isinstance(b, ast.Assign) and isinstance(b.targets[0], ast.Attribute):
                slots[b.targets[0].attr] = stage_vals[stname]
            elif isinstance(b, ast.Assign) and isinstance(b.targets[0], ast.Subscript):
                slots["normal"] = stage_vals[stname]
    if set(slots) != {"ancestor", "this", "other", "normal"}:
        raise T.TranslateError(f"read_index_dict_with_version: stage dispatch changed: {slots}")
    # extension loop
    trailer = [n.right.value for n in ast.walk(rd) if isinstance(n, ast.BinOp) and isinstance(n.op, ast.Sub)
               and isinstance(n.left, ast.Name) and n.left.id == "eof_pos" and isinstance(n.right, ast.Constant)]
    trailer = _one(trailer, "read_index_dict_with_version: eof_pos - 20")
    rng = [(n.left.value, n.comparators[1].value) for n in ast.walk(rd) if isinstance(n, ast.Compare) and len(n.ops) == 2
           and isinstance(n.left, ast.Constant) and isinstance(n.comparators[1], ast.Constant)
           and all(isinstance(o, ast.LtE) for o in n.ops)]
    sig_lo, sig_hi = _one(rng, "read_index_dict_with_version: 65 <= signature[0] <= 90")
    rd_src = ast.unparse(rd)
    if "type(extension) is IndexExtension and (not 65 <= signature[0] <= 90)" not in rd_src.replace(str(sig_lo), "65").replace(str(sig_hi), "90") \
            or "raise UnsupportedIndexExtension(signature)" not in rd_src or "f.seek(-4, 1)" in rd_src:
        raise T.TranslateError("read_index_dict_with_version: the extension rule (every signature is parsed; an unknown "
                               "one must start with A..Z) is no longer the one modelled")
    ext_sz_fmt = _fmt_widths(_one(_struct_calls(rd, "unpack"), "read_index_dict_with_version unpack")[0])
    # which extension classes drop their payload (to_bytes returns b"")
    from_raw = T.find_def(tree, "IndexExtension.from_raw")
    drop, known = [], []
    for n in ast.walk(from_raw):
        if isinstance(n, ast.If) and isinstance(n.test, ast.Compare) and isinstance(n.test.left, ast.Name) \
                and n.test.left.id == "signature" and isinstance(n.test.comparators[0], ast.Name):
            signame = n.test.comparators[0].id
            known.append(c[signame])
            ret = n.body[0].value
            cls = ret.func.value.id
            cdef = T.find_def(tree, cls)
            tb = [m for m in cdef.body if isinstance(m, ast.FunctionDef) and m.name == "to_bytes"]
            if tb:
                rets = [r for r in ast.walk(tb[0]) if isinstance(r, ast.Return)]
                if len(rets) == 1 and isinstance(rets[0].value, ast.Constant) and rets[0].value.value == b"":
                    drop.append(c[signame])
                else:
                    raise T.TranslateError(f"{cls}.to_bytes is no longer `return b''`: the model must learn its format")
    # Index.write: empty-payload filter, skip-hash trailer
    iw = T.find_def(tree, "Index.write")
    iw_src = ast.unparse(iw)
    if "if ext_data:" not in iw_src:
        raise T.TranslateError("Index.write: `if ext_data:` filter not found")
    zeros = [T.eval_literal(n.args[0]) for n in ast.walk(iw) if isinstance(n, ast.Call) and isinstance(n.func, ast.Attribute)
             and n.func.attr == "write" and n.args and isinstance(n.args[0], ast.BinOp)]
    zeros = _one(zeros, "Index.write: f.write(b'\\x00' * 20)")
    ir = T.find_def(tree, "Index.read")
    allow = [kw.value.value for n in ast.walk(ir) if isinstance(n, ast.Call) and isinstance(n.func, ast.Attribute)
             and n.func.attr == "check_sha" for kw in n.keywords if kw.arg == "allow_empty"]
    allow = _one(allow, "Index.read: check_sha(allow_empty=...)")
    cs = T.find_def(ptree, "SHA1Reader.check_sha")
    sha_read = [n.args[0].value for n in ast.walk(cs) if isinstance(n, ast.Call) and isinstance(n.func, ast.Attribute)
                and n.func.attr == "read" and n.args and isinstance(n.args[0], ast.Constant)]
    sha_read = _one(sha_read, "SHA1Reader.check_sha: self.f.read(20)")
    cs_src = ast.unparse(cs)
    cs_zero = [T.eval_literal(n) for n in ast.walk(cs) if isinstance(n, ast.BinOp) and isinstance(n.op, ast.Mult)]
    if "if stored != self.sha1.digest() and (not (allow_empty and stored ==" not in cs_src or len(cs_zero) != 1 \
            or set(cs_zero[0]) != {0}:
        raise T.TranslateError("SHA1Reader.check_sha: condition is no longer "
                               "`stored != digest and not (allow_empty and stored == b'\\0' * N)`")
    sha_zero_len = len(cs_zero[0])

    def b(x):
        return T.lean_bytes(x)

    src = T.lean_header("dulwich/index.py: FLAG_*, struct layouts and field masks of write_cache_entry/read_cache_entry, "
                        "padding, varint constants, version thresholds, header, extension rules; "
                        "dulwich/pack.py: SHA1Reader.check_sha") + f"""
namespace Dulwich.Gen.Index
def flagStageMask : Nat := {c['FLAG_STAGEMASK']}
def flagStageShift : Nat := {c['FLAG_STAGESHIFT']}
def flagNameMask : Nat := {c['FLAG_NAMEMASK']}
def flagValid : Nat := {c['FLAG_VALID']}
def flagExtended : Nat := {c['FLAG_EXTENDED']}
def extSkipWorktree : Nat := {c['EXTENDED_FLAG_SKIP_WORKTREE']}
def extIntentToAdd : Nat := {c['EXTENDED_FLAG_INTEND_TO_ADD']}
def defaultVersion : Nat := {c['DEFAULT_VERSION']}
def treeSig : List UInt8 := {b(c['TREE_EXTENSION'])}
def reucSig : List UInt8 := {b(c['REUC_EXTENSION'])}
def untrSig : List UInt8 := {b(c['UNTR_EXTENSION'])}
def sdirSig : List UInt8 := {b(c['SDIR_EXTENSION'])}
/-- signatures whose class parses to nothing and serialises to `b""` (`from_raw` / `to_bytes`) -/
def dropPayloadSigs : List (List UInt8) := [{", ".join(b(x) for x in drop)}]
/-- signatures `from_raw` maps to a class of their own (everything else stays a plain `IndexExtension`) -/
def knownSigs : List (List UInt8) := [{", ".join(b(x) for x in known)}]
/-- `read_index_header`: magic, accepted versions, `>LL` -/
def magic : List UInt8 := {b(magic)}
def versions : List Nat := {vers}
def headerFmt : List Nat := {hdr_fmt}
def writeHeaderFmt : List Nat := {wi_fmt}
/-- `_encode_varint` (git's offset varint): `value & M`, `value >>= S`, `C | (value & M)` -/
def varintEncMask : Nat := {e_mask}
def varintEncShift : Nat := {e_shift}
def varintEncCont : Nat := {e_cont}
/-- `_decompress_path_from_stream`: `remove_len = (remove_len + 1) << S | byte & M`, `byte & C` -/
def varintStreamMask : Nat := {s_mask}
def varintStreamShift : Nat := {s_shift}
def varintStreamCont : Nat := {s_cont}
/-- `_decode_varint` (same three constants) -/
def varintDecMask : Nat := {d_mask}
def varintDecShift : Nat := {d_shift}
def varintDecCont : Nat := {d_cont}
/-- struct layouts (field widths in bytes) -/
def timeWriteFmt : List Nat := {wt_fmt}
def timeReadFmt : List Nat := {rt_fmt}
def entryWriteFmt : List Nat := {w_widths}
def entryReadFmt : List Nat := {r_widths}
def entryReadLen : Nat := {r_read}
def extFlagsWriteFmt : List Nat := {_fmt_widths(wx_fmt)}
def extFlagsReadFmt : List Nat := {rx_widths}
def extLenWriteFmt : List Nat := {ext_len_fmt}
def extLenReadFmt : List Nat := {ext_sz_fmt}
/-- `entry.<field> & MASK` inside the struct.pack call of `write_cache_entry` (none = packed unmasked) -/
def devMask : Option Nat := {_opt(masks['dev'])}
def inoMask : Option Nat := {_opt(masks['ino'])}
def modeMask : Option Nat := {_opt(masks['mode'])}
def uidMask : Option Nat := {_opt(masks['uid'])}
def gidMask : Option Nat := {_opt(masks['gid'])}
def sizeMask : Option Nat := {_opt(masks['size'])}
/-- `secs & MASK, nsecs & MASK` inside the struct.pack call of `write_cache_time` -/
def timeSecMask : Option Nat := {_opt(t_masks[0][1])}
def timeNsecMask : Option Nat := {_opt(t_masks[1][1])}
/-- `(f.tell() - beginoffset + A) & ~M` -/
def padAddWrite : Nat := {w_pad[0]}
def padMaskWrite : Nat := {w_pad[1]}
def padAddRead : Nat := {r_pad[0]}
def padMaskRead : Nat := {r_pad[1]}
/-- version thresholds: write_cache_entry `version >= A`, `version < B`, `version >= C` -/
def wCompressFrom : Nat := {w_cmp[0][1]}
def wExtendedFrom : Nat := {w_cmp[1][1]}
def wCompressFrom2 : Nat := {w_cmp[2][1]}
/-- read_cache_entry `version < A` (extended flag), `version >= B` (compressed; otherwise name + padding) -/
def rExtendedFrom : Nat := {r_cmp[0][1]}
def rCompressFrom : Nat := {r_cmp[1][1]}
/-- write_index: `if uses_extended_flags and version < A: version = B` -/
def bumpBelow : Nat := {wi_cmp[0][1]}
def bumpTo : Nat := {bump}
/-- stage numbers written for (ancestor, this, other, plain value) by write_index_dict, in that order -/
def writeStageOrder : List Nat := {[v for _, v in order]}
/-- stage numbers read into (normal, ancestor, this, other) by read_index_dict_with_version -/
def readStageNormal : Nat := {slots['normal']}
def readStageAncestor : Nat := {slots['ancestor']}
def readStageThis : Nat := {slots['this']}
def readStageOther : Nat := {slots['other']}
/-- extension loop: `current_pos >= eof_pos - T`; an extension of an unknown class is refused unless `LO <= signature[0] <= HI` -/
def trailerLen : Nat := {trailer}
def sigLo : Nat := {sig_lo}
def sigHi : Nat := {sig_hi}
/-- Index.write: skip-hash trailer length; Index.read: `check_sha(allow_empty=..)`; check_sha reads N bytes -/
def skipHashZeros : Nat := {len(zeros)}
def allowEmpty : Bool := {'true' if allow else 'false'}
def shaReadLen : Nat := {sha_read}
/-- check_sha: `allow_empty and stored == b"\\x00" * N` -/
def shaZeroLen : Nat := {sha_zero_len}
end Dulwich.Gen.Index
"""
    return {"Index": src}


# ------------------------------------------------------------------------------------------------
# case encoding (JSON-able <-> model tokens <-> real dulwich objects)
#
# time   : int | [sec, nsec] | {"f": float}
# entry  : {"ctime","mtime","dev","ino","mode","uid","gid","size","sha"(40 hex chars),"flags","ext"}
# item   : [keyhex, "N", entry] | [keyhex, "C", entry|None, entry|None, entry|None]
# ext    : [sighex, datahex]
# index case: {"version": int|None, "skip_hash": bool, "items": [...], "exts": [...]}

U32 = 1 << 32
SHA_EMPTY = "e69de29bb2d1d6434b8b29ae775ad8c2e48c5391"
KNOWN_SIGS = (b"TREE", b"REUC", b"UNTR", b"sdir")


def float_pair(t: float):
    """The (sec, nsec) CPython computes in write_cache_time for a float (outside the Lean model)."""
    secs, nsecs = divmod(t, 1.0)
    return int(secs), int(nsecs * 1000000000)


def time_for_model(t):
    if isinstance(t, dict):
        return list(float_pair(t["f"]))
    return t


def tok_time(t) -> str:
    t = time_for_model(t)
    if isinstance(t, int):
        return f"t{t}"
    return f"{t[0]},{t[1]}"


def tok_entry(e: dict, name: bytes = b"") -> str:
    return ":".join([hx(name), tok_time(e["ctime"]), tok_time(e["mtime"]), str(e["dev"]), str(e["ino"]), str(e["mode"]),
                     str(e["uid"]), str(e["gid"]), str(e["size"]), e["sha"], str(e["flags"]), str(e["ext"])])


def tok_item(it) -> str:
    if it[1] == "N":
        return f"{it[0]}|N|{tok_entry(it[2])}"
    return f"{it[0]}|C|" + "|".join("_" if e is None else tok_entry(e) for e in it[2:5])


def model_negative(e: dict) -> bool:
    """Negative numbers are outside the model (Nat)."""
    def neg_t(t):
        t = time_for_model(t)
        return t < 0 if isinstance(t, int) else (t[0] < 0 or t[1] < 0)
    return neg_t(e["ctime"]) or neg_t(e["mtime"]) or any(e[k] < 0 for k in ("dev", "ino", "mode", "uid", "gid", "size", "flags", "ext"))


def py_time(t):
    if isinstance(t, dict):
        return t["f"]
    if isinstance(t, list):
        return tuple(t)
    return t


def py_index_entry(e: dict):
    from dulwich.index import IndexEntry
    return IndexEntry(py_time(e["ctime"]), py_time(e["mtime"]), e["dev"], e["ino"], e["mode"], e["uid"], e["gid"],
                      e["size"], e["sha"].encode(), e["flags"], e["ext"])


def py_serialized(e: dict, name: bytes):
    from dulwich.index import SerializedIndexEntry
    return SerializedIndexEntry(name, py_time(e["ctime"]), py_time(e["mtime"]), e["dev"], e["ino"], e["mode"], e["uid"],
                                e["gid"], e["size"], e["sha"].encode(), e["flags"], e["ext"])


def py_value(it):
    from dulwich.index import ConflictedIndexEntry
    if it[1] == "N":
        return py_index_entry(it[2])
    return ConflictedIndexEntry(*[None if e is None else py_index_entry(e) for e in it[2:5]])


def py_ext(x):
    from dulwich.index import IndexExtension
    sig, data = unhx(x[0]), unhx(x[1])
    if sig in KNOWN_SIGS:
        return IndexExtension.from_raw(sig, data)   # what a read produces (TREE/REUC/sdir parse to nothing)
    return IndexExtension(sig, data)


def canon_time(t):
    if isinstance(t, tuple):
        return f"{t[0]},{t[1]}"
    return f"t{t}" if isinstance(t, int) else repr(t)


def canon_real_entry(e, name: bytes) -> str:
    """Real IndexEntry/SerializedIndexEntry -> the model's entry token."""
    sha = e.sha.decode() if isinstance(e.sha, bytes) else str(e.sha)
    return ":".join([hx(name), canon_time(e.ctime), canon_time(e.mtime), str(e.dev), str(e.ino), str(e.mode), str(e.uid),
                     str(e.gid), str(e.size), sha, str(e.flags), str(e.extended_flags)])


def canon_real_item(k: bytes, v) -> str:
    from dulwich.index import ConflictedIndexEntry
    if isinstance(v, ConflictedIndexEntry):
        return f"{hx(k)}|C|" + "|".join("_" if e is None else canon_real_entry(e, k) for e in (v.ancestor, v.this, v.other))
    return f"{hx(k)}|N|{canon_real_entry(v, k)}"


EXC_MAP = {"error": "struct", "ValueError": "value", "AssertionError": "assertion", "ChecksumMismatch": "checksum",
           "UnsupportedIndexFormat": "unsupported", "UnsupportedIndexExtension": "unsupportedext"}


def exc_kind(ex: BaseException) -> str:
    return "err " + EXC_MAP.get(type(ex).__name__, "py:" + type(ex).__name__)


# ------------------------------------------------------------------------------------------------
# real-code adapters (in-process: pure Python, cannot kill the interpreter)

def real_write_entry(v: int, prev: bytes, e: dict, name: bytes) -> str:
    from dulwich.index import write_cache_entry
    f = io.BytesIO()
    try:
        write_cache_entry(f, py_serialized(e, name), v, prev)
    except Exception as ex:
        return exc_kind(ex)
    return "ok " + hx(f.getvalue())


def real_read_entry(v: int, prev: bytes, data: bytes) -> str:
    from dulwich.index import read_cache_entry
    f = io.BytesIO(data)
    try:
        e = read_cache_entry(f, v, prev)
    except Exception as ex:
        return exc_kind(ex)
    return f"ok {canon_real_entry(e, e.name)} {hx(data[f.tell():])}"


def real_index_write(path: Path, case: dict):
    """Index.write() on `path` -> ('ok', file bytes) | ('err', kind)."""
    from dulwich.index import Index
    idx = Index(str(path), read=False, skip_hash=case["skip_hash"], version=case["version"])
    for it in case["items"]:
        idx[unhx(it[0])] = py_value(it)
    idx._extensions = [py_ext(x) for x in case["exts"]]
    try:
        idx.write()
    except Exception as ex:
        return "err", exc_kind(ex)
    return "ok", path.read_bytes()


def real_write_index_dict(case: dict) -> str:
    from dulwich.index import write_index_dict
    f = io.BytesIO()
    try:
        write_index_dict(f, {unhx(it[0]): py_value(it) for it in case["items"]}, version=case["version"],
                         extensions=[py_ext(x) for x in case["exts"]])
    except Exception as ex:
        return exc_kind(ex)
    return "ok " + hx(f.getvalue())


def real_index_read(path: Path):
    """Index(path) -> ('ok', [(key, value)], version, [(sig, payload)]) | ('err', kind)"""
    from dulwich.index import Index
    try:
        idx = Index(str(path))
    except Exception as ex:
        return ("err", exc_kind(ex))
    return ("ok", list(idx.items()), idx._version, [(x.signature, x.to_bytes()) for x in idx._extensions])


def canon_read(r) -> str:
    if r[0] == "err":
        return r[1]
    _, items, ver, exts = r
    return (f"ok {ver} {len(items)}" + "".join(" " + canon_real_item(k, v) for k, v in items) +
            f" {len(exts)}" + "".join(f" {hx(s)}:{hx(d)}" for s, d in exts))


def model_windex_line(mode: int, case: dict) -> str:
    ver = "-" if case["version"] is None else str(case["version"])
    exts = [f"{x[0]}:{x[1]}" for x in _effective_exts(case)]
    return " ".join([f"c11.windex {mode} {ver} {len(exts)}"] + exts + [tok_item(it) for it in case["items"]])


def _effective_exts(case):
    """(sig, to_bytes()) as the real objects built by py_ext would report."""
    out = []
    for x in case["exts"]:
        sig = unhx(x[0])
        if sig in (b"TREE", b"REUC", b"sdir"):
            out.append([x[0], "-"])
        else:
            out.append([x[0], x[1]])
    return out


# ------------------------------------------------------------------------------------------------
# the property's own words: what must come back (independent of the model and of the code)

FLAG_EXTENDED = 0x4000
NAMEMASK = 0x0FFF
STAGEMASK = 0x3000


def expect_time(t):
    """-> ('pair', s, n) exact | ('float', t)"""
    if isinstance(t, dict):
        return ("float", t["f"])
    if isinstance(t, int):
        return ("pair", t, 0)
    return ("pair", t[0], t[1])


def time_matches(exp, got) -> bool:
    """The index holds the low 32 bits of seconds and nanoseconds (git: `(unsigned int)`)."""
    if not isinstance(got, tuple) or len(got) != 2:
        return False
    if exp[0] == "pair":
        return got == (exp[1] % U32, exp[2] % U32)
    import math
    t = exp[1]
    sec = math.floor(t)
    return got[0] == sec % U32 and abs(got[1] - (t - sec) * 1e9) <= 1.0 and 0 <= got[1] < 1000000000


def expected_entry(e: dict, stage: int):
    """Normal form the index format can hold (git's own narrowing: 32-bit truncation of dev/ino/size)."""
    flags = (e["flags"] & 0xF000 & ~STAGEMASK) | (stage << 12)
    if e["ext"]:
        flags |= FLAG_EXTENDED
    return {"ctime": expect_time(e["ctime"]), "mtime": expect_time(e["mtime"]), "dev": e["dev"] % U32, "ino": e["ino"] % U32,
            "mode": e["mode"], "uid": e["uid"], "gid": e["gid"], "size": e["size"] % U32, "sha": e["sha"],
            "flags": flags, "ext": e["ext"]}


def expected_flat(case: dict):
    """[(name, stage, expected entry)] in git's order: path bytes, then stage."""
    out = []
    for it in sorted(case["items"], key=lambda it: unhx(it[0])):
        k = unhx(it[0])
        if it[1] == "N":
            out.append((k, 0, expected_entry(it[2], 0)))
        else:
            for st, e in zip((1, 2, 3), it[2:5]):
                if e is not None:
                    out.append((k, st, expected_entry(e, st)))
    return out


def expected_version(case: dict) -> int:
    v = 2 if case["version"] is None else case["version"]
    uses_ext = any(e[2]["ext"] for e in expected_flat(case))
    return max(v, 3) if uses_ext else v


def real_flat(items):
    """real dict items -> [(name, stage, IndexEntry)] in dict order"""
    from dulwich.index import ConflictedIndexEntry
    out = []
    for k, v in items:
        if isinstance(v, ConflictedIndexEntry):
            for st, e in zip((1, 2, 3), (v.ancestor, v.this, v.other)):
                if e is not None:
                    out.append((k, st, e))
        else:
            out.append((k, 0, v))
    return out


def entry_diff(exp: dict, got) -> str | None:
    if not time_matches(exp["ctime"], got.ctime):
        return f"ctime {got.ctime!r} != {exp['ctime']}"
    if not time_matches(exp["mtime"], got.mtime):
        return f"mtime {got.mtime!r} != {exp['mtime']}"
    for k, a in (("dev", got.dev), ("ino", got.ino), ("mode", got.mode), ("uid", got.uid), ("gid", got.gid),
                 ("size", got.size), ("flags", got.flags), ("ext", got.extended_flags)):
        if exp[k] != a:
            return f"{k} {a} != {exp[k]}"
    if exp["sha"].encode() != bytes(got.sha):
        return f"sha {got.sha!r} != {exp['sha']}"
    return None


def time_in_u32(t) -> bool:
    if isinstance(t, dict):
        f = t["f"]
        return 0 <= f < U32
    if isinstance(t, int):
        return 0 <= t < U32
    return 0 <= t[0] < U32 and 0 <= t[1] < U32


def case_entries(case):
    for it in case["items"]:
        for e in it[2:]:
            if isinstance(e, dict):
                yield unhx(it[0]), e


def v4_strip_ge_128(case) -> bool:
    """v4 prefix compression has to remove >= 128 bytes from the previous path somewhere."""
    if expected_version(case) < 4:
        return False
    prev = b""
    for k, _, _ in expected_flat(case):
        c = 0
        while c < min(len(k), len(prev)) and k[c] == prev[c]:
            c += 1
        if len(prev) - c >= 128:
            return True
        prev = k
    return False


def classify_index_case(case: dict, for_git: bool = False) -> str | None:
    """Narrow failing-input class of an index case (input properties only), by priority."""
    ents = list(case_entries(case))
    if any(e["size"] >= U32 for _, e in ents):
        return "size>=2^32"
    if any(not time_in_u32(e["ctime"]) or not time_in_u32(e["mtime"]) for _, e in ents):
        return "time-out-of-u32"
    if any(len(k) >= 0x1000 for k, _ in ents):
        return "name_len>=4096"
    if any(not all(65 <= b <= 90 for b in unhx(x[0])) for x in case["exts"]
           if unhx(x[1]) and unhx(x[0]) not in (b"TREE", b"REUC", b"sdir")):
        return "ext-sig-not-upper"
    if for_git and v4_strip_ge_128(case):
        return "v4-strip>=128"
    return None


def in_quantifier(case: dict) -> bool:
    """Inputs the property quantifies over (everything else is correspondence-only)."""
    for k, e in case_entries(case):
        if b"\0" in k or not k:
            return False
        if not all(0 <= e[f] < U32 for f in ("mode", "uid", "gid")):
            return False
        if e["dev"] < 0 or e["ino"] < 0 or e["size"] < 0:
            return False
        if not 0 <= e["flags"] < 0x10000 or not 0 <= e["ext"] < 0x10000:
            return False
        if e["flags"] & FLAG_EXTENDED and not e["ext"]:
            return False      # "extended" bit without extended flags: not an entry git or dulwich produces
        if len(e["sha"]) != 40:
            return False
    for x in case["exts"]:
        sig = unhx(x[0])
        if len(sig) != 4:
            return False
        if sig not in KNOWN_SIGS and not 65 <= sig[0] <= 90 and unhx(x[1]):
            # an extension nobody understands whose signature does not start with A..Z must be refused by every
            # reader (index-format: only A..Z extensions are optional); git dies on it, dulwich raises
            return False
    return True


def oracle_roundtrip(ctx, stream: str, case: dict, path: Path, prior: bytes | None) -> bool:
    """Real Index.write -> Index(path) on `case`; reports through ctx.oracle_fail.  Returns True when the
    statement held.  `prior`: previous contents of `path` (None = did not exist)."""
    return _oracle_roundtrip(ctx, stream, case, path, prior)[0]


def _oracle_roundtrip(ctx, stream: str, case: dict, path: Path, prior: bytes | None):
    """-> (held, write status 'ok'|'err', file bytes | error kind)"""
    st, out = real_index_write(path, case)
    if st == "err":
        now = path.read_bytes() if path.exists() else None
        if prior is not None and now != prior:
            ctx.oracle_fail(stream, case, f"Index.write raised ({out}) and replaced the existing index file "
                            f"({len(prior)} -> {0 if now is None else len(now)} bytes)", "failed-write-replaces-index")
        ctx.oracle_fail(stream, case, f"Index.write raised {out}", classify_index_case(case))
        return False, st, out
    r = real_index_read(path)
    if r[0] == "err":
        ctx.oracle_fail(stream, case, f"Index(path) after Index.write raised {r[1]}", classify_index_case(case))
        return False, st, out
    _, items, ver, exts = r
    exp = expected_flat(case)
    got = real_flat(items)
    what = None
    if [(k, s) for k, s, _ in got] != [(k, s) for k, s, _ in exp]:
        what = (f"entries (name, stage) read back differ or are out of git's order: got "
                f"{[(k[:24], len(k), s) for k, s, _ in got][:6]} expected {[(k[:24], len(k), s) for k, s, _ in exp][:6]}")
    else:
        for (k, s, e), (_, _, g) in zip(exp, got):
            d = entry_diff(e, g)
            if d:
                what = f"entry {k[:40]!r} stage {s}: {d}"
                break
    if what is None:
        # file order (the dictionary hides the order of the stages of one path): path bytes, then stage
        from dulwich.index import read_index
        try:
            seq = [(e.name, (e.flags >> 12) & 3) for e in read_index(io.BytesIO(out))]
        except Exception as ex:
            seq = exc_kind(ex)
        if seq != [(k, s) for k, s, _ in exp]:
            what = f"entries are not written in git's order (path bytes, then stage): {str(seq)[:200]}"
    if what is None and ver != expected_version(case):
        what = f"version read back {ver} != {expected_version(case)}"
    if what is None:
        exp_x = [(unhx(x[0]), unhx(x[1])) for x in case["exts"] if unhx(x[0]) not in KNOWN_SIGS]
        got_x = [(s, d) for s, d in exts if s not in KNOWN_SIGS]
        if exp_x != got_x:
            if [x for x in exp_x if x[1]] == got_x:
                ctx.oracle_fail(stream, case, "unknown extension with an empty payload is dropped by Index.write",
                                "unknown-ext-empty-payload")
                return False, st, out
            what = f"unknown extensions not kept: {got_x} != {exp_x}"
    if what is None and not case["skip_hash"]:
        raw = path.read_bytes()
        if hashlib.sha1(raw[:-20]).digest() != raw[-20:]:
            what = "trailing checksum is not the SHA-1 of the preceding bytes"
    if what is not None:
        ctx.oracle_fail(stream, case, what, classify_index_case(case))
        return False, st, out
    return True, st, out


# ------------------------------------------------------------------------------------------------
# C git as third party

class Git:
    def __init__(self, ctx):
        self.ctx = ctx
        self.env = core.clean_env()
        self.dir = ctx.scratch / "gitrepo"
        self.n = 0
        self.calls = 0
        self.run(["git", "init", "-q", str(self.dir)], cwd=ctx.scratch)

    def run(self, cmd, cwd=None, inp=None, env=None, check=True):
        self.calls += 1
        p = subprocess.run(cmd, cwd=cwd or self.dir, input=inp, env=env or self.env, stdout=subprocess.PIPE,
                           stderr=subprocess.PIPE, timeout=120)
        if check and p.returncode != 0:
            raise core.InfraError(f"git command failed: {cmd}: {p.stderr[-500:]!r}")
        return p

    def fresh(self) -> Path:
        """A new empty repository with a work tree."""
        self.n += 1
        d = self.ctx.scratch / f"g{self.n}"
        self.run(["git", "init", "-q", str(d)], cwd=self.ctx.scratch)
        return d

    def ls(self, index_path: Path, repo: Path | None = None, sparse=False):
        """git ls-files --stage --debug -z -> (rc, [(name, stage, mode, sha, ctime, mtime, dev, ino, uid, gid, size, flags)], stderr)"""
        env = dict(self.env, GIT_INDEX_FILE=str(index_path))
        cmd = ["git", "ls-files", "--stage", "--debug", "-z", "--sparse"]   # --sparse: list the entries as stored (no sparse-directory expansion)
        p = self.run(cmd, cwd=repo or self.dir, env=env, check=False)
        if p.returncode != 0:
            return p.returncode, [], p.stderr
        return 0, parse_ls(p.stdout), p.stderr


import re  # noqa: E402

_LS_RE = re.compile(rb"(\d+) ([0-9a-f]{40}) (\d)\t([^\x00]*)\x00  ctime: (\d+):(\d+)\n  mtime: (\d+):(\d+)\n"
                    rb"  dev: (\d+)\tino: (\d+)\n  uid: (\d+)\tgid: (\d+)\n  size: (\d+)\tflags: ([0-9a-f]+)\n")


def parse_ls(out: bytes):
    res, pos = [], 0
    while pos < len(out):
        m = _LS_RE.match(out, pos)
        if not m:
            raise core.InfraError(f"cannot parse git ls-files --debug output at {pos}: {out[pos:pos + 120]!r}")
        g = m.groups()
        res.append((g[3], int(g[2]), int(g[0], 8), g[1].decode(), (int(g[4]), int(g[5])), (int(g[6]), int(g[7])),
                    int(g[8]), int(g[9]), int(g[10]), int(g[11]), int(g[12]), int(g[13], 16)))
        pos = m.end()
    return res


def git_tuple_expected(k: bytes, st: int, e: dict):
    """what git must list for an expected entry (float times: compared separately)"""
    return (k, st, e["mode"], e["sha"], e["ctime"], e["mtime"], e["dev"], e["ino"], e["uid"], e["gid"], e["size"],
            e["flags"] | (e["ext"] << 16))


def git_tuple_real(k: bytes, st: int, e):
    """what git lists, for a real dulwich entry read from a git-written file"""
    return (k, st, e.mode, bytes(e.sha).decode(), tuple(e.ctime), tuple(e.mtime), e.dev, e.ino, e.uid, e.gid, e.size,
            e.flags | (e.extended_flags << 16))


def git_eligible(case: dict) -> bool:
    """Index contents C git itself accepts: no directory-mode entries (git treats mode 040000 as a sparse-directory
    entry and tries to expand it), only the two extended flags git knows, extension signatures git may skip
    (an unknown signature that does not start with an upper-case letter makes git refuse the index by design)."""
    import stat as _stat
    for k, e in case_entries(case):
        if _stat.S_ISDIR(e["mode"]) or e["ext"] & ~0x6000:
            return False
    for x in case["exts"]:
        sig = unhx(x[0])
        if unhx(x[1]) and not (65 <= sig[0] <= 90):
            return False
    return True


def oracle_git_lists(ctx, git: Git, stream: str, case: dict, path: Path) -> bool:
    """C git lists the same entries from the index dulwich wrote at `path`."""
    rc, listed, err = git.ls(path)
    cls = classify_index_case(case, for_git=True)
    if rc != 0:
        ctx.oracle_fail(stream, case, f"C git cannot read the index dulwich wrote: {err[:160]!r}", cls)
        return False
    exp = expected_flat(case)
    if len(listed) != len(exp):
        ctx.oracle_fail(stream, case, f"C git lists {len(listed)} entries, expected {len(exp)}", cls)
        return False
    for (k, st, e), g in zip(exp, listed):
        t = git_tuple_expected(k, st, e)
        ok = t[:4] == g[:4] and t[6:] == g[6:] and time_matches(e["ctime"], g[4]) and time_matches(e["mtime"], g[5])
        if not ok:
            ctx.oracle_fail(stream, case, f"C git lists {g[:3]}.. flags {g[-1]:x} for expected {t[:3]}.. flags {t[-1]:x} "
                            f"(name lengths {len(g[0])}/{len(k)})", cls)
            return False
    return True


# ------------------------------------------------------------------------------------------------
# generators (boundary-biased per the property's quantifier)

U32_EDGES = [0, 1, 2, 255, 256, 65535, 65536, 2 ** 31 - 1, 2 ** 31, 2 ** 32 - 2, 2 ** 32 - 1]
BIG = [2 ** 32, 2 ** 32 + 1, 2 ** 33, 2 ** 40 + 5, 2 ** 63, 2 ** 64 - 1]
MODES = [0o100644, 0o100755, 0o120000, 0o160000, 0o040000, 0o100664, 0]
NAME_LENS_EDGE = [0xFFE, 0xFFF]
NAME_LENS_OVER = [0x1000, 0x1001, 9000]


def g_u32(rng):
    r = rng.random()
    if r < 0.5:
        return rng.choice(U32_EDGES)
    return rng.getrandbits(rng.choice([8, 16, 31, 32]))


def g_time(rng, trouble=False, floats=True):
    r = rng.random()
    if trouble:
        return rng.choice([2 ** 32, 2 ** 33, -1, [2 ** 32, 0], [5, 2 ** 32], [-1, 0], {"f": -1.5}, {"f": 2.0 ** 32}, {"f": 1e12}])
    if r < 0.3:
        return g_u32(rng)
    if r < 0.8 or not floats:
        return [g_u32(rng), rng.choice([0, 1, 999999999, 123456789, rng.randrange(10 ** 9)])]
    return {"f": rng.choice([0.0, 1.5, 1234567890.123456789, 2.0 ** 31, 2.0 ** 32 - 1.0, 4294967295.5,
                             float(rng.randrange(2 ** 32)) + rng.random()])}


def g_entry(rng, trouble=None, wild=False, floats=True) -> dict:
    """trouble: None | 'bigsize' | 'bigtime'.  wild: also values outside the property's quantifier
    (correspondence only): mode/uid/gid >= 2^32, flags >= 2^16, arbitrary extended flags."""
    ext = rng.choice([0, 0, 0, 0x4000, 0x2000, 0x6000])
    flags = rng.choice([0, 0, 0x8000]) | (rng.choice([0, 0x1000, 0x2000, 0x3000]) if rng.random() < 0.3 else 0)
    if rng.random() < 0.15:
        flags |= rng.getrandbits(12)           # stale name-length bits
    if ext and rng.random() < 0.8:
        flags |= FLAG_EXTENDED
    e = {"ctime": g_time(rng, floats=floats), "mtime": g_time(rng, trouble == "bigtime", floats=floats),
         "dev": rng.choice([g_u32(rng), rng.choice(BIG)]) if rng.random() < 0.3 else g_u32(rng),
         "ino": rng.choice([g_u32(rng), rng.choice(BIG)]) if rng.random() < 0.3 else g_u32(rng),
         "mode": rng.choice(MODES) if rng.random() < 0.9 else g_u32(rng),
         "uid": g_u32(rng), "gid": g_u32(rng),
         "size": rng.choice(BIG) if trouble == "bigsize" else g_u32(rng),
         "sha": rng.randbytes(20).hex() if rng.random() < 0.8 else SHA_EMPTY, "flags": flags, "ext": ext}
    if wild:
        w = rng.choice(["mode", "uid", "gid", "flags16", "ext-any", "ext16", "extbit-only", "size", "none", "none"])
        if w in ("mode", "uid", "gid", "size"):
            e[w] = rng.choice(BIG)
        elif w == "flags16":
            e["flags"] |= rng.choice([0x10000, 0x20000, 1 << 40])
        elif w == "ext-any":
            e["ext"] = rng.getrandbits(16)
        elif w == "ext16":
            e["ext"] = rng.choice([0x10000, 0x14000])
        elif w == "extbit-only":
            e["flags"] |= FLAG_EXTENDED
            e["ext"] = 0
    return e


ALPH_ASCII = b"abcxyz019._-"
ALPH_BIN = bytes([1, 9, 10, 32, 34, 39, 42, 47, 92, 127, 128, 129, 0xc3, 0xa9, 0xfe, 0xff]) + b"ab"


def g_comp(rng, n, binary=False):
    a = ALPH_BIN if binary else ALPH_ASCII
    return bytes(rng.choice(a) for _ in range(n))


def g_names(rng, style=None):
    """-> (style, sorted unique non-empty NUL-free names)"""
    style = style or rng.choice(["plain", "plain", "nested", "prefix-family", "prefix-family", "long-suffix", "edge-len",
                                 "edge-len", "over-len", "binary", "empty", "single", "many"])
    names = set()
    if style == "empty":
        pass
    elif style == "single":
        names.add(g_comp(rng, rng.choice([1, 2, 8, 40])))
    elif style == "plain":
        for _ in range(rng.randint(1, 6)):
            names.add(b"/".join(g_comp(rng, rng.randint(1, 6)) for _ in range(rng.randint(1, 3))))
    elif style == "many":
        for _ in range(rng.randint(10, 40)):
            names.add(b"/".join(g_comp(rng, rng.randint(1, 3)) for _ in range(rng.randint(1, 4))))
    elif style == "nested":
        base = g_comp(rng, rng.randint(1, 4))
        for suf in rng.sample([b"", b"/b", b"/b/c", b"-b", b".b", b"0", b"/", b"/b/", b"\x01", b"\xff", b"/\xff", b"//"], rng.randint(2, 7)):
            names.add(base + suf)
    elif style == "prefix-family":
        L = rng.choice([0, 1, 3, 20, 100, 126, 127, 128, 129, 200, 300, 1000])
        pre = g_comp(rng, L, binary=rng.random() < 0.3)
        for _ in range(rng.randint(2, 6)):
            names.add(pre + g_comp(rng, rng.randint(1, 6)))
    elif style == "long-suffix":
        pre = g_comp(rng, rng.choice([0, 1, 5]))
        for _ in range(rng.randint(2, 4)):
            names.add(pre + g_comp(rng, rng.choice([100, 120, 126, 127, 128, 129, 130, 200, 300, 16383, 16384, 16385])))
        names.add(pre + b"z")
    elif style == "edge-len":
        # names of length 0xFFE / 0xFFF with a long common prefix, so that v4 strips < 128 bytes between them
        pre = g_comp(rng, 4000, binary=rng.random() < 0.3)
        for L in rng.sample([0xFFD, 0xFFE, 0xFFF, 0xFFF, 0xFFE], rng.randint(1, 4)):
            names.add(pre + g_comp(rng, L - 4000))
        if rng.random() < 0.5:
            names.add(g_comp(rng, 3))
    elif style == "over-len":
        pre = g_comp(rng, 4000)
        names.add(pre + g_comp(rng, rng.choice(NAME_LENS_OVER) - 4000))
        for L in rng.sample([0xFFE, 0xFFF, 0x1000, 0x1001], rng.randint(0, 2)):
            names.add(pre + g_comp(rng, L - 4000))
        if rng.random() < 0.5:
            names.add(g_comp(rng, 2))
    elif style == "binary":
        for _ in range(rng.randint(1, 6)):
            names.add(g_comp(rng, rng.randint(1, 12), binary=True))
    names.discard(b"")
    return style, sorted(names)


def g_exts(rng, trouble=None):
    out = []
    for _ in range(rng.choice([0, 0, 0, 1, 1, 2, 3])):
        sig = rng.choice([b"TREE", b"REUC", b"UNTR", b"ABCD", b"ZZZZ", b"XTRA", b"AAAA"])
        data = rng.randbytes(rng.choice([1, 1, 2, 7, 8, 19, 20, 21, 64, 300]))
        out.append([hx(sig), hx(data)])
    if trouble == "emptyext":
        out.insert(rng.randint(0, len(out)), [hx(rng.choice([b"ABCD", b"EMPT"])), "-"])
    if trouble == "lowerext":
        out.insert(rng.randint(0, len(out)), [hx(rng.choice([b"abcd", b"Abcd", b"link", b"AB1D", b"AB D"])), hx(rng.randbytes(5))])
    return out


def g_index_case(rng, trouble=None, wild=False, style=None) -> tuple[str, dict]:
    """-> (tag, case).  trouble: None|'bigsize'|'bigtime'|'emptyext'|'lowerext': boundary inputs generated on purpose at
    a controlled rate (sizes/times beyond 32 bits, empty and lower-case extensions); the class labels only identify
    findings, 'fixed' ones suppress nothing."""
    style, names = g_names(rng, style)
    items = []
    tpos = rng.randrange(len(names)) if names else -1
    for i, k in enumerate(names):
        tr = trouble if (i == tpos and trouble in ("bigsize", "bigtime")) else None
        if rng.random() < 0.25:
            slots = [g_entry(rng, tr, wild) if rng.random() < 0.65 else None for _ in range(3)]
            items.append([hx(k), "C"] + slots)
        else:
            items.append([hx(k), "N", g_entry(rng, tr, wild)])
    rng.shuffle(items)                      # dict insertion order must not matter
    case = {"version": rng.choice([None, 2, 2, 3, 4, 4, 4]), "skip_hash": rng.random() < 0.25, "items": items,
            "exts": g_exts(rng, trouble)}
    return style, case


# ------------------------------------------------------------------------------------------------
# streams

def _py_varint_git(n: int) -> bytes:
    """git's varint.c encode_varint (reference for the interoperability oracle; the Lean twin is gitEncodeVarint)."""
    out = [n & 127]
    n >>= 7
    while n:
        n -= 1
        out.append(128 | (n & 127))
        n >>= 7
    return bytes(reversed(out))


def _stream_varint(ctx):
    import dulwich.index as I
    rng = ctx.rng
    ns = [0, 1, 126, 127, 128, 129, 255, 256, 16383, 16384, 16385, 2 ** 21 - 1, 2 ** 21, 2 ** 28, 2 ** 32 - 1, 2 ** 32, 2 ** 63, 2 ** 70]
    ns += [rng.getrandbits(rng.choice([6, 7, 8, 13, 14, 15, 21, 22, 32, 64])) for _ in range(ctx.budget(300))]
    outs = ctx.driver.batch([f"c11.encvarint {n}" for n in ns] + [f"c11.gitencvarint {n}" for n in ns])
    enc, genc = outs[:len(ns)], outs[len(ns):]
    for n, o, g in zip(ns, enc, genc):
        real = I._encode_varint(n)
        ctx.count("varint.enc", n, True, f"{len(real)}B")
        if o != hx(real):
            ctx.disagree("varint.enc", {"n": n}, o, hx(real))
        # direct oracle: decode(encode n) = n, both decoders
        tail = rng.randbytes(rng.choice([0, 1, 3]))
        try:
            v, pos = I._decode_varint(real + tail, 0)
        except Exception as ex:
            v, pos = exc_kind(ex), -1
        if (v, pos) != (n, len(real)):
            ctx.oracle_fail("varint.roundtrip", {"kind": "varint", "n": n, "tail": hx(tail)}, f"_decode_varint(_encode_varint(n)) = {(v, pos)}")
        # interoperability: the encoding is the one of git's varint.c (reference transcription, itself tied to C git
        # by the git.varint stream)
        if real != _py_varint_git(n):
            ctx.oracle_fail("varint.git", {"kind": "varint", "n": n, "tail": "-"},
                            f"_encode_varint({n}) = {real.hex()} but git's varint.c gives {_py_varint_git(n).hex()}",
                            "v4-strip>=128" if n >= 128 else None)
        # model of git's varint vs the reference transcription of varint.c (tied to C git itself in git.varint)
        if g != hx(_py_varint_git(n)):
            ctx.disagree("varint.gitmodel", {"n": n}, g, hx(_py_varint_git(n)), "git-reference")
    # decoders on arbitrary bytes
    blobs = [b"", b"\x80", b"\x80\x80", b"\xff\xff\x7f", b"\x00\x00", b"\x7f"]
    blobs += [bytes(rng.choice([0, 1, 0x7f, 0x80, 0x81, 0xff]) for _ in range(rng.randint(0, 6))) for _ in range(ctx.budget(300))]
    outs = ctx.driver.batch([f"c11.decvarint {hx(b)}" for b in blobs])
    for b, o in zip(blobs, outs):
        try:
            v, pos = I._decode_varint(b, 0)
            real = f"ok {v} {hx(b[pos:])}"
        except Exception as ex:
            real = exc_kind(ex)
        ctx.count("varint.dec", b, True, real[:9])
        if o != real:
            ctx.disagree("varint.dec", {"data": hx(b)}, o, real)


def g_path_pair(rng):
    kind = rng.choice(["shared", "shared", "equal", "prefix-of", "extends", "disjoint", "empty-prev", "empty-path", "long-strip", "nul"])
    pre = g_comp(rng, rng.choice([0, 1, 5, 50, 127, 128, 129, 300]), binary=rng.random() < 0.3)
    a, b = g_comp(rng, rng.randint(0, 8), binary=rng.random() < 0.3), g_comp(rng, rng.randint(0, 8))
    if kind == "shared":
        return kind, pre + a, pre + b
    if kind == "equal":
        return kind, pre + a, pre + a
    if kind == "prefix-of":
        return kind, pre, pre + b
    if kind == "extends":
        return kind, pre + a, pre
    if kind == "disjoint":
        return kind, b"x" + a, b"y" + b
    if kind == "empty-prev":
        return kind, pre + a, b""
    if kind == "empty-path":
        return kind, b"", pre + b
    if kind == "long-strip":
        return kind, pre + a, pre + g_comp(rng, rng.choice([127, 128, 129, 16383, 16384, 16385, 20000]))
    return kind, pre + b"\0" + a, pre + b


def _real_decompress_stream(prev: bytes, data: bytes) -> str:
    import dulwich.index as I
    f = io.BytesIO(data)
    try:
        p, n = I._decompress_path_from_stream(f, prev)
    except Exception as ex:
        return exc_kind(ex)
    if n != f.tell():
        return f"bad-consumed {n} {f.tell()}"
    return f"ok {hx(p)} {hx(data[n:])}"


def _real_decompress(prev: bytes, data: bytes) -> str:
    import dulwich.index as I
    try:
        p, n = I._decompress_path(data, 0, prev)
    except Exception as ex:
        return exc_kind(ex)
    return f"ok {hx(p)} {hx(data[n:])}"


def _stream_paths(ctx):
    import dulwich.index as I
    rng = ctx.rng
    pairs = [g_path_pair(rng) for _ in range(ctx.budget(800))]
    pairs += [("fixed", b"a/b", b"a/c"), ("fixed", b"", b""), ("fixed", b"a", b"a" * 200)]
    outs = ctx.driver.batch([f"c11.compress {hx(p)} {hx(q)}" for _, p, q in pairs])
    dec_lines, dec_meta = [], []
    for (kind, path, prev), o in zip(pairs, outs):
        real = I._compress_path(path, prev)
        ctx.count("path.compress", (path, prev), True, kind)
        if o != hx(real):
            ctx.disagree("path.compress", {"path": hx(path), "prev": hx(prev)}, o, hx(real))
        tail = rng.randbytes(rng.choice([0, 2]))
        if b"\0" not in path:
            # direct oracle: decompress(compress(path, prev), prev) = path, both readers
            for nm, fn in (("stream", _real_decompress_stream), ("buffer", _real_decompress)):
                r = fn(prev, real + tail)
                if r != f"ok {hx(path)} {hx(tail)}":
                    ctx.oracle_fail("path.roundtrip", {"kind": "path", "path": hx(path), "prev": hx(prev), "tail": hx(tail)},
                                    f"{nm} decompress(compress(path, prev)) = {r[:80]}")
        # decoders on the encoding and on mutations of it
        for data in {real + tail, real[:-1], real[: len(real) // 2], b"\x85" + real, real[:1] + b"\x00" + real[1:],
                     bytes([real[0] | 0x80]) + real[1:]}:
            dec_lines.append(f"c11.decompress {hx(prev)} {hx(data)}")
            dec_meta.append(("stream", prev, data))
            dec_lines.append(f"c11.decompress2 {hx(prev)} {hx(data)}")
            dec_meta.append(("buffer", prev, data))
    outs = ctx.driver.batch(dec_lines)
    for (nm, prev, data), o in zip(dec_meta, outs):
        real = (_real_decompress_stream if nm == "stream" else _real_decompress)(prev, data)
        ctx.count("path.decompress." + nm, (prev, data), True, real[:9])
        if o != real:
            ctx.disagree("path.decompress." + nm, {"prev": hx(prev), "data": hx(data)}, o[:200], real[:200])


def classify_entry_case(v: int, name: bytes, e: dict) -> str | None:
    if e["size"] >= U32:
        return "size>=2^32"
    if not time_in_u32(e["ctime"]) or not time_in_u32(e["mtime"]):
        return "time-out-of-u32"
    if len(name) >= 0x1000:
        return "name_len>=4096"
    return None


def check_entry_case(ctx, stream: str, c: dict) -> str:
    """Direct oracle on one entry case: read_cache_entry(write_cache_entry(e)) gives e back (normal form)."""
    from dulwich.index import read_cache_entry
    v, prev, name, e, tail = c["v"], unhx(c["prev"]), unhx(c["name"]), c["entry"], unhx(c["tail"])
    w = real_write_entry(v, prev, e, name)
    cls = classify_entry_case(v, name, e)
    if not w.startswith("ok "):
        ctx.oracle_fail(stream, c, f"write_cache_entry raised {w}", cls)
        return w
    data = unhx(w[3:])
    f = io.BytesIO(data + tail)
    try:
        got = read_cache_entry(f, v, prev)
    except Exception as ex:
        ctx.oracle_fail(stream, c, f"read_cache_entry raised {exc_kind(ex)} on what write_cache_entry wrote", cls)
        return w
    st = (e["flags"] >> 12) & 3
    exp = expected_entry(e, st)
    d = None
    if got.name != name:
        d = f"name of length {len(got.name)} read back for a name of length {len(name)}"
    elif f.tell() != len(data):
        d = f"reader consumed {f.tell()} of {len(data)} bytes"
    else:
        d = entry_diff(exp, got)
    if d:
        ctx.oracle_fail(stream, c, d, cls)
    elif v < 4 and not (len(data) % 8 == 0 and 1 <= len(data) - (62 + (2 if exp["flags"] & FLAG_EXTENDED else 0) + len(name)) <= 8):
        ctx.oracle_fail(stream, c, f"entry of {len(data)} bytes is not NUL-padded to a multiple of 8 with 1..8 NULs", cls)
    return w


def entry_in_quantifier(v: int, name: bytes, e: dict) -> bool:
    case = {"items": [[hx(name), "N", e]], "exts": []}
    if not in_quantifier(case):
        return False
    if e["ext"] and v < 3:
        return False       # documented: extended flags need version >= 3 (write_index bumps the version itself)
    return v in (2, 3, 4)


def _stream_entries(ctx):
    rng = ctx.rng
    n = ctx.budget(2000)
    cases = []
    for i in range(n):
        v = rng.choice([2, 2, 3, 3, 4, 4, 4, 1, 5])
        r = rng.random()
        if r < 0.55:
            L = rng.choice([1, 1, 2, 3, 7, 8, 9, 10, 15, 16, 17, 100, 255, 256, rng.randint(1, 64)])
        elif r < 0.85:
            L = rng.choice([0xFFD, 0xFFE, 0xFFF, 0xFFF, 0xFFE])
        elif r < 0.97:
            L = rng.choice([0x1000, 0x1001, 0x1002, 9000, 0x1FFF, 0x2000, 0x3000, 0x4000, 0xFFFF])
        else:
            L = rng.choice([0, 0x10000, 0x10001])
        binary = rng.random() < 0.3
        name = g_comp(rng, L, binary) if L < 200 else g_comp(rng, 150, binary) + g_comp(rng, 7) * ((L - 150) // 7) + g_comp(rng, (L - 150) % 7)
        if rng.random() < 0.04 and name:
            p = rng.randrange(len(name))
            name = name[:p] + b"\0" + name[p + 1:]
        if v >= 4 or rng.random() < 0.2:
            c = rng.choice([0, 0, 1, len(name) // 2, len(name), max(0, len(name) - 1)])
            prev = name[:c] + g_comp(rng, rng.choice([0, 1, 5, 127, 128, 129, 300]))
        else:
            prev = b""
        trouble = rng.choice([None] * 14 + ["bigsize", "bigtime"])
        e = g_entry(rng, trouble, wild=rng.random() < 0.25)
        tail = rng.randbytes(rng.choice([0, 0, 1, 8, 20]))
        cases.append({"kind": "entry", "v": v, "prev": hx(prev), "name": hx(name), "entry": e, "tail": hx(tail)})
    cdir = core.VERIF / "corpus" / PROP
    for f in sorted(cdir.glob("entry-*.json")) if cdir.exists() else []:
        cases.insert(0, json.loads(f.read_text()))
    # model writer vs real writer (byte for byte), on everything the model can express
    wl, wm = [], []
    for c in cases:
        if not model_negative(c["entry"]):
            wl.append(f"c11.wentry {c['v']} {c['prev']} {tok_entry(c['entry'], unhx(c['name']))}")
            wm.append(c)
    outs = dict(zip(map(id, wm), ctx.driver.batch(wl)))
    rl, rmeta = [], []
    for c in cases:
        v, prev, name, e = c["v"], unhx(c["prev"]), unhx(c["name"]), c["entry"]
        inq = entry_in_quantifier(v, name, e)
        if inq:
            w = check_entry_case(ctx, "entry.roundtrip", c)
        else:
            w = real_write_entry(v, prev, e, name)
        L = len(name)
        tag = f"v{v}:" + ("len<0xFFE" if L < 0xFFE else hex(L) if L <= 0x1001 else "len>0x1001") + (":" + w[:10] if not w.startswith("ok") else "")
        ctx.count("entry.write", (v, prev, name, json.dumps(e, sort_keys=True)), True, tag)
        if id(c) in outs and outs[id(c)] != w:
            ctx.disagree("entry.write", c, outs[id(c)][:300], w[:300])
        if w.startswith("ok "):
            data = unhx(w[3:]) + unhx(c["tail"])
            variants = [("written", data)]
            # damaged / foreign encodings for the reader correspondence
            b = bytearray(data)
            pos = rng.choice([60, 61, 62, 63, rng.randrange(len(b))])
            if pos < len(b):
                b[pos] ^= rng.choice([1, 0x10, 0x40, 0x80, 0xff])
                variants.append(("flip", bytes(b)))
            variants.append(("trunc", data[: rng.choice([0, 7, 8, 16, 40, 61, 62, 63, max(0, len(data) - 1), max(0, len(data) - 9)])]))
            for vv in {v, rng.choice([2, 3, 4])}:
                for nm, d in variants:
                    rl.append(f"c11.rentry {vv} {hx(prev)} {hx(d)}")
                    rmeta.append((nm, vv, prev, d))
    outs = ctx.driver.batch(rl)
    for (nm, vv, prev, d), o in zip(rmeta, outs):
        real = real_read_entry(vv, prev, d)
        ctx.count("entry.read", (vv, prev, d), True, f"v{vv}:{nm}:{real[:10] if not real.startswith('ok') else 'ok'}")
        if o != real:
            ctx.disagree("entry.read", {"v": vv, "prev": hx(prev), "data": hx(d)}, o[:300], real[:300])
    ex = next((c for c in cases if len(unhx(c["name"])) == 0xFFF), cases[0])
    ctx.sample({"stream": "entry", "v": ex["v"], "name_len": len(unhx(ex["name"])), "entry": ex["entry"]})


def ref_parse(raw: bytes) -> str:
    """Strict reference parse of the index grammar (no dulwich code): 'ok' | 'eof' (a read would run past the end of
    the file, or fewer than 20 bytes are left for the trailer) | 'bad'.  Used only to *classify* undetected damage."""
    if len(raw) < 12:
        return "eof"
    if raw[:4] != b"DIRC":
        return "bad"
    ver, n = struct.unpack(">LL", raw[4:12])
    if ver not in (2, 3, 4):
        return "bad"
    pos, prev = 12, b""
    for _ in range(n):
        start = pos
        if pos + 62 > len(raw):
            return "eof"
        flags = struct.unpack(">H", raw[pos + 60:pos + 62])[0]
        pos += 62
        if flags & 0x4000:
            if pos + 2 > len(raw):
                return "eof"
            pos += 2
        if ver == 4:
            while True:
                if pos >= len(raw):
                    return "eof"
                b = raw[pos]
                pos += 1
                if not b & 0x80:
                    break
            z = raw.find(b"\0", pos)
            if z < 0:
                return "eof"
            pos = z + 1
        else:
            ln = flags & 0xFFF
            if ln == 0xFFF:
                z = raw.find(b"\0", pos + 0xFFF)
                if z < 0:
                    return "eof"
                ln = z - pos
            pos += ln
            pos = start + ((pos - start + 8) & ~7)
            if pos > len(raw):
                return "eof"
    while len(raw) - pos > 20:
        if pos + 8 > len(raw):
            return "eof"
        sz = struct.unpack(">L", raw[pos + 4:pos + 8])[0]
        pos += 8 + sz
        if pos > len(raw):
            return "eof"
    return "ok" if len(raw) - pos == 20 else "eof"


def check_damage_case(ctx, stream: str, c: dict, path: Path) -> str:
    """Direct oracle: a damaged copy of an index dulwich wrote (with checksum) must not be read silently."""
    raw = unhx(c["file"])
    path.write_bytes(raw)
    r = real_index_read(path)
    if r[0] == "ok":
        cls = "eof-before-trailer" if ref_parse(raw) == "eof" else None
        ctx.oracle_fail(stream, c, f"damaged index ({c.get('damage')}) is read without any error: "
                        f"{len(r[1])} entries, {len(r[3])} extensions", cls)
    return canon_read(r)


def damages(rng, raw: bytes, n: int):
    """[(label, damaged bytes)]: single-byte changes everywhere, truncations, extension-length changes."""
    out = []
    # targeted: the two ends of the trailer, the byte before it, magic, version, entry count, first flags word
    for p in rng.sample([len(raw) - 1, len(raw) - 20, len(raw) - 21, len(raw) - 2, 0, 3, 7, 11, 72, 73], 3):
        if 0 <= p < len(raw):
            b = bytearray(raw)
            b[p] ^= 1 << rng.randrange(8)
            out.append((f"flip@{p}", bytes(b)))
    for _ in range(n):
        k = rng.choice(["flip", "flip", "flip", "set", "trunc", "trunc-small", "drop-byte", "ins-byte"])
        b = bytearray(raw)
        if k == "flip":
            p = rng.randrange(len(b))
            b[p] ^= 1 << rng.randrange(8)
            out.append((f"flip@{p}", bytes(b)))
        elif k == "set":
            p = rng.randrange(len(b))
            nv = rng.choice([0, 0xff, 0x41, 0x61])
            if b[p] != nv:
                b[p] = nv
                out.append((f"set@{p}", bytes(b)))
        elif k == "trunc":
            out.append((f"trunc-{len(raw) - (p := rng.randrange(len(raw)))}", raw[:p]))
        elif k == "trunc-small":
            t = rng.choice([1, 2, 19, 20, 21, 22, 27, 28, 29, 40])
            if t < len(raw):
                out.append((f"trunc-{t}", raw[:-t]))
        elif k == "drop-byte":
            p = rng.randrange(len(b))
            del b[p]
            out.append((f"drop@{p}", bytes(b)))
        else:
            p = rng.randrange(len(b) + 1)
            b[p:p] = bytes([rng.choice([0, 0x41, 0xff])])
            out.append((f"ins@{p}", bytes(b)))
    return out


def _stream_index(ctx, git: Git):
    """Whole files: model Index.write bytes vs real bytes; model reader vs real reader on written, damaged and
    foreign files; direct oracles: real write->read, C git listing (sampled), damage detection, failed write."""
    rng = ctx.rng
    n = ctx.budget(600)
    n_git = ctx.budget(160, mult=6)
    n_dmg = 4
    cases = []
    cdir = core.VERIF / "corpus" / PROP
    for f in sorted(cdir.glob("index-*.json")) if cdir.exists() else []:
        cases.append(("corpus:" + f.stem, json.loads(f.read_text())["case"]))
    for _ in range(n):
        trouble = rng.choice([None] * 12 + ["bigsize", "bigtime", "emptyext", "lowerext"])
        wild = rng.random() < 0.12
        cases.append(g_index_case(rng, trouble, wild))
    path = ctx.scratch / "index.c11"
    lines, meta = [], []
    read_jobs = []      # (label, file bytes) to compare model reader vs real reader
    git_left = n_git
    for tag, case in cases:
        if any(model_negative(e) for _, e in case_entries(case)):
            in_model = False
        else:
            in_model = True
        inq = in_quantifier(case)
        prior = path.read_bytes() if path.exists() else None
        if inq:
            ok, st, out = _oracle_roundtrip(ctx, "index.roundtrip", case, path, prior)
        else:
            ok = False
            st, out = real_index_write(path, case)
        real_w = "ok " + hx(out) if st == "ok" else out
        cls = classify_index_case(case, for_git=True)
        vtag = f"v{case['version']}" + ("+skiphash" if case["skip_hash"] else "")
        ctx.count("index.write", json.dumps(case, sort_keys=True), True, f"{tag}:{vtag}:{'ok' if st == 'ok' else out}")
        ctx.hist.setdefault("index.class", {})
        ctx.hist["index.class"][str(cls)] = ctx.hist["index.class"].get(str(cls), 0) + 1
        if in_model:
            lines.append(model_windex_line(2 if case["skip_hash"] else 1, case))
            meta.append(("Index.write", case, real_w))
            lines.append(model_windex_line(0, case))
            meta.append(("write_index_dict", case, real_write_index_dict(case)))
        if st == "ok":
            read_jobs.append(("written", out))
            if inq and git_left > 0 and git_eligible(case):
                git_left -= 1
                oracle_git_lists(ctx, git, "git.lists", case, path)
                ctx.count("git.lists", json.dumps(case, sort_keys=True), True, f"{tag}:{vtag}:{cls}")
            if not case["skip_hash"] and inq and ok:
                for label, dmg in damages(rng, out, n_dmg):
                    c = {"kind": "damage", "damage": label, "file": hx(dmg)}
                    got = check_damage_case(ctx, "index.damage", c, path)
                    ctx.count("index.damage", dmg, True, label.split("@")[0].split("-")[0] + ":" + got[:12])
                    read_jobs.append(("damaged:" + label, dmg, got))
                path.write_bytes(out)
    outs = ctx.driver.batch(lines)
    for (what, case, real), o in zip(meta, outs):
        if o != real:
            ctx.disagree("index.write." + what, case, o[:400], real[:400])
    # reader correspondence
    outs = ctx.driver.batch([f"c11.rindex {hx(j[1])}" for j in read_jobs])
    for j, o in zip(read_jobs, outs):
        if len(j) == 3:
            real = j[2]
        else:
            path.write_bytes(j[1])
            real = canon_read(real_index_read(path))
        ctx.count("index.read", j[1], True, j[0].split(":")[0] + ":" + (real[:12] if not real.startswith("ok") else "ok"))
        if o != real:
            ctx.disagree("index.read", {"kind": "read", "file": hx(j[1]), "label": j[0]}, o[:400], real[:400])
    if cases:
        tag, case = cases[min(len(cases) - 1, 3)]
        ctx.sample({"stream": "index", "style": tag, "version": case["version"], "skip_hash": case["skip_hash"],
                    "keys": [it[0][:40] for it in case["items"]][:5], "exts": [x[0] for x in case["exts"]]})


# ---- indexes written by C git, read by dulwich (and by the model)

def _blob(git: Git, repo: Path, data: bytes) -> str:
    return git.run(["git", "hash-object", "-w", "--stdin"], cwd=repo, inp=data).stdout.decode().strip()


def git_scenario(rng, git: Git, kind: str):
    """Build an index with C git.  -> (description dict, repo path, sparse flag for ls-files)"""
    repo = git.fresh()
    desc = {"kind": "gitwrite", "scenario": kind}
    ver = rng.choice([2, 3, 4, 4])
    desc["index_version"] = ver
    if kind in ("index-info", "index-info-long", "index-info-strip"):
        style = {"index-info": rng.choice(["plain", "nested", "prefix-family", "binary", "many"]),
                 "index-info-long": rng.choice(["edge-len", "edge-len", "over-len"]),
                 "index-info-strip": "long-suffix"}[kind]
        _, names = g_names(rng, style)
        names = [n for n in names if not n.endswith(b"/") and b"//" not in n and not n.startswith(b"/")
                 and b"\n" not in n] or [b"f"]
        recs = []
        for nm in names:
            if rng.random() < 0.25:
                for st in (1, 2, 3):
                    if rng.random() < 0.7:
                        recs.append(b"%s %s %d\t%s\0" % (rng.choice([b"100644", b"100755", b"120000"]), rng.randbytes(20).hex().encode(), st, nm))
            else:
                recs.append(b"%s %s 0\t%s\0" % (rng.choice([b"100644", b"100755", b"120000", b"160000"]), rng.randbytes(20).hex().encode(), nm))
        p = git.run(["git", "update-index", "-z", "--index-info"], cwd=repo, inp=b"".join(recs), check=False)
        if p.returncode != 0:
            return None
        desc["names"] = [hx(n[:64]) for n in names[:6]]
        desc["name_lens"] = [len(n) for n in names]
        listed = git.run(["git", "ls-files", "-z", "--stage"], cwd=repo).stdout.split(b"\0")[:-1]
        stage0 = [l.split(b"\t", 1)[1] for l in listed if l.split(b"\t", 1)[0].endswith(b" 0")]
        short = [s for s in stage0 if len(s) < 200]
        for flag in ("--skip-worktree", "--assume-unchanged"):
            if short and rng.random() < 0.5:
                pick = rng.sample(short, min(len(short), rng.randint(1, 2)))
                git.run(["git", "update-index", flag, "-z", "--stdin"], cwd=repo, inp=b"".join(s + b"\0" for s in pick))
                desc[flag] = len(pick)
    elif kind == "add":
        for i in range(rng.randint(1, 5)):
            rel = "/".join(g_comp(rng, rng.randint(1, 5)).decode() for _ in range(rng.randint(1, 3)))
            f = repo / rel
            try:
                f.parent.mkdir(parents=True, exist_ok=True)
                f.write_bytes(rng.randbytes(rng.randint(0, 50)))
            except OSError:
                continue
        git.run(["git", "add", "-A"], cwd=repo)
        if rng.random() < 0.6:
            (repo / "ita.txt").write_bytes(b"later")
            git.run(["git", "add", "-N", "ita.txt"], cwd=repo)
            desc["intent_to_add"] = True
    elif kind in ("read-tree", "read-tree-m"):
        def mktree(vary):
            sub = b"".join(b"100644 blob %s\t%s\0" % (_blob(git, repo, b"s%d%d" % (i, vary if i == 1 else 0)).encode(), b"s%d" % i) for i in range(3))
            subt = git.run(["git", "mktree", "-z"], cwd=repo, inp=sub).stdout.strip()
            top = b"".join(b"100644 blob %s\t%s\0" % (_blob(git, repo, b"t%d%d" % (i, vary if i == 0 else 0)).encode(), b"f%d" % i) for i in range(3))
            if vary != 2:
                top += b"100755 blob %s\tonly%d\0" % (_blob(git, repo, b"x").encode(), vary)
            top += b"040000 tree %s\tdir\0" % subt
            return git.run(["git", "mktree", "-z"], cwd=repo, inp=top).stdout.strip().decode()
        if kind == "read-tree":
            git.run(["git", "read-tree", mktree(0)], cwd=repo)
        else:
            git.run(["git", "read-tree", "-m", "-i", mktree(0), mktree(1), mktree(2)], cwd=repo, check=False)
    elif kind in ("sparse", "sparse-index"):
        for rel in ("a/1", "a/2", "b/c/3", "b/4", "top", "d/e/f/5"):
            f = repo / rel
            f.parent.mkdir(parents=True, exist_ok=True)
            f.write_text(rel)
        git.run(["git", "add", "-A"], cwd=repo)
        git.run(["git", "commit", "-q", "-m", "x"], cwd=repo)
        git.run(["git", "sparse-checkout", "init", "--cone"] + (["--sparse-index"] if kind == "sparse-index" else []), cwd=repo)
        git.run(["git", "sparse-checkout", "set", rng.choice(["a", "b/c", "d"])], cwd=repo)
    else:
        raise core.InfraError("unknown git scenario " + kind)
    git.run(["git", "update-index", "--index-version", str(ver)], cwd=repo)
    return desc, repo, kind == "sparse-index"


def classify_git_written(raw: bytes, listed) -> str | None:
    """Class of a git-written index (properties of the file only)."""
    if any(len(t[0]) >= 0x1000 for t in listed) and raw[4:8] != b"\0\0\0\4":
        return "git-name_len>=4096"
    if raw[4:8] == b"\0\0\0\4":
        prev = b""
        for t in listed:
            k = t[0]
            c = 0
            while c < min(len(k), len(prev)) and k[c] == prev[c]:
                c += 1
            if len(prev) - c >= 128:
                return "v4-strip>=128"
            prev = k
    # lower-case extension signature present (sdir, link)?
    if ref_parse(raw) == "ok":
        for sig in (b"sdir", b"link"):
            if sig in raw[12:]:
                return "ext-sig-not-upper"
    return None


def check_gitwritten_case(ctx, git: Git, stream: str, desc: dict, raw: bytes, listed) -> str:
    """dulwich reads the index C git wrote and sees what `git ls-files --stage --debug` lists."""
    path = ctx.scratch / "gitwritten.index"
    path.write_bytes(raw)
    c = dict(desc, file=hx(raw) if len(raw) < 20000 else hx(raw[:20000]) + "...")
    cls = classify_git_written(raw, listed or [])
    r = real_index_read(path)
    if r[0] == "err":
        ctx.oracle_fail(stream, c, f"dulwich cannot read an index written by C git: {r[1]}", cls)
        return r[1]
    got = [git_tuple_real(k, st, e) for k, st, e in real_flat(r[1])]
    if listed is not None and got != listed:
        diff = next(((a, b) for a, b in zip(got, listed) if a != b), (len(got), len(listed)))
        ctx.oracle_fail(stream, c, f"dulwich reads entries that differ from what C git lists: first difference "
                        f"{str(diff)[:300]}", cls)
    return canon_read(r)


def _stream_git_written(ctx, git: Git):
    rng = ctx.rng
    kinds = ["index-info"] * 5 + ["index-info-long"] * 3 + ["index-info-strip"] * 2 + ["add"] * 2 + ["read-tree", "read-tree-m", "sparse", "sparse-index"]
    n = ctx.budget(64, mult=6)
    jobs = []
    for i in range(n):
        kind = kinds[i % len(kinds)] if i < len(kinds) else rng.choice(kinds)
        sc = git_scenario(rng, git, kind)
        if sc is None:
            continue
        desc, repo, sparse = sc
        idx = repo / ".git" / "index"
        raw = idx.read_bytes()
        rc, listed, err = git.ls(idx, repo, sparse=sparse)
        if rc != 0:
            raise core.InfraError(f"git cannot list its own index: {err!r}")
        real = check_gitwritten_case(ctx, git, "git.written", desc, raw, listed)
        ctx.count("git.written", raw, True, f"{kind}:v{int.from_bytes(raw[4:8], 'big')}:{'ok' if real.startswith('ok') else real}")
        jobs.append((desc, raw, real))
        shutil.rmtree(repo, ignore_errors=True)
    outs = ctx.driver.batch([f"c11.rindex {hx(raw)}" for _, raw, _ in jobs])
    for (desc, raw, real), o in zip(jobs, outs):
        ctx.count("git.written.model", raw, True, desc["scenario"])
        if o != real:
            ctx.disagree("git.written.model", dict(desc, file=hx(raw)[:40000]), o[:400], real[:400])
    ctx.extra_cov["git_calls"] = git.calls


def _stream_git_varint(ctx, git: Git):
    """Ties the model's `gitEncodeVarint` to C git itself: a v4 index whose second entry strips n bytes, written with
    the model's encoding of n, must be listed by C git with the intended names."""
    rng = ctx.rng
    ns = [0, 1, 127, 128, 129, 300, 16383, 16384, 16511, 16512, 16513, 20000]
    ns = ns[:] if ctx.thorough else rng.sample(ns, 5) + [128]
    outs = ctx.driver.batch([f"c11.gitencvarint {n}" for n in ns])
    path = ctx.scratch / "varint.index"
    for n, o in zip(ns, outs):
        first = b"a" * (n + 1)
        second = b"ab"                          # common prefix "a", strip n bytes, suffix "b"
        fixed = struct.pack(">LLLLLLLLLL20s", 0, 0, 0, 0, 0, 0, 0o100644, 0, 0, 0, bytes.fromhex(SHA_EMPTY))
        body = b"DIRC" + struct.pack(">LL", 4, 2)
        body += fixed + struct.pack(">H", min(len(first), 0xFFF)) + b"\0" + first + b"\0"
        body += fixed + struct.pack(">H", len(second)) + unhx(o) + b"b\0"
        path.write_bytes(body + hashlib.sha1(body).digest())
        rc, listed, err = git.ls(path)
        ctx.count("git.varint", n, True, f"{len(unhx(o))}B")
        if rc != 0 or [t[0] for t in listed] != [first, second]:
            ctx.disagree("git.varint", {"n": n, "model": o}, o, f"C git: rc={rc} {[t[0][:8] for t in listed]} {err[:80]!r}", "cgit")


def _stream_sha1(ctx):
    rng = ctx.rng
    msgs = [b"", b"abc", b"a" * 55, b"a" * 56, b"a" * 63, b"a" * 64, b"a" * 65, b"a" * 119, b"a" * 120]
    msgs += [rng.randbytes(rng.randint(0, 300)) for _ in range(ctx.budget(40, mult=3))]
    outs = ctx.driver.batch([f"c11.sha1 {hx(m)}" for m in msgs])
    for m, o in zip(msgs, outs):
        ctx.count("sha1", m, True, None)
        if o != hashlib.sha1(m).hexdigest():
            ctx.disagree("sha1", {"msg": hx(m)}, o, hashlib.sha1(m).hexdigest(), "hashlib")


class _St:
    pass


def _stream_fromstat(ctx):
    """index_entry_from_stat: nothing is narrowed (field widths), then the entry meets write_cache_entry."""
    from dulwich.index import index_entry_from_stat
    rng = ctx.rng
    lines, reals, cases = [], [], []
    for _ in range(ctx.budget(200)):
        s = _St()
        s.st_mode = rng.choice([0o100644, 0o100755, 0o120777, 0o040755])
        s.st_ino = rng.choice(U32_EDGES + BIG)
        s.st_dev = rng.choice(U32_EDGES + BIG)
        s.st_uid, s.st_gid = g_u32(rng), g_u32(rng)
        s.st_size = rng.choice(U32_EDGES + BIG) if rng.random() < 0.5 else g_u32(rng)
        s.st_ctime_ns = rng.choice([0, 1, 999999999, 10 ** 9, rng.getrandbits(60), (2 ** 32 - 1) * 10 ** 9 + 999999999, 2 ** 32 * 10 ** 9])
        s.st_mtime_ns = rng.choice([0, 1, 10 ** 9 - 1, rng.getrandbits(61)])
        s.st_ctime, s.st_mtime = s.st_ctime_ns / 1e9, s.st_mtime_ns / 1e9
        mode = rng.choice([None, 0o100644, 0o160000])
        e = index_entry_from_stat(s, SHA_EMPTY.encode(), mode)
        from dulwich.index import cleanup_mode
        m = cleanup_mode(s.st_mode) if mode is None else mode
        lines.append(f"c11.fromstat {s.st_ctime_ns} {s.st_mtime_ns} {s.st_dev} {s.st_ino} {m} {s.st_uid} {s.st_gid} {s.st_size}")
        reals.append(canon_real_entry(e, b"").replace(SHA_EMPTY, "-"))
        cases.append(vars(s))
    outs = ctx.driver.batch(lines)
    for c, o, r in zip(cases, outs, reals):
        ctx.count("fromstat", json.dumps(c, sort_keys=True), True, "size>=2^32" if c["st_size"] >= U32 else "u32")
        if o != r:
            ctx.disagree("fromstat", c, o, r)


# ---- timestamps next to a second boundary: st_*_ns (int) vs st_* (float) disagree about the whole second

NS = 10 ** 9
NS_FRACS = [0, 1, 2, 119, 120, 500_000_000, 999_999_000, 999_999_762, 999_999_880, 999_999_881, 999_999_900,
            999_999_950, 999_999_998, 999_999_999]
BOUNDARY_SECS = [0, 1, 2 ** 31 - 1, 2 ** 31, 2 ** 32 - 1, 2 ** 32, 1_789_999_999, 1_790_000_000, 1_790_123_456,
                 -1, -2, -5, -86400, -(2 ** 31)]


def boundary_ns_values(rng, n_random: int):
    """nanosecond counters next to a whole second (where the double for the same instant rounds up), at small,
    current (~1.79e9 s: float spacing ~238 ns), 2^31/2^32 and pre-1970 seconds."""
    vals = [s_ * NS + f_ for s_ in BOUNDARY_SECS for f_ in NS_FRACS]
    for _ in range(n_random):
        s_ = rng.choice([rng.randrange(1_500_000_000, 2_100_000_000), rng.randrange(0, 2 ** 33), -rng.randrange(1, 2 ** 31)])
        vals.append(s_ * NS + rng.choice([NS - rng.randint(1, 300), rng.randint(0, 300), rng.randrange(NS)]))
    return vals


def _cpython_float_time(ns: int) -> float:
    """st_mtime as CPython builds it from a timespec: sec + 1e-9 * nsec in double arithmetic."""
    return float(ns // NS) + 1e-9 * (ns % NS)


def check_stat_time_case(ctx, stream: str, c: dict, st=None):
    """Direct oracle on one stat result: the entry index_entry_from_stat records has
    (sec, nsec) == (st_*_ns // 10^9, st_*_ns % 10^9) when the stat result has the *_ns fields (else the float it was
    given), and write -> read returns that instant with the seconds modulo 2^32.
    c: {"kind": "stat", "mtime_ns", "ctime_ns", "with_ns": bool}.  -> what the real code recorded (for the model)."""
    from dulwich.index import index_entry_from_stat, write_index_dict, read_index_dict
    if st is None:
        st = _St()
        st.st_mode, st.st_ino, st.st_dev, st.st_uid, st.st_gid, st.st_size = 0o100644, 7, 8, 9, 10, 11
        st.st_mtime, st.st_ctime = _cpython_float_time(c["mtime_ns"]), _cpython_float_time(c["ctime_ns"])
        if c["with_ns"]:
            st.st_mtime_ns, st.st_ctime_ns = c["mtime_ns"], c["ctime_ns"]
    e = index_entry_from_stat(st, SHA_EMPTY.encode())
    rec = {}
    for fld, ns in (("mtime", c["mtime_ns"]), ("ctime", c["ctime_ns"])):
        got = getattr(e, fld)
        if c["with_ns"]:
            exp = (ns // NS, ns % NS)
            if got != exp:
                ctx.oracle_fail(stream, c, f"index_entry_from_stat records {fld}={got!r} for st_{fld}_ns={ns} "
                                f"(st_{fld}={getattr(st, 'st_' + fld)!r}): expected (sec, nsec) = {exp}", None)
        else:
            exp = getattr(st, "st_" + fld)
            if got != exp:
                ctx.oracle_fail(stream, c, f"index_entry_from_stat records {fld}={got!r} for the float st_{fld}={exp!r}", None)
        rec[fld] = got
    f = io.BytesIO()
    try:
        write_index_dict(f, {b"f": e})
        f.seek(0)
        back = read_index_dict(f)[b"f"]
    except Exception as ex:
        ctx.oracle_fail(stream, c, f"write/read of the entry built from the stat result raised {exc_kind(ex)}", None)
        return rec, None
    for fld, ns in (("mtime", c["mtime_ns"]), ("ctime", c["ctime_ns"])):
        got = getattr(back, fld)
        if c["with_ns"]:
            exp = ((ns // NS) % U32, ns % NS)
            if got != exp:
                ctx.oracle_fail(stream, c, f"{fld} read back {got!r} for st_{fld}_ns={ns}: expected {exp}", None)
        elif not time_matches(("float", getattr(st, "st_" + fld)), got):
            ctx.oracle_fail(stream, c, f"{fld} read back {got!r} for the float {getattr(st, 'st_' + fld)!r}", None)
    return rec, back


def check_cache_time_case(ctx, stream: str, c: dict):
    """Writer side: write_cache_time for the int, tuple and float spelling of one instant (c["ns"] total nanoseconds;
    the float spelling only when it is exact: c["exact_float"]) stores (sec mod 2^32, nsec); -1.5 is (-2, 500000000)."""
    from dulwich.index import write_cache_time
    ns = c["ns"]
    sec, nsec = ns // NS, ns % NS
    exp = struct.pack(">LL", sec % U32, nsec)
    spellings = [("tuple", (sec, nsec))]
    if nsec == 0:
        spellings.append(("int", sec))
    if c.get("exact_float"):
        fl = sec + nsec / NS
        if (fl // 1.0, (fl % 1.0) * NS) == (float(sec), float(nsec)):      # the double holds the instant exactly
            spellings.append(("float", fl))
    out = {}
    for nm, t in spellings:
        f = io.BytesIO()
        try:
            write_cache_time(f, t)
            out[nm] = f.getvalue()
        except Exception as ex:
            out[nm] = exc_kind(ex).encode()
        if out[nm] != exp:
            ctx.oracle_fail(stream, c, f"write_cache_time({t!r}) wrote {out[nm].hex() if len(out[nm]) == 8 else out[nm]!r}, "
                            f"the instant is (sec, nsec) = ({sec}, {nsec}) -> {exp.hex()}", None)
    return out


def _stream_stat_boundary(ctx, git: Git, boost: int = 1):
    """Timestamps next to a second boundary: hand-built stat results with and without *_ns, REAL files (os.utime(ns=)),
    porcelain.add into .git/index, C git (`update-index --add` into a private index) on the same files, and the writer
    side (int / tuple / float spellings incl. negative fractional floats).  Model: timespecOfNs / timeWords."""
    import stat as _stat
    from dulwich import porcelain
    from dulwich.index import Index
    from dulwich.repo import Repo
    rng = ctx.rng
    values = boundary_ns_values(rng, ctx.budget(150) * boost)
    # (a) hand-built stat results, both branches of the conversion; model correspondence on the *_ns branch
    outs = ctx.driver.batch([f"c11.timespec {v}" for v in values])
    for v, o in zip(values, outs):
        cns = rng.choice(values)
        for with_ns in (True, False):
            c = {"kind": "stat", "mtime_ns": v, "ctime_ns": cns, "with_ns": with_ns}
            rec, back = check_stat_time_case(ctx, "stat.built", c)
            fl = _cpython_float_time(v)
            tag = ("ns" if with_ns else "float") + ":" + ("float-rounds-up" if int(fl // 1.0) != v // NS else "same-second") + \
                  (":neg" if v < 0 else "")
            ctx.count("stat.built", (v, cns, with_ns), True, tag)
            if with_ns and back is not None:
                real = f"{rec['mtime'][0]} {rec['mtime'][1]} {back.mtime[0]} {back.mtime[1]}" if isinstance(rec["mtime"], tuple) \
                    else f"not-a-pair {rec['mtime']!r}"
                if o != real:
                    ctx.disagree("stat.built", c, o, real)
    # (b) writer side
    wvals = [s_ * NS + f_ for s_ in (0, 1, -1, -2, 5, -5, 2 ** 31, 2 ** 32 - 1, -(2 ** 31)) for f_ in (0, 500_000_000, 250_000_000, 750_000_000, 125_000_000)]
    wvals += [v for v in values[:: max(1, len(values) // 60)]]
    wouts = ctx.driver.batch([f"c11.timespec {v}" for v in wvals])
    for v, o in zip(wvals, wouts):
        c = {"kind": "cachetime", "ns": v, "exact_float": (v % NS) in (0, 500_000_000, 250_000_000, 750_000_000, 125_000_000) and abs(v // NS) < 2 ** 40}
        out = check_cache_time_case(ctx, "stat.cachetime", c)
        ctx.count("stat.cachetime", v, True, ",".join(sorted(out)) + (":neg" if v < 0 else ""))
        m = o.split(" ")
        if len(out.get("tuple", b"")) == 8 and struct.unpack(">LL", out["tuple"]) != (int(m[2]), int(m[3])):
            ctx.disagree("stat.cachetime", c, o, out["tuple"].hex())
    # (c) real files: os.utime(ns=) -> os.lstat -> index_entry_from_stat; porcelain.add; C git on the same files
    repo_dir = ctx.scratch / f"statrepo{git.n}"
    git.n += 1
    git.run(["git", "init", "-q", str(repo_dir)], cwd=ctx.scratch)
    pick = [s_ * NS + f_ for s_ in (1_790_000_000, 1_789_999_999, 0, 1, 2 ** 31 - 1, 2 ** 31, 2 ** 32 - 1, -5, -1)
            for f_ in (0, 1, 500_000_000, 999_999_880, 999_999_900, 999_999_999)]
    pick += rng.sample(values, min(len(values), 12 * boost))
    files, skipped = [], 0
    for i, v in enumerate(pick):
        p = repo_dir / f"f{i}"
        p.write_bytes(b"%d" % i)
        try:
            os.utime(p, ns=(v, v))
        except (OSError, OverflowError):
            skipped += 1
            continue
        st = os.lstat(p)
        if st.st_mtime_ns != v:
            skipped += 1          # the file system cannot hold this timestamp: nothing to compare
            continue
        files.append((p, v, st))
    for p, v, st in files:
        c = {"kind": "stat", "mtime_ns": st.st_mtime_ns, "ctime_ns": st.st_ctime_ns, "with_ns": True, "source": "real file"}
        check_stat_time_case(ctx, "stat.realfile", c, st=st)
        ctx.count("stat.realfile", v, True, "float-rounds-up" if int(st.st_mtime // 1.0) != v // NS else "same-second")
    try:
        repo = Repo(str(repo_dir))
        try:
            porcelain.add(repo, paths=[str(p) for p, _, _ in files])
        finally:
            repo.close()
        idx = Index(str(repo_dir / ".git" / "index"))
        d_entries = {k: e for k, e in idx.items()}
    except Exception as ex:
        ctx.oracle_fail("stat.porcelain", {"kind": "stat-porcelain", "values": [v for _, v, _ in files][:8]},
                        f"porcelain.add of files with boundary timestamps raised {type(ex).__name__}: {ex}", None)
        d_entries = {}
    priv = ctx.scratch / "private.index"
    if priv.exists():
        priv.unlink()
    env = dict(git.env, GIT_INDEX_FILE=str(priv))
    git.run(["git", "update-index", "--add", "--"] + [p.name for p, _, _ in files], cwd=repo_dir, env=env)
    rc, listed, err = git.ls(priv, repo_dir)
    if rc != 0:
        raise core.InfraError(f"git cannot list its private index: {err!r}")
    g_entries = {t[0]: t for t in listed}
    git_nsec = any(t[5][1] != 0 for t in listed)
    ctx.extra_cov["git_records_nsec"] = git_nsec
    if not git_nsec:
        ctx.notes.append("this C git records 0 nanoseconds (built without USE_NSEC): stat.git compares whole seconds only")
    for p, v, st in files:
        k = p.name.encode()
        c = {"kind": "stat-porcelain", "mtime_ns": v, "file": p.name}
        exp = ((v // NS) % U32, v % NS)
        de = d_entries.get(k)
        if de is not None:
            ctx.count("stat.porcelain", v, True, "neg" if v < 0 else "pos")
            if de.mtime != exp:
                ctx.oracle_fail("stat.porcelain", c, f"porcelain.add recorded mtime {de.mtime!r} in .git/index for a file with "
                                f"st_mtime_ns={v} (st_mtime={st.st_mtime!r}): expected {exp}", None)
            if tuple(de.ctime) != ((st.st_ctime_ns // NS) % U32, st.st_ctime_ns % NS):
                ctx.oracle_fail("stat.porcelain", c, f"porcelain.add recorded ctime {de.ctime!r} for st_ctime_ns={st.st_ctime_ns}", None)
        ge = g_entries.get(k)
        if ge is not None and de is not None:
            ctx.count("stat.git", v, True, "nsec" if git_nsec else "sec-only")
            gm, gc = ge[5], ge[4]
            same = (tuple(de.mtime) == gm and tuple(de.ctime) == gc) if git_nsec else (de.mtime[0] == gm[0] and de.ctime[0] == gc[0])
            if not same:
                ctx.oracle_fail("stat.git", c, f"dulwich records mtime {de.mtime!r} ctime {de.ctime!r}, C git records mtime {gm} "
                                f"ctime {gc} for the same file (st_mtime_ns={v})", None)
    ctx.extra_cov["stat_realfile_skipped_by_fs"] = skipped
    shutil.rmtree(repo_dir, ignore_errors=True)


def _run_corpus_witnesses(ctx, git: Git):
    """Witnesses of the known findings: replayed against the real code on every run."""
    cdir = core.VERIF / "corpus" / PROP
    if not cdir.exists():
        return
    path = ctx.scratch / "corpus.index"
    for f in sorted(cdir.glob("*.json")):
        w = json.loads(f.read_text())
        kind = w.get("kind")
        if kind == "index":
            if not in_quantifier(w["case"]):
                continue
            if path.exists():
                path.unlink()
            if w.get("prior"):
                path.write_bytes(unhx(w["prior"]))
            ok = oracle_roundtrip(ctx, w.get("stream", "index.roundtrip"), w["case"], path, unhx(w["prior"]) if w.get("prior") else None)
            if w.get("git") and ok and git_eligible(w["case"]):
                oracle_git_lists(ctx, git, "git.lists", w["case"], path)
        elif kind == "damage":
            check_damage_case(ctx, "index.damage", w, path)
        elif kind == "gitwritten":
            raw = unhx(w["file"])
            path.write_bytes(raw)
            listed = None
            if not w.get("sparse"):
                # (a sparse index can only be listed inside the repository it belongs to: elsewhere git expands it)
                rc, listed, err = git.ls(path)
                if rc != 0:
                    raise core.InfraError(f"git cannot list the stored git-written witness {f.name}: {err!r}")
            check_gitwritten_case(ctx, git, "git.written", {"kind": "gitwritten", "scenario": w.get("scenario")}, raw, listed)
        elif kind == "entry":
            pass    # replayed at the head of the entry stream
        ctx.count("corpus", f.stem, True, kind)


def run(ctx: core.Ctx):
    ctx.assumptions += [
        "Python ints are modelled as Nat: negative field values are outside the model (the direct oracle still runs them)",
        "float times: CPython's divmod/int conversion in write_cache_time is outside the model; the model receives the "
        "(sec, nsec) pair CPython computes, the oracle checks it against floor/frac independently",
        "object ids are raw 20-byte strings in the model (hex_to_sha / sha_to_hex not modelled)",
        "SHA-1 is a parameter H of the theorems; the driver instantiates it with a Lean SHA-1 compared to hashlib each run",
        "C git 2.39.5 is the third party; git's varint (varint.c) is modelled and tied to C git by the git.varint stream",
    ]
    git = Git(ctx)
    _stream_sha1(ctx)
    _stream_varint(ctx)
    _stream_paths(ctx)
    _run_corpus_witnesses(ctx, git)
    _stream_entries(ctx)
    _stream_fromstat(ctx)
    _stream_stat_boundary(ctx, git)
    _stream_index(ctx, git)
    _stream_git_varint(ctx, git)
    _stream_git_written(ctx, git)
    ctx.extra_cov["c_git_comparisons"] = ctx.streams.get("git.lists", 0) + ctx.streams.get("git.written", 0) + ctx.streams.get("git.varint", 0)
    ctx.extra_cov["variants"] = ["pure Python index.py (no Rust code on this path)", "C git 2.39.5"]


def search(ctx: core.Ctx):
    """Failing-input search after a broken obligation / correspondence: the direct oracles, harder, around the
    disagreeing cases and on a boosted fresh sample."""
    rng = ctx.rng
    git = Git(ctx)
    path = ctx.scratch / "search.index"
    # 0. the second-boundary timestamp family (stat results, real files, porcelain.add, C git, writer side), boosted
    _stream_stat_boundary(ctx, git, boost=6)
    if ctx.oracle_failures:
        return
    # 1. neighbourhood of disagreeing cases
    for d in ctx.disagreements[:50]:
        c = d["case"]
        if isinstance(c, dict) and "items" in c and in_quantifier(c):
            if path.exists():
                path.unlink()
            if oracle_roundtrip(ctx, "search.roundtrip", c, path, None) and git_eligible(c):
                oracle_git_lists(ctx, git, "search.git", c, path)
        elif isinstance(c, dict) and c.get("kind") == "entry" and entry_in_quantifier(c["v"], unhx(c["name"]), c["entry"]):
            check_entry_case(ctx, "search.entry", c)
        elif isinstance(c, dict) and "n" in c and isinstance(c["n"], int):
            import dulwich.index as I
            for n in range(max(0, c["n"] - 3), c["n"] + 4):
                enc = I._encode_varint(n)
                if I._decode_varint(enc, 0) != (n, len(enc)):
                    ctx.oracle_fail("search.varint", {"kind": "varint", "n": n, "tail": "-"}, "varint round trip fails")
        elif isinstance(c, dict) and "path" in c and "prev" in c:
            p, q = unhx(c["path"]), unhx(c["prev"])
            import dulwich.index as I
            if b"\0" not in p:
                r = _real_decompress_stream(q, I._compress_path(p, q))
                if r != f"ok {hx(p)} -":
                    ctx.oracle_fail("search.path", {"kind": "path", "path": hx(p), "prev": hx(q), "tail": "-"}, f"path round trip fails: {r[:80]}")
        elif isinstance(c, dict) and c.get("kind") == "read" and "file" in c:
            # reader disagreement on a file: is it damage that goes undetected, or a good file that is rejected?
            raw = unhx(c["file"])
            check_damage_case(ctx, "search.damage", {"kind": "damage", "damage": c.get("label"), "file": c["file"]}, path) \
                if c.get("label", "").startswith("damaged") else None
        if ctx.oracle_failures:
            return
    # 2. boosted fresh sample of every direct oracle
    for _ in range(ctx.budget(300)):
        tag, case = g_index_case(rng, None, False)
        if not in_quantifier(case):
            continue
        if path.exists():
            path.unlink()
        if oracle_roundtrip(ctx, "search.roundtrip", case, path, None):
            if rng.random() < 0.4 and classify_index_case(case, True) is None and git_eligible(case):
                oracle_git_lists(ctx, git, "search.git", case, path)
            if not case["skip_hash"]:
                raw = path.read_bytes()
                for label, dmg in damages(rng, raw, 8):
                    check_damage_case(ctx, "search.damage", {"kind": "damage", "damage": label, "file": hx(dmg)}, path)
        if ctx.oracle_failures:
            return
    for _ in range(ctx.budget(2000)):
        v = rng.choice([2, 3, 4])
        L = rng.choice([1, 2, 7, 8, 9, 100, 0xFFE, 0xFFF])
        name = g_comp(rng, L)
        prev = name[: rng.randint(0, len(name))] + g_comp(rng, rng.choice([0, 1, 100, 130]))
        e = g_entry(rng, None, False)
        if entry_in_quantifier(v, name, e):
            check_entry_case(ctx, "search.entry", {"kind": "entry", "v": v, "prev": hx(prev if v == 4 else b""), "name": hx(name), "entry": e, "tail": "-"})
        if ctx.oracle_failures:
            return
    for _ in range(ctx.budget(12)):
        sc = git_scenario(rng, git, rng.choice(["index-info", "index-info-long", "add", "read-tree-m", "sparse"]))
        if sc is None:
            continue
        desc, repo, sparse = sc
        idx = repo / ".git" / "index"
        rc, listed, err = git.ls(idx, repo, sparse=sparse)
        if rc == 0:
            check_gitwritten_case(ctx, git, "search.gitwritten", desc, idx.read_bytes(), listed)


def replay(ctx: core.Ctx, data: dict) -> int:
    c = data.get("case", {})
    kind = c.get("kind") or ("index" if "items" in c else None)
    git = Git(ctx)
    path = ctx.scratch / "replay.index"
    if kind == "index" or "items" in c:
        ok = oracle_roundtrip(ctx, "replay", c, path, None)
        print("replay: real Index.write -> Index(path):", "holds" if ok else "FAILS")
        if ok and in_quantifier(c) and git_eligible(c):
            ok2 = oracle_git_lists(ctx, git, "replay", c, path)
            print("replay: C git lists the same entries:", "holds" if ok2 else "FAILS")
    elif kind == "entry":
        print("replay entry:", check_entry_case(ctx, "replay", c)[:120])
    elif kind == "damage":
        print("replay damage:", check_damage_case(ctx, "replay", c, path)[:200])
    elif kind in ("gitwrite", "gitwritten") and "file" in c and not c["file"].endswith("..."):
        raw = unhx(c["file"])
        path.write_bytes(raw)
        rc, listed, err = git.ls(path, sparse=c.get("scenario") == "sparse-index" or c.get("sparse", False))
        print("replay: git lists", len(listed), "entries rc", rc)
        if rc == 0:
            print("replay git-written:", check_gitwritten_case(ctx, git, "replay", c, raw, listed)[:200])
    elif kind == "stat":
        print("replay stat:", check_stat_time_case(ctx, "replay", {k: c[k] for k in ("kind", "mtime_ns", "ctime_ns", "with_ns")})[0])
    elif kind == "cachetime":
        print("replay cachetime:", check_cache_time_case(ctx, "replay", c))
    elif kind == "stat-porcelain":
        _stream_stat_boundary(ctx, git)
    elif kind == "varint":
        import dulwich.index as I
        enc = I._encode_varint(c["n"])
        if I._decode_varint(enc + unhx(c.get("tail", "-")), 0) != (c["n"], len(enc)):
            ctx.oracle_fail("replay", c, "varint round trip fails")
    elif kind == "path":
        import dulwich.index as I
        p, q, t = unhx(c["path"]), unhx(c["prev"]), unhx(c.get("tail", "-"))
        r = _real_decompress_stream(q, I._compress_path(p, q) + t)
        if r != f"ok {hx(p)} {hx(t)}":
            ctx.oracle_fail("replay", c, f"path round trip fails: {r[:80]}")
    else:
        print("replay: this file does not carry a replayable failing input (broken obligation); re-run ./check C11")
        return 1
    for f in ctx.oracle_failures:
        print("  fails:", f["what"][:300], "| class:", f["class"])
    if ctx.oracle_failures:
        print(f"VIOLATION property={PROP} replay={data.get('_path', '<replayed>')}")
        return 1
    if ctx.known_hit:
        print("replay: fails only in ways recorded as known findings:", ctx.known_hit)
        return 0
    print("replay: property holds on this case")
    return 0
