"""C11 — index file round trip, ordering, checksum, agreement with C git.

Model: lean/DulwichModel/Model/Index.lean; theorems: Props/C11.lean (lemmas in Lemmas/Index.lean).
Tie: translate() regenerates Gen/Index.lean (flag masks, struct layouts, field masks, padding and varint
constants, version thresholds, extension-signature rules, trailer handling) from dulwich/index.py and
dulwich/pack.py; run() drives the correspondence streams (model bytes vs real bytes BYTE-FOR-BYTE, model
reader vs real reader) and the direct oracles (real write->read, C git as third party, damage detection).
"""
from __future__ import annotations

import ast
import hashlib
import io
import json
import os
import shutil
import struct
import subprocess
from pathlib import Path

from .. import core, translate as T
from ..core import hx, unhx

MOD = "c11"
PROP = "C11"


# ------------------------------------------------------------------------------------------------
# translator

_FMT_W = {"L": 4, "I": 4, "H": 2, "B": 1, "Q": 8}


def _fmt_widths(fmt) -> list[int]:
    """'>LLLLLL20sH' -> [4,4,4,4,4,4,20,2]; only big-endian unsigned integer codes and Ns are understood."""
    if isinstance(fmt, bytes):
        fmt = fmt.decode()
    if not fmt.startswith(">"):
        raise T.TranslateError(f"struct format {fmt!r} is not big-endian")
    out, num = [], ""
    for ch in fmt[1:]:
        if ch.isdigit():
            num += ch
        elif ch == "s":
            out.append(int(num or "1"))
            num = ""
        elif ch in _FMT_W:
            out += [_FMT_W[ch]] * int(num or "1")
            num = ""
        else:
            raise T.TranslateError(f"struct format {fmt!r}: code {ch!r} not understood by the model")
    return out


def _struct_calls(func: ast.AST, which: str):
    """all struct.<which>(fmt, ...) calls in source order -> [(fmt, call node)]"""
    out = []
    for n in ast.walk(func):
        if isinstance(n, ast.Call) and isinstance(n.func, ast.Attribute) and n.func.attr == which \
                and isinstance(n.func.value, ast.Name) and n.func.value.id == "struct" and n.args \
                and isinstance(n.args[0], ast.Constant):
            out.append((n.lineno, n.col_offset, n.args[0].value, n))
    return [(f, c) for _, _, f, c in sorted(out, key=lambda t: (t[0], t[1]))]


def _one(lst, what):
    if len(lst) != 1:
        raise T.TranslateError(f"{what}: expected exactly one match, got {len(lst)}")
    return lst[0]


def _compares(func: ast.AST, name: str):
    """[(op class name, constant)] for every `name <op> <int literal>` in func, in source order."""
    out = []
    for n in ast.walk(func):
        if isinstance(n, ast.Compare) and isinstance(n.left, ast.Name) and n.left.id == name and len(n.ops) == 1 \
                and isinstance(n.comparators[0], ast.Constant) and isinstance(n.comparators[0].value, int):
            out.append((n.lineno, n.col_offset, type(n.ops[0]).__name__, n.comparators[0].value))
    return [(o, c) for _, _, o, c in sorted(out)]


def _pad_consts(func: ast.AST, what: str):
    """`(<expr> + A) & ~M` -> (A, M)"""
    found = []
    for n in ast.walk(func):
        if isinstance(n, ast.BinOp) and isinstance(n.op, ast.BitAnd) and isinstance(n.right, ast.UnaryOp) \
                and isinstance(n.right.op, ast.Invert) and isinstance(n.right.operand, ast.Constant) \
                and isinstance(n.left, ast.BinOp) and isinstance(n.left.op, ast.Add) \
                and isinstance(n.left.right, ast.Constant):
            found.append((n.left.right.value, n.right.operand.value))
    return _one(found, f"{what}: padding expression `(.. + A) & ~M`")


def _varint_enc_consts(func):
    mask = [n.right.value for n in ast.walk(func) if isinstance(n, ast.BinOp) and isinstance(n.op, ast.BitAnd)
            and isinstance(n.right, ast.Constant)]
    shift = [n.value.value for n in ast.walk(func) if isinstance(n, ast.AugAssign) and isinstance(n.op, ast.RShift)
             and isinstance(n.value, ast.Constant)]
    cont = [n.value.value for n in ast.walk(func) if isinstance(n, ast.AugAssign) and isinstance(n.op, ast.BitOr)
            and isinstance(n.value, ast.Constant)]
    zero = [n for n in ast.walk(func) if isinstance(n, ast.If) and isinstance(n.test, ast.Compare)
            and isinstance(n.test.ops[0], ast.Eq) and T.eval_literal(n.test.comparators[0]) == 0
            and isinstance(n.body[0], ast.Return) and T.eval_literal(n.body[0].value) == b"\x00"]
    _one(zero, "_encode_varint: `if value == 0: return b'\\x00'`")
    return _one(mask, "_encode_varint mask"), _one(shift, "_encode_varint shift"), _one(cont, "_encode_varint cont")


def _varint_dec_consts(func, what):
    """`(byte & MASK) << shift`, `shift += S`, `byte & CONT` -> (MASK, S, CONT)"""
    masks = []
    for n in ast.walk(func):
        if isinstance(n, ast.BinOp) and isinstance(n.op, ast.BitAnd) and isinstance(n.left, ast.Name) \
                and n.left.id == "byte" and isinstance(n.right, ast.Constant):
            masks.append((n.lineno, n.col_offset, n.right.value))
    masks = [m for _, _, m in sorted(masks)]
    if len(masks) != 2:
        raise T.TranslateError(f"{what}: expected `byte & MASK` and `byte & CONT`, got {masks}")
    shift = [n.value.value for n in ast.walk(func) if isinstance(n, ast.AugAssign) and isinstance(n.op, ast.Add)
             and isinstance(n.target, ast.Name) and n.target.id == "shift" and isinstance(n.value, ast.Constant)]
    return masks[0], _one(shift, f"{what}: shift += S"), masks[1]


def _opt(v):
    return "none" if v is None else f"(some {v})"


def translate(repo: Path) -> dict:
    tree = T.module_ast(repo / "dulwich" / "index.py")
    ptree = T.module_ast(repo / "dulwich" / "pack.py")
    c = {k: T.const_value(tree, k) for k in (
        "FLAG_STAGEMASK", "FLAG_STAGESHIFT", "FLAG_NAMEMASK", "FLAG_VALID", "FLAG_EXTENDED",
        "EXTENDED_FLAG_SKIP_WORKTREE", "EXTENDED_FLAG_INTEND_TO_ADD", "DEFAULT_VERSION",
        "TREE_EXTENSION", "REUC_EXTENSION", "UNTR_EXTENSION", "SDIR_EXTENSION")}

    # header
    hdr = T.find_def(tree, "read_index_header")
    magic = [n.comparators[0].value for n in ast.walk(hdr) if isinstance(n, ast.Compare)
             and isinstance(n.left, ast.Name) and n.left.id == "header" and isinstance(n.ops[0], ast.NotEq)
             and isinstance(n.comparators[0], ast.Constant)]
    magic = _one(magic, "read_index_header: header != b'DIRC'")
    vers = [T.eval_literal(n.comparators[0]) for n in ast.walk(hdr) if isinstance(n, ast.Compare)
            and isinstance(n.left, ast.Name) and n.left.id == "version" and isinstance(n.ops[0], ast.NotIn)]
    vers = list(_one(vers, "read_index_header: version not in (...)"))
    hdr_fmt = _fmt_widths(_one(_struct_calls(hdr, "unpack"), "read_index_header unpack")[0])
    hdr_read = [T.eval_literal(n.args[0]) for n in ast.walk(hdr) if isinstance(n, ast.Call)
                and isinstance(n.func, ast.Attribute) and n.func.attr == "read" and n.args]
    if hdr_read != [4, 8]:
        raise T.TranslateError(f"read_index_header reads {hdr_read}, model expects [4, 8]")

    # varints
    e_mask, e_shift, e_cont = _varint_enc_consts(T.find_def(tree, "_encode_varint"))
    s_mask, s_shift, s_cont = _varint_dec_consts(T.find_def(tree, "_decompress_path_from_stream"), "_decompress_path_from_stream")
    d_mask, d_shift, d_cont = _varint_dec_consts(T.find_def(tree, "_decode_varint"), "_decode_varint")

    # times
    wt = T.find_def(tree, "write_cache_time")
    rt = T.find_def(tree, "read_cache_time")
    wt_fmt = _fmt_widths(_one(_struct_calls(wt, "pack"), "write_cache_time pack")[0])
    rt_fmt = _fmt_widths(_one(_struct_calls(rt, "unpack"), "read_cache_time unpack")[0])

    # write_cache_entry
    wce = T.find_def(tree, "write_cache_entry")
    packs = _struct_calls(wce, "pack")
    if len(packs) != 2:
        raise T.TranslateError(f"write_cache_entry: expected 2 struct.pack calls, got {len(packs)}")
    (w_fmt, w_call), (wx_fmt, _) = packs
    w_widths = _fmt_widths(w_fmt)
    fields, masks = [], {}
    for a in w_call.args[1:]:
        node, mask = a, None
        if isinstance(a, ast.BinOp) and isinstance(a.op, ast.BitAnd) and isinstance(a.right, ast.Constant):
            node, mask = a.left, a.right.value
        if isinstance(node, ast.Attribute) and isinstance(node.value, ast.Name) and node.value.id == "entry":
            fields.append(node.attr)
            masks[node.attr] = mask
        elif isinstance(node, ast.Call) and isinstance(node.func, ast.Name) and node.func.id == "hex_to_sha":
            fields.append("sha")
        elif isinstance(node, ast.Name):
            fields.append(node.id)
        else:
            raise T.TranslateError(f"write_cache_entry: unrecognised struct.pack argument {ast.dump(a)[:80]}")
    if fields != ["dev", "ino", "mode", "uid", "gid", "size", "sha", "flags"]:
        raise T.TranslateError(f"write_cache_entry packs fields {fields}; the model's layout is different")
    for k, m in masks.items():
        if m is not None and (m & (m + 1)) != 0:
            raise T.TranslateError(f"write_cache_entry: mask {m:#x} on {k} is not of the form 2^k-1")
    w_pad = _pad_consts(wce, "write_cache_entry")
    w_cmp = _compares(wce, "version")
    if [o for o, _ in w_cmp] != ["GtE", "Lt", "GtE"]:
        raise T.TranslateError(f"write_cache_entry: version comparisons changed: {w_cmp}")
    # flags = len(entry.name) | (entry.flags & ~FLAG_NAMEMASK)
    ok = False
    for n in ast.walk(wce):
        if isinstance(n, ast.Assign) and isinstance(n.targets[0], ast.Name) and n.targets[0].id == "flags":
            ok = ast.dump(n.value) == ast.dump(ast.parse("len(entry.name) | (entry.flags & ~FLAG_NAMEMASK)", mode="eval").body)
            break
    if not ok:
        raise T.TranslateError("write_cache_entry: `flags = len(entry.name) | (entry.flags & ~FLAG_NAMEMASK)` changed; "
                               "the model's flag arithmetic no longer describes the code")

    # read_cache_entry
    rce = T.find_def(tree, "read_cache_entry")
    unpacks = _struct_calls(rce, "unpack")
    if len(unpacks) != 2:
        raise T.TranslateError(f"read_cache_entry: expected 2 struct.unpack calls, got {len(unpacks)}")
    r_widths = _fmt_widths(unpacks[0][0])
    rx_widths = _fmt_widths(unpacks[1][0])
    r_call = unpacks[0][1]
    r_read = T.eval_literal(r_call.args[1].args[0])
    r_pad = _pad_consts(rce, "read_cache_entry")
    r_cmp = _compares(rce, "version")
    if [o for o, _ in r_cmp] != ["Lt", "GtE", "Lt"]:
        raise T.TranslateError(f"read_cache_entry: version comparisons changed: {r_cmp}")
    src_rce = ast.unparse(rce)
    for needle in ("f.read(flags & FLAG_NAMEMASK)", "flags & ~FLAG_NAMEMASK", "flags & FLAG_EXTENDED"):
        if needle not in src_rce:
            raise T.TranslateError(f"read_cache_entry: `{needle}` not found; the model's reader no longer describes the code")

    # write_index: version bump
    wi = T.find_def(tree, "write_index")
    wi_cmp = _compares(wi, "version")
    bump = [n.value.value for n in ast.walk(wi) if isinstance(n, ast.Assign) and isinstance(n.targets[0], ast.Name)
            and n.targets[0].id == "version" and isinstance(n.value, ast.Constant)]
    bump = _one(bump, "write_index: version = 3")
    if not wi_cmp or wi_cmp[0][0] != "Lt":
        raise T.TranslateError(f"write_index: `version < 3` not found: {wi_cmp}")
    wi_fmt = _fmt_widths(_one(_struct_calls(wi, "pack"), "write_index header pack")[0])

    # write_index_extension
    wie = T.find_def(tree, "write_index_extension")
    ext_len_fmt = _fmt_widths(_one(_struct_calls(wie, "pack"), "write_index_extension pack")[0])

    # write_index_dict: sorted(entries), stage order
    wid = T.find_def(tree, "write_index_dict")
    if "for key in sorted(entries)" not in ast.unparse(wid):
        raise T.TranslateError("write_index_dict: `for key in sorted(entries)` not found")
    stage_cls = T.find_def(tree, "Stage")
    stage_vals = {st.targets[0].id: st.value.value for st in stage_cls.body
                  if isinstance(st, ast.Assign) and isinstance(st.value, ast.Constant) and isinstance(st.value.value, int)}
    order = []
    for n in ast.walk(wid):
        if isinstance(n, ast.Call) and isinstance(n.func, ast.Attribute) and n.func.attr == "serialize":
            slot = n.func.value.attr if isinstance(n.func.value, ast.Attribute) else "value"
            st = n.args[1]
            order.append((n.lineno, slot, stage_vals[st.attr]))
    order = [(s, v) for _, s, v in sorted(order)]
    if [s for s, _ in order] != ["ancestor", "this", "other", "value"]:
        raise T.TranslateError(f"write_index_dict: serialize order changed: {order}")
    # read side: which stage goes to which slot
    rd = T.find_def(tree, "read_index_dict_with_version")
    slots = {}
    for n in ast.walk(rd):
        if isinstance(n, ast.If) and isinstance(n.test, ast.Compare) and isinstance(n.test.left, ast.Name) \
                and n.test.left.id == "stage" and isinstance(n.test.comparators[0], ast.Attribute):
            stname = n.test.comparators[0].attr
            b = n.body[0]
            if isinstance(b, ast.Assign) and isinstance(b.targets[0], ast.Attribute):
                slots[b.targets[0].attr] = stage_vals[stname]
            elif isinstance(b, ast.Assign) and isinstance(b.targets[0], ast.Subscript):
                slots["normal"] = stage_vals[stname]
    if set(slots) != {"ancestor", "this", "other", "normal"}:
        raise T.TranslateError(f"read_index_dict_with_version: stage dispatch changed: {slots}")
    # extension loop
    trailer = [n.right.value for n in ast.walk(rd) if isinstance(n, ast.BinOp) and isinstance(n.op, ast.Sub)
               and isinstance(n.left, ast.Name) and n.left.id == "eof_pos" and isinstance(n.right, ast.Constant)]
    trailer = _one(trailer, "read_index_dict_with_version: eof_pos - 20")
    rng = [(n.left.value, n.comparators[1].value) for n in ast.walk(rd) if isinstance(n, ast.Compare) and len(n.ops) == 2
           and isinstance(n.left, ast.Constant) and isinstance(n.comparators[1], ast.Constant)
           and all(isinstance(o, ast.LtE) for o in n.ops)]
    sig_lo, sig_hi = _one(rng, "read_index_dict_with_version: 65 <= b <= 90")
    ext_sz_fmt = _fmt_widths(_one(_struct_calls(rd, "unpack"), "read_index_dict_with_version unpack")[0])
    # which extension classes drop their payload (to_bytes returns b"")
    from_raw = T.find_def(tree, "IndexExtension.from_raw")
    drop = []
    for n in ast.walk(from_raw):
        if isinstance(n, ast.If) and isinstance(n.test, ast.Compare) and isinstance(n.test.left, ast.Name) \
                and n.test.left.id == "signature" and isinstance(n.test.comparators[0], ast.Name):
            signame = n.test.comparators[0].id
            ret = n.body[0].value
            cls = ret.func.value.id
            cdef = T.find_def(tree, cls)
            tb = [m for m in cdef.body if isinstance(m, ast.FunctionDef) and m.name == "to_bytes"]
            if tb:
                rets = [r for r in ast.walk(tb[0]) if isinstance(r, ast.Return)]
                if len(rets) == 1 and isinstance(rets[0].value, ast.Constant) and rets[0].value.value == b"":
                    drop.append(c[signame])
                else:
                    raise T.TranslateError(f"{cls}.to_bytes is no longer `return b''`: the model must learn its format")
    # Index.write: empty-payload filter, skip-hash trailer
    iw = T.find_def(tree, "Index.write")
    iw_src = ast.unparse(iw)
    if "if ext_data:" not in iw_src:
        raise T.TranslateError("Index.write: `if ext_data:` filter not found")
    zeros = [T.eval_literal(n.args[0]) for n in ast.walk(iw) if isinstance(n, ast.Call) and isinstance(n.func, ast.Attribute)
             and n.func.attr == "write" and n.args and isinstance(n.args[0], ast.BinOp)]
    zeros = _one(zeros, "Index.write: f.write(b'\\x00' * 20)")
    ir = T.find_def(tree, "Index.read")
    allow = [kw.value.value for n in ast.walk(ir) if isinstance(n, ast.Call) and isinstance(n.func, ast.Attribute)
             and n.func.attr == "check_sha" for kw in n.keywords if kw.arg == "allow_empty"]
    allow = _one(allow, "Index.read: check_sha(allow_empty=...)")
    cs = T.find_def(ptree, "SHA1Reader.check_sha")
    sha_read = [n.args[0].value for n in ast.walk(cs) if isinstance(n, ast.Call) and isinstance(n.func, ast.Attribute)
                and n.func.attr == "read" and n.args and isinstance(n.args[0], ast.Constant)]
    sha_read = _one(sha_read, "SHA1Reader.check_sha: self.f.read(20)")

    def b(x):
        return T.lean_bytes(x)

    src = T.lean_header("dulwich/index.py: FLAG_*, struct layouts and field masks of write_cache_entry/read_cache_entry, "
                        "padding, varint constants, version thresholds, header, extension rules; "
                        "dulwich/pack.py: SHA1Reader.check_sha") + f"""
namespace Dulwich.Gen.Index
def flagStageMask : Nat := {c['FLAG_STAGEMASK']}
def flagStageShift : Nat := {c['FLAG_STAGESHIFT']}
def flagNameMask : Nat := {c['FLAG_NAMEMASK']}
def flagValid : Nat := {c['FLAG_VALID']}
def flagExtended : Nat := {c['FLAG_EXTENDED']}
def extSkipWorktree : Nat := {c['EXTENDED_FLAG_SKIP_WORKTREE']}
def extIntentToAdd : Nat := {c['EXTENDED_FLAG_INTEND_TO_ADD']}
def defaultVersion : Nat := {c['DEFAULT_VERSION']}
def treeSig : List UInt8 := {b(c['TREE_EXTENSION'])}
def reucSig : List UInt8 := {b(c['REUC_EXTENSION'])}
def untrSig : List UInt8 := {b(c['UNTR_EXTENSION'])}
def sdirSig : List UInt8 := {b(c['SDIR_EXTENSION'])}
/-- signatures whose class parses to nothing and serialises to `b""` (`from_raw` / `to_bytes`) -/
def dropPayloadSigs : List (List UInt8) := [{", ".join(b(x) for x in drop)}]
/-- `read_index_header`: magic, accepted versions, `>LL` -/
def magic : List UInt8 := {b(magic)}
def versions : List Nat := {vers}
def headerFmt : List Nat := {hdr_fmt}
def writeHeaderFmt : List Nat := {wi_fmt}
/-- `_encode_varint`: `value & M`, `value >>= S`, `byte |= C` -/
def varintEncMask : Nat := {e_mask}
def varintEncShift : Nat := {e_shift}
def varintEncCont : Nat := {e_cont}
/-- `_decompress_path_from_stream`: `(byte & M) << shift`, `shift += S`, `byte & C` -/
def varintStreamMask : Nat := {s_mask}
def varintStreamShift : Nat := {s_shift}
def varintStreamCont : Nat := {s_cont}
/-- `_decode_varint` (same three constants) -/
def varintDecMask : Nat := {d_mask}
def varintDecShift : Nat := {d_shift}
def varintDecCont : Nat := {d_cont}
/-- struct layouts (field widths in bytes) -/
def timeWriteFmt : List Nat := {wt_fmt}
def timeReadFmt : List Nat := {rt_fmt}
def entryWriteFmt : List Nat := {w_widths}
def entryReadFmt : List Nat := {r_widths}
def entryReadLen : Nat := {r_read}
def extFlagsWriteFmt : List Nat := {_fmt_widths(wx_fmt)}
def extFlagsReadFmt : List Nat := {rx_widths}
def extLenWriteFmt : List Nat := {ext_len_fmt}
def extLenReadFmt : List Nat := {ext_sz_fmt}
/-- `entry.<field> & MASK` inside the struct.pack call of `write_cache_entry` (none = packed unmasked) -/
def devMask : Option Nat := {_opt(masks['dev'])}
def inoMask : Option Nat := {_opt(masks['ino'])}
def modeMask : Option Nat := {_opt(masks['mode'])}
def uidMask : Option Nat := {_opt(masks['uid'])}
def gidMask : Option Nat := {_opt(masks['gid'])}
def sizeMask : Option Nat := {_opt(masks['size'])}
/-- `(f.tell() - beginoffset + A) & ~M` -/
def padAddWrite : Nat := {w_pad[0]}
def padMaskWrite : Nat := {w_pad[1]}
def padAddRead : Nat := {r_pad[0]}
def padMaskRead : Nat := {r_pad[1]}
/-- version thresholds: write_cache_entry `version >= A`, `version < B`, `version >= C` -/
def wCompressFrom : Nat := {w_cmp[0][1]}
def wExtendedFrom : Nat := {w_cmp[1][1]}
def wCompressFrom2 : Nat := {w_cmp[2][1]}
/-- read_cache_entry `version < A` (extended flag), `version >= B` (compressed), `version < C` (padding) -/
def rExtendedFrom : Nat := {r_cmp[0][1]}
def rCompressFrom : Nat := {r_cmp[1][1]}
def rPadBelow : Nat := {r_cmp[2][1]}
/-- write_index: `if uses_extended_flags and version < A: version = B` -/
def bumpBelow : Nat := {wi_cmp[0][1]}
def bumpTo : Nat := {bump}
/-- stage numbers written for (ancestor, this, other, plain value) by write_index_dict, in that order -/
def writeStageOrder : List Nat := {[v for _, v in order]}
/-- stage numbers read into (normal, ancestor, this, other) by read_index_dict_with_version -/
def readStageNormal : Nat := {slots['normal']}
def readStageAncestor : Nat := {slots['ancestor']}
def readStageThis : Nat := {slots['this']}
def readStageOther : Nat := {slots['other']}
/-- extension loop: `current_pos >= eof_pos - T`; signature bytes must satisfy `LO <= b <= HI` -/
def trailerLen : Nat := {trailer}
def sigLo : Nat := {sig_lo}
def sigHi : Nat := {sig_hi}
/-- Index.write: skip-hash trailer length; Index.read: `check_sha(allow_empty=..)`; check_sha reads N bytes -/
def skipHashZeros : Nat := {len(zeros)}
def allowEmpty : Bool := {'true' if allow else 'false'}
def shaReadLen : Nat := {sha_read}
end Dulwich.Gen.Index
"""
    return {"Index": src}


# ------------------------------------------------------------------------------------------------
# case encoding (JSON-able <-> model tokens <-> real dulwich objects)
#
# time   : int | [sec, nsec] | {"f": float}
# entry  : {"ctime","mtime","dev","ino","mode","uid","gid","size","sha"(40 hex chars),"flags","ext"}
# item   : [keyhex, "N", entry] | [keyhex, "C", entry|None, entry|None, entry|None]
# ext    : [sighex, datahex]
# index case: {"version": int|None, "skip_hash": bool, "items": [...], "exts": [...]}

U32 = 1 << 32
SHA_EMPTY = "e69de29bb2d1d6434b8b29ae775ad8c2e48c5391"
KNOWN_SIGS = (b"TREE", b"REUC", b"UNTR", b"sdir")


def float_pair(t: float):
    """The (sec, nsec) CPython computes in write_cache_time for a float (outside the Lean model)."""
    secs, nsecs = divmod(t, 1.0)
    return int(secs), int(nsecs * 1000000000)


def time_for_model(t):
    if isinstance(t, dict):
        return list(float_pair(t["f"]))
    return t


def tok_time(t) -> str:
    t = time_for_model(t)
    if isinstance(t, int):
        return f"t{t}"
    return f"{t[0]},{t[1]}"


def tok_entry(e: dict, name: bytes = b"") -> str:
    return ":".join([hx(name), tok_time(e["ctime"]), tok_time(e["mtime"]), str(e["dev"]), str(e["ino"]), str(e["mode"]),
                     str(e["uid"]), str(e["gid"]), str(e["size"]), e["sha"], str(e["flags"]), str(e["ext"])])


def tok_item(it) -> str:
    if it[1] == "N":
        return f"{it[0]}|N|{tok_entry(it[2])}"
    return f"{it[0]}|C|" + "|".join("_" if e is None else tok_entry(e) for e in it[2:5])


def model_negative(e: dict) -> bool:
    """Negative numbers are outside the model (Nat)."""
    def neg_t(t):
        t = time_for_model(t)
        return t < 0 if isinstance(t, int) else (t[0] < 0 or t[1] < 0)
    return neg_t(e["ctime"]) or neg_t(e["mtime"]) or any(e[k] < 0 for k in ("dev", "ino", "mode", "uid", "gid", "size", "flags", "ext"))


def py_time(t):
    if isinstance(t, dict):
        return t["f"]
    if isinstance(t, list):
        return tuple(t)
    return t


def py_index_entry(e: dict):
    from dulwich.index import IndexEntry
    return IndexEntry(py_time(e["ctime"]), py_time(e["mtime"]), e["dev"], e["ino"], e["mode"], e["uid"], e["gid"],
                      e["size"], e["sha"].encode(), e["flags"], e["ext"])


def py_serialized(e: dict, name: bytes):
    from dulwich.index import SerializedIndexEntry
    return SerializedIndexEntry(name, py_time(e["ctime"]), py_time(e["mtime"]), e["dev"], e["ino"], e["mode"], e["uid"],
                                e["gid"], e["size"], e["sha"].encode(), e["flags"], e["ext"])


def py_value(it):
    from dulwich.index import ConflictedIndexEntry
    if it[1] == "N":
        return py_index_entry(it[2])
    return ConflictedIndexEntry(*[None if e is None else py_index_entry(e) for e in it[2:5]])


def py_ext(x):
    from dulwich.index import IndexExtension
    sig, data = unhx(x[0]), unhx(x[1])
    if sig in KNOWN_SIGS:
        return IndexExtension.from_raw(sig, data)   # what a read produces (TREE/REUC/sdir parse to nothing)
    return IndexExtension(sig, data)


def canon_time(t):
    if isinstance(t, tuple):
        return f"{t[0]},{t[1]}"
    return f"t{t}" if isinstance(t, int) else repr(t)


def canon_real_entry(e, name: bytes) -> str:
    """Real IndexEntry/SerializedIndexEntry -> the model's entry token."""
    sha = e.sha.decode() if isinstance(e.sha, bytes) else str(e.sha)
    return ":".join([hx(name), canon_time(e.ctime), canon_time(e.mtime), str(e.dev), str(e.ino), str(e.mode), str(e.uid),
                     str(e.gid), str(e.size), sha, str(e.flags), str(e.extended_flags)])


def canon_real_item(k: bytes, v) -> str:
    from dulwich.index import ConflictedIndexEntry
    if isinstance(v, ConflictedIndexEntry):
        return f"{hx(k)}|C|" + "|".join("_" if e is None else canon_real_entry(e, k) for e in (v.ancestor, v.this, v.other))
    return f"{hx(k)}|N|{canon_real_entry(v, k)}"


EXC_MAP = {"error": "struct", "ValueError": "value", "AssertionError": "assertion", "ChecksumMismatch": "checksum",
           "UnsupportedIndexFormat": "unsupported"}


def exc_kind(ex: BaseException) -> str:
    return "err " + EXC_MAP.get(type(ex).__name__, "py:" + type(ex).__name__)


# ------------------------------------------------------------------------------------------------
# real-code adapters (in-process: pure Python, cannot kill the interpreter)

def real_write_entry(v: int, prev: bytes, e: dict, name: bytes) -> str:
    from dulwich.index import write_cache_entry
    f = io.BytesIO()
    try:
        write_cache_entry(f, py_serialized(e, name), v, prev)
    except Exception as ex:
        return exc_kind(ex)
    return "ok " + hx(f.getvalue())


def real_read_entry(v: int, prev: bytes, data: bytes) -> str:
    from dulwich.index import read_cache_entry
    f = io.BytesIO(data)
    try:
        e = read_cache_entry(f, v, prev)
    except Exception as ex:
        return exc_kind(ex)
    return f"ok {canon_real_entry(e, e.name)} {hx(data[f.tell():])}"


def real_index_write(path: Path, case: dict):
    """Index.write() on `path` -> ('ok', file bytes) | ('err', kind)."""
    from dulwich.index import Index
    idx = Index(str(path), read=False, skip_hash=case["skip_hash"], version=case["version"])
    for it in case["items"]:
        idx[unhx(it[0])] = py_value(it)
    idx._extensions = [py_ext(x) for x in case["exts"]]
    try:
        idx.write()
    except Exception as ex:
        return "err", exc_kind(ex)
    return "ok", path.read_bytes()


def real_write_index_dict(case: dict) -> str:
    from dulwich.index import write_index_dict
    f = io.BytesIO()
    try:
        write_index_dict(f, {unhx(it[0]): py_value(it) for it in case["items"]}, version=case["version"],
                         extensions=[py_ext(x) for x in case["exts"]])
    except Exception as ex:
        return exc_kind(ex)
    return "ok " + hx(f.getvalue())


def real_index_read(path: Path):
    """Index(path) -> ('ok', [(key, value)], version, [(sig, payload)]) | ('err', kind)"""
    from dulwich.index import Index
    try:
        idx = Index(str(path))
    except Exception as ex:
        return ("err", exc_kind(ex))
    return ("ok", list(idx.items()), idx._version, [(x.signature, x.to_bytes()) for x in idx._extensions])


def canon_read(r) -> str:
    if r[0] == "err":
        return r[1]
    _, items, ver, exts = r
    return (f"ok {ver} {len(items)}" + "".join(" " + canon_real_item(k, v) for k, v in items) +
            f" {len(exts)}" + "".join(f" {hx(s)}:{hx(d)}" for s, d in exts))


def model_windex_line(mode: int, case: dict) -> str:
    ver = "-" if case["version"] is None else str(case["version"])
    exts = [f"{x[0]}:{x[1]}" for x in _effective_exts(case)]
    return " ".join([f"c11.windex {mode} {ver} {len(exts)}"] + exts + [tok_item(it) for it in case["items"]])


def _effective_exts(case):
    """(sig, to_bytes()) as the real objects built by py_ext would report."""
    out = []
    for x in case["exts"]:
        sig = unhx(x[0])
        if sig in (b"TREE", b"REUC", b"sdir"):
            out.append([x[0], "-"])
        else:
            out.append([x[0], x[1]])
    return out


# ------------------------------------------------------------------------------------------------
# the property's own words: what must come back (independent of the model and of the code)

FLAG_EXTENDED = 0x4000
NAMEMASK = 0x0FFF
STAGEMASK = 0x3000


def expect_time(t):
    """-> ('pair', s, n) exact | ('float', t)"""
    if isinstance(t, dict):
        return ("float", t["f"])
    if isinstance(t, int):
        return ("pair", t, 0)
    return ("pair", t[0], t[1])


def time_matches(exp, got) -> bool:
    if not isinstance(got, tuple) or len(got) != 2:
        return False
    if exp[0] == "pair":
        return got == (exp[1], exp[2])
    import math
    t = exp[1]
    sec = math.floor(t)
    return got[0] == sec and abs(got[1] - (t - sec) * 1e9) <= 1.0 and 0 <= got[1] < 1000000000


def expected_entry(e: dict, stage: int):
    """Normal form the index format can hold (git's own narrowing: 32-bit truncation of dev/ino/size)."""
    flags = (e["flags"] & 0xF000 & ~STAGEMASK) | (stage << 12)
    if e["ext"]:
        flags |= FLAG_EXTENDED
    return {"ctime": expect_time(e["ctime"]), "mtime": expect_time(e["mtime"]), "dev": e["dev"] % U32, "ino": e["ino"] % U32,
            "mode": e["mode"], "uid": e["uid"], "gid": e["gid"], "size": e["size"] % U32, "sha": e["sha"],
            "flags": flags, "ext": e["ext"]}


def expected_flat(case: dict):
    """[(name, stage, expected entry)] in git's order: path bytes, then stage."""
    out = []
    for it in sorted(case["items"], key=lambda it: unhx(it[0])):
        k = unhx(it[0])
        if it[1] == "N":
            out.append((k, 0, expected_entry(it[2], 0)))
        else:
            for st, e in zip((1, 2, 3), it[2:5]):
                if e is not None:
                    out.append((k, st, expected_entry(e, st)))
    return out


def expected_version(case: dict) -> int:
    v = 2 if case["version"] is None else case["version"]
    uses_ext = any(e[2]["ext"] for e in expected_flat(case))
    return max(v, 3) if uses_ext else v


def real_flat(items):
    """real dict items -> [(name, stage, IndexEntry)] in dict order"""
    from dulwich.index import ConflictedIndexEntry
    out = []
    for k, v in items:
        if isinstance(v, ConflictedIndexEntry):
            for st, e in zip((1, 2, 3), (v.ancestor, v.this, v.other)):
                if e is not None:
                    out.append((k, st, e))
        else:
            out.append((k, 0, v))
    return out


def entry_diff(exp: dict, got) -> str | None:
    if not time_matches(exp["ctime"], got.ctime):
        return f"ctime {got.ctime!r} != {exp['ctime']}"
    if not time_matches(exp["mtime"], got.mtime):
        return f"mtime {got.mtime!r} != {exp['mtime']}"
    for k, a in (("dev", got.dev), ("ino", got.ino), ("mode", got.mode), ("uid", got.uid), ("gid", got.gid),
                 ("size", got.size), ("flags", got.flags), ("ext", got.extended_flags)):
        if exp[k] != a:
            return f"{k} {a} != {exp[k]}"
    if exp["sha"].encode() != bytes(got.sha):
        return f"sha {got.sha!r} != {exp['sha']}"
    return None


def time_in_u32(t) -> bool:
    if isinstance(t, dict):
        f = t["f"]
        return 0 <= f < U32
    if isinstance(t, int):
        return 0 <= t < U32
    return 0 <= t[0] < U32 and 0 <= t[1] < U32


def case_entries(case):
    for it in case["items"]:
        for e in it[2:]:
            if isinstance(e, dict):
                yield unhx(it[0]), e


def v4_strip_ge_128(case) -> bool:
    """v4 prefix compression has to remove >= 128 bytes from the previous path somewhere."""
    if expected_version(case) < 4:
        return False
    prev = b""
    for k, _, _ in expected_flat(case):
        c = 0
        while c < min(len(k), len(prev)) and k[c] == prev[c]:
            c += 1
        if len(prev) - c >= 128:
            return True
        prev = k
    return False


def classify_index_case(case: dict, for_git: bool = False) -> str | None:
    """Narrow failing-input class of an index case (input properties only), by priority."""
    ents = list(case_entries(case))
    if any(e["size"] >= U32 for _, e in ents):
        return "size>=2^32"
    if any(not time_in_u32(e["ctime"]) or not time_in_u32(e["mtime"]) for _, e in ents):
        return "time-out-of-u32"
    if any(len(k) >= 0x1000 for k, _ in ents):
        return "name_len>=4096"
    if any(not (len(unhx(x[0])) == 4 and all(65 <= b <= 90 for b in unhx(x[0]))) for x in case["exts"]
           if unhx(x[1]) and unhx(x[0]) not in (b"TREE", b"REUC", b"sdir")):
        return "ext-sig-not-upper"
    if for_git and v4_strip_ge_128(case):
        return "v4-strip>=128"
    return None


def in_quantifier(case: dict) -> bool:
    """Inputs the property quantifies over (everything else is correspondence-only)."""
    for k, e in case_entries(case):
        if b"\0" in k or not k:
            return False
        if not all(0 <= e[f] < U32 for f in ("mode", "uid", "gid")):
            return False
        if e["dev"] < 0 or e["ino"] < 0 or e["size"] < 0:
            return False
        if not 0 <= e["flags"] < 0x10000 or not 0 <= e["ext"] < 0x10000:
            return False
        if e["flags"] & FLAG_EXTENDED and not e["ext"]:
            return False      # "extended" bit without extended flags: not an entry git or dulwich produces
        if len(e["sha"]) != 40:
            return False
    for x in case["exts"]:
        if len(unhx(x[0])) != 4:
            return False
    return True


def oracle_roundtrip(ctx, stream: str, case: dict, path: Path, prior: bytes | None) -> bool:
    """Real Index.write -> Index(path) on `case`; reports through ctx.oracle_fail.  Returns True when the
    statement held.  `prior`: previous contents of `path` (None = did not exist)."""
    st, out = real_index_write(path, case)
    if st == "err":
        now = path.read_bytes() if path.exists() else None
        if prior is not None and now != prior:
            ctx.oracle_fail(stream, case, f"Index.write raised ({out}) and replaced the existing index file "
                            f"({len(prior)} -> {0 if now is None else len(now)} bytes)", "failed-write-replaces-index")
        ctx.oracle_fail(stream, case, f"Index.write raised {out}", classify_index_case(case))
        return False
    r = real_index_read(path)
    if r[0] == "err":
        ctx.oracle_fail(stream, case, f"Index(path) after Index.write raised {r[1]}", classify_index_case(case))
        return False
    _, items, ver, exts = r
    exp = expected_flat(case)
    got = real_flat(items)
    what = None
    if [(k, s) for k, s, _ in got] != [(k, s) for k, s, _ in exp]:
        what = (f"entries (name, stage) read back differ or are out of git's order: got "
                f"{[(k[:24], len(k), s) for k, s, _ in got][:6]} expected {[(k[:24], len(k), s) for k, s, _ in exp][:6]}")
    else:
        for (k, s, e), (_, _, g) in zip(exp, got):
            d = entry_diff(e, g)
            if d:
                what = f"entry {k[:40]!r} stage {s}: {d}"
                break
    if what is None and ver != expected_version(case):
        what = f"version read back {ver} != {expected_version(case)}"
    if what is None:
        exp_x = [(unhx(x[0]), unhx(x[1])) for x in case["exts"] if unhx(x[0]) not in KNOWN_SIGS]
        got_x = [(s, d) for s, d in exts if s not in KNOWN_SIGS]
        if exp_x != got_x:
            if [x for x in exp_x if x[1]] == got_x:
                ctx.oracle_fail(stream, case, "unknown extension with an empty payload is dropped by Index.write",
                                "unknown-ext-empty-payload")
                return False
            what = f"unknown extensions not kept: {got_x} != {exp_x}"
    if what is None and not case["skip_hash"]:
        raw = path.read_bytes()
        if hashlib.sha1(raw[:-20]).digest() != raw[-20:]:
            what = "trailing checksum is not the SHA-1 of the preceding bytes"
    if what is not None:
        ctx.oracle_fail(stream, case, what, classify_index_case(case))
        return False
    return True


# ------------------------------------------------------------------------------------------------
# C git as third party

class Git:
    def __init__(self, ctx):
        self.ctx = ctx
        self.env = core.clean_env()
        self.dir = ctx.scratch / "gitrepo"
        self.n = 0
        self.calls = 0
        self.run(["git", "init", "-q", str(self.dir)], cwd=ctx.scratch)

    def run(self, cmd, cwd=None, inp=None, env=None, check=True):
        self.calls += 1
        p = subprocess.run(cmd, cwd=cwd or self.dir, input=inp, env=env or self.env, stdout=subprocess.PIPE,
                           stderr=subprocess.PIPE, timeout=120)
        if check and p.returncode != 0:
            raise core.InfraError(f"git command failed: {cmd}: {p.stderr[-500:]!r}")
        return p

    def fresh(self) -> Path:
        """A new empty repository with a work tree."""
        self.n += 1
        d = self.ctx.scratch / f"g{self.n}"
        self.run(["git", "init", "-q", str(d)], cwd=self.ctx.scratch)
        return d

    def ls(self, index_path: Path, repo: Path | None = None, sparse=False):
        """git ls-files --stage --debug -z -> (rc, [(name, stage, mode, sha, ctime, mtime, dev, ino, uid, gid, size, flags)], stderr)"""
        env = dict(self.env, GIT_INDEX_FILE=str(index_path))
        cmd = ["git", "ls-files", "--stage", "--debug", "-z"] + (["--sparse"] if sparse else [])
        p = self.run(cmd, cwd=repo or self.dir, env=env, check=False)
        if p.returncode != 0:
            return p.returncode, [], p.stderr
        return 0, parse_ls(p.stdout), p.stderr


import re  # noqa: E402

_LS_RE = re.compile(rb"(\d+) ([0-9a-f]{40}) (\d)\t([^\x00]*)\x00  ctime: (\d+):(\d+)\n  mtime: (\d+):(\d+)\n"
                    rb"  dev: (\d+)\tino: (\d+)\n  uid: (\d+)\tgid: (\d+)\n  size: (\d+)\tflags: ([0-9a-f]+)\n")


def parse_ls(out: bytes):
    res, pos = [], 0
    while pos < len(out):
        m = _LS_RE.match(out, pos)
        if not m:
            raise core.InfraError(f"cannot parse git ls-files --debug output at {pos}: {out[pos:pos + 120]!r}")
        g = m.groups()
        res.append((g[3], int(g[2]), int(g[0], 8), g[1].decode(), (int(g[4]), int(g[5])), (int(g[6]), int(g[7])),
                    int(g[8]), int(g[9]), int(g[10]), int(g[11]), int(g[12]), int(g[13], 16)))
        pos = m.end()
    return res


def git_tuple_expected(k: bytes, st: int, e: dict):
    """what git must list for an expected entry (float times: compared separately)"""
    return (k, st, e["mode"], e["sha"], e["ctime"], e["mtime"], e["dev"], e["ino"], e["uid"], e["gid"], e["size"],
            e["flags"] | (e["ext"] << 16))


def git_tuple_real(k: bytes, st: int, e):
    """what git lists, for a real dulwich entry read from a git-written file"""
    return (k, st, e.mode, bytes(e.sha).decode(), tuple(e.ctime), tuple(e.mtime), e.dev, e.ino, e.uid, e.gid, e.size,
            e.flags | (e.extended_flags << 16))


def oracle_git_lists(ctx, git: Git, stream: str, case: dict, path: Path) -> bool:
    """C git lists the same entries from the index dulwich wrote at `path`."""
    rc, listed, err = git.ls(path)
    cls = classify_index_case(case, for_git=True)
    if rc != 0:
        ctx.oracle_fail(stream, case, f"C git cannot read the index dulwich wrote: {err[:160]!r}", cls)
        return False
    exp = expected_flat(case)
    if len(listed) != len(exp):
        ctx.oracle_fail(stream, case, f"C git lists {len(listed)} entries, expected {len(exp)}", cls)
        return False
    for (k, st, e), g in zip(exp, listed):
        t = git_tuple_expected(k, st, e)
        ok = t[:4] == g[:4] and t[6:] == g[6:] and time_matches(e["ctime"], g[4]) and time_matches(e["mtime"], g[5])
        if not ok:
            ctx.oracle_fail(stream, case, f"C git lists {g[:3]}.. flags {g[-1]:x} for expected {t[:3]}.. flags {t[-1]:x} "
                            f"(name lengths {len(g[0])}/{len(k)})", cls)
            return False
    return True
