"""C10 — maintenance never loses reachable objects; readers survive concurrent repacks.

Model: lean/DulwichModel/Model/GC.lean (logical store, reachability worklist, repack/pack_loose/prune/gc) and
Model/Reader.lean (a reader's lookup / iteration as a small-step program interleaved with a repacker's
file-system actions); theorems: Props/C10.lean (lemmas in Lemmas/GC.lean, Lemmas/Reader.lean).

Tie:
  translate()  regenerates Gen/GC.lean: _MAX_PACK_RESCAN_ATTEMPTS, the grace-period defaults, the probe order of
               get_raw / __contains__ (and whether the packs are probed again after a loose miss), and the
               file-system programs of repack / pack_loose_objects / garbage_collect RECORDED from the real code on
               a canonical scenario (Props proves `checkProgram` of them by `decide`).
  logical      random repositories + maintenance sequences on the real code; after each step
               (a) direct oracle in the property's words (closure of refs+HEAD still readable, identical type+bytes;
                   whatever disappeared was unreachable and older than the grace period),
               (b) model vs real: loose set, packs as id sets, returned pruned sets.
  stale.maint  maintenance ops from a LONG-LIVED handle (packs cached / mmapped) after ANOTHER process (C git: branch
               deletion + gc --prune=now + branch restored, repack -ad, repack + prune-packed, gc; a second dulwich
               handle) has changed the pack directory; oracle as in `logical`, by a fresh store and by C git (cat-file,
               fsck), whether the op returned or raised; model vs real with the handle's view of the packs (cached
               entries whose files are gone included): resulting layout and whether PackFileDisappeared was raised.
  sched.writer a maintenance actor (repack, pack_loose_objects, gc grace 0/None/3600, porcelain.gc) interleaved at
               system-call granularity (blocks end at pack-directory listings / renames / unlinks; <= 2 pre-emptions
               exhaustive, random beyond) with a WRITER (add_objects / add_pack()+commit / add_thin_pack / a local fetch by a
               second Repo, then set_if_equals of a ref; in thorough a real `git fetch` / `git push` process between
               maintenance blocks); oracle after both finished: every ref's closure readable by a fresh store, git fsck
               --connectivity-only clean, nothing gone that was reachable or young when maintenance started, the
               writer's objects not gone (except the exempted no-grace prune of objects not yet referenced at scan
               time); model vs real: the repack procedure of the Lean model (removal targets = snapshot) on the
               abstracted run.
  sched.refs   gc / prune_unreachable_objects / repack(exclude=unreachable) interleaved with a ref packer (dulwich
               pack_refs(all=True) as an actor, `git pack-refs --all --prune` as a process before each read) at every
               read of refs/, packed-refs and HEAD; refs loose-only / packed-only / both, each with an otherwise
               unreachable closure; oracle: every ref keeps its value and its closure stays readable, git fsck
               --connectivity-only clean; model: per ref, roots = union of the views read (c10.roots).
  gc.config    gc.pruneExpire in {unset, now, never, N.units.ago, yesterday, dates, 0, garbage, ...} in the repository's
               config, an included file and the global config, through porcelain.gc(), the CLI `gc` and
               get_prune_grace_period(); oracle: nothing younger than the expiry the value denotes TO GIT (git config
               --type=expiry-date) disappears, an error removes nothing; model vs real: graceOf vs the real function.
  scheduler    reader actor(s) (store[id], id in store, iteration) interleaved at system-call granularity with a
               repacking actor (harness/sched.py); oracle: an object that exists throughout is never reported
               missing; model vs real: the sequence of system calls with outcomes, result and pack cache of every
               lookup (Lean replay of the same schedule).
"""
from __future__ import annotations

import ast
import json
import os
import shutil
import subprocess
import sys
import time
from pathlib import Path

from .. import core, translate as T

MOD = "c10"
GIT_DEFAULT_GRACE = 14 * 24 * 3600  # "2 weeks": the documented default of `gc` (git's gc.pruneExpire)


# ------------------------------------------------------------------------------------------------
# translator

ACT = {"installData": 0, "installIdx": 1, "removeData": 2, "removeIdx": 3, "addLoose": 4, "delLoose": 5}


def _probe_order(fn: ast.AST, what: str):
    """Order (by source position) in which a lookup consults packs (0), the loose file (1), alternates (2)."""
    marks = []
    for n in ast.walk(fn):
        if isinstance(n, ast.Call) and isinstance(n.func, ast.Attribute):
            a = n.func.attr
            if a in ("_lookup_in_packs", "contains_packed"):
                marks.append((n.lineno, n.col_offset, 0))
            elif a in ("_get_loose_object", "contains_loose"):
                marks.append((n.lineno, n.col_offset, 1))
        if isinstance(n, ast.For) and isinstance(n.iter, ast.Attribute) and n.iter.attr == "alternates":
            marks.append((n.lineno, n.col_offset, 2))
    order = [k for _, _, k in sorted(marks)]
    if sorted(set(order)) != [0, 1, 2]:
        raise T.TranslateError(f"{what}: expected probes of packs, loose and alternates, found {order}")
    return order


def _default_of(fn: ast.FunctionDef, arg: str, tree):
    args = fn.args.args
    defaults = fn.args.defaults
    off = len(args) - len(defaults)
    for i, a in enumerate(args):
        if a.arg == arg and i >= off:
            return T.eval_literal(defaults[i - off], tree)
    raise T.TranslateError(f"{fn.name}: no default for {arg}")


def translate(repo: Path) -> dict:
    os_tree = T.module_ast(repo / "dulwich" / "object_store.py")
    gc_tree = T.module_ast(repo / "dulwich" / "gc.py")
    max_rescan = T.const_value(os_tree, "_MAX_PACK_RESCAN_ATTEMPTS")
    lip = T.find_def(os_tree, "PackBasedObjectStore._lookup_in_packs")
    uses = [n for n in ast.walk(lip) if isinstance(n, ast.For) and isinstance(n.iter, ast.Call)
            and getattr(n.iter.func, "id", None) == "range" and len(n.iter.args) == 1
            and isinstance(n.iter.args[0], ast.Name) and n.iter.args[0].id == "_MAX_PACK_RESCAN_ATTEMPTS"]
    if len(uses) != 1:
        raise T.TranslateError("_lookup_in_packs: `for _ in range(_MAX_PACK_RESCAN_ATTEMPTS)` not found")
    if not isinstance(max_rescan, int) or max_rescan < 0:
        raise T.TranslateError(f"_MAX_PACK_RESCAN_ATTEMPTS = {max_rescan!r}")
    tmp_grace = T.const_value(os_tree, "DEFAULT_TEMPFILE_GRACE_PERIOD")
    prune_expire = T.const_value(gc_tree, "DEFAULT_GC_PRUNE_EXPIRE")
    gc_default = _default_of(T.find_def(gc_tree, "garbage_collect"), "grace_period", gc_tree)
    if gc_default is None:
        raise T.TranslateError("garbage_collect: default grace_period is None (model expects a number)")
    get_raw = T.find_def(os_tree, "PackBasedObjectStore.get_raw")
    order = _probe_order(get_raw, "PackBasedObjectStore.get_raw")
    reprobe = order.count(0) >= 2 and order.index(1) < len(order) - 1 - order[::-1].index(0)
    contains = T.find_def(os_tree, "PackBasedObjectStore.__contains__")
    corder = _probe_order(contains, "PackBasedObjectStore.__contains__")
    creprobe = corder.count(0) >= 2 and corder.index(1) < len(corder) - 1 - corder[::-1].index(0)
    # __iter__: is the pack directory scanned again after the loose listing?
    it = T.find_def(os_tree, "PackBasedObjectStore.__iter__")
    loose_at = [n.lineno for n in ast.walk(it) if isinstance(n, ast.Call) and isinstance(n.func, ast.Attribute)
                and n.func.attr == "_iter_loose_objects"]
    scans_at = [n.lineno for n in ast.walk(it) if isinstance(n, ast.Call) and isinstance(n.func, ast.Attribute)
                and n.func.attr == "_update_pack_cache"]
    if len(loose_at) != 1 or not scans_at or min(scans_at) > loose_at[0]:
        raise T.TranslateError(f"__iter__: expected a pack scan before one loose listing (scans {scans_at}, loose {loose_at})")
    iter_rescan = any(x > loose_at[0] for x in scans_at)
    # get_object_mtime: most recent copy?
    gom = T.find_def(os_tree, "DiskObjectStore.get_object_mtime")
    uses_max = any(isinstance(n, ast.Call) and isinstance(n.func, ast.Name) and n.func.id == "max" for n in ast.walk(gom))
    n_getmtime = sum(1 for n in ast.walk(gom) if isinstance(n, ast.Attribute) and n.attr == "getmtime")
    if n_getmtime != 2:
        raise T.TranslateError(f"get_object_mtime: expected two getmtime calls (loose file, pack), found {n_getmtime}")
    # _complete_pack: does the 'already packed' branch refresh the kept pack's mtime?
    cp = T.find_def(os_tree, "DiskObjectStore._complete_pack")
    branch = None
    for n in ast.walk(cp):
        if isinstance(n, ast.If) and isinstance(n.test, ast.Compare) and isinstance(n.test.comparators[0], ast.Name) \
                and n.test.comparators[0].id == "pack_name":
            branch = n
    if branch is None:
        raise T.TranslateError("_complete_pack: `if pack.name() == pack_name` not found")
    refreshes = any(isinstance(n, ast.Attribute) and n.attr == "utime" for n in ast.walk(branch))
    # repack(): does the removal loop iterate a variable bound BEFORE the copy (the snapshot), not a fresh listing?
    rp = T.find_def(os_tree, "PackBasedObjectStore.repack")
    copy_at = [n.lineno for n in ast.walk(rp) if isinstance(n, ast.Call) and isinstance(n.func, ast.Attribute)
               and n.func.attr == "add_objects"]
    loops = [n for n in ast.walk(rp) if isinstance(n, ast.For) and any(
        isinstance(c, ast.Call) and isinstance(c.func, ast.Attribute) and c.func.attr == "_remove_pack" for c in ast.walk(n))]
    if len(copy_at) != 1 or len(loops) != 1:
        raise T.TranslateError(f"repack: expected one add_objects call and one removal loop ({copy_at}, {len(loops)})")
    it_names = {n.id for n in ast.walk(loops[0].iter) if isinstance(n, ast.Name)} - {"self"}
    fresh = any((isinstance(n, ast.Attribute) and n.attr in ("packs", "_pack_cache")) or
                (isinstance(n, ast.Call) and isinstance(n.func, ast.Attribute) and
                 n.func.attr in ("_update_pack_cache", "_iter_cached_packs")) for n in ast.walk(loops[0].iter))
    bound = [n.lineno for n in ast.walk(rp) if isinstance(n, (ast.Assign, ast.AnnAssign))
             for t in (n.targets if isinstance(n, ast.Assign) else [n.target]) if isinstance(t, ast.Name) and t.id in it_names]
    snapshot_only = bool(it_names) and not fresh and bool(bound) and max(bound) < copy_at[0] < loops[0].lineno
    # ---- enumeration of the roots: read order of the ref storage
    refs_tree = T.module_ast(repo / "dulwich" / "refs.py")

    def first_call_line(fn, attr):
        ls = [n.lineno * 1000 + n.col_offset for n in ast.walk(fn) if isinstance(n, ast.Call)
              and isinstance(n.func, ast.Attribute) and n.func.attr == attr]
        if not ls:
            raise T.TranslateError(f"{fn.name}: no call of {attr}")
        return min(ls)
    ak = T.find_def(refs_tree, "DiskRefsContainer.allkeys")
    allkeys_loose_first = first_call_line(ak, "_iter_loose_refs") < first_call_line(ak, "get_packed_refs")
    rr = T.find_def(refs_tree, "RefsContainer.read_ref")
    readref_loose_first = first_call_line(rr, "read_loose_ref") < first_call_line(rr, "get_packed_refs")
    fro = T.find_def(gc_tree, "find_reachable_objects")
    enum_calls = {n.func.attr for n in ast.walk(fro) if isinstance(n, ast.Call) and isinstance(n.func, ast.Attribute)
                  and isinstance(n.func.value, ast.Name) and n.func.value.id == "refs_container"}
    roots_via_allkeys = enum_calls == {"allkeys"}
    # ---- gc.pruneExpire
    gp = T.find_def(gc_tree, "get_prune_grace_period")
    kw_table = []
    for n in ast.walk(gp):
        if isinstance(n, ast.If) and isinstance(n.test, ast.Compare) and len(n.test.ops) == 1 \
                and isinstance(n.test.ops[0], (ast.Eq, ast.In)) and isinstance(n.test.left, ast.Name) and n.test.left.id == "value":
            lits = T.eval_literal(n.test.comparators[0])
            lits = [lits] if isinstance(lits, str) else list(lits)
            rets = [b for b in n.body if isinstance(b, ast.Return)]
            if len(rets) != 1:
                raise T.TranslateError("get_prune_grace_period: keyword branch without a single return")
            try:
                rv = T.eval_literal(rets[0].value, gc_tree)
            except T.TranslateError:
                raise T.TranslateError("get_prune_grace_period: keyword branch returns a non-literal")
            if rv is not None and not (isinstance(rv, int) and rv >= 0):
                raise T.TranslateError(f"get_prune_grace_period: keyword branch returns {rv!r}")
            kw_table += [(k, rv) for k in lits]
    unset_default = None
    raises = True
    for n in ast.walk(gp):
        if isinstance(n, ast.Try):
            for h in n.handlers:
                names = {x.id for x in ast.walk(h.type) if isinstance(x, ast.Name)} if h.type is not None else {"*"}
                if "KeyError" in names and len(names) == 1:
                    rets = [b for b in h.body if isinstance(b, ast.Return)]
                    if len(rets) == 1:
                        unset_default = T.eval_literal(rets[0].value, gc_tree)
                else:
                    # a handler that could swallow the parser's ValueError
                    if any(isinstance(c, ast.Call) and getattr(c.func, "id", getattr(c.func, "attr", "")) == "parse_approxidate"
                           for b in n.body for c in ast.walk(b)) or names & {"ValueError", "Exception", "BaseException", "*"}:
                        raises = False
    if not isinstance(unset_default, int):
        raise T.TranslateError("get_prune_grace_period: default for an unset key not found")
    last = gp.body[-1]
    formula_ok = isinstance(last, ast.Return) and isinstance(last.value, ast.Call) and getattr(last.value.func, "id", "") == "max" \
        and len(last.value.args) == 2 and T.eval_literal(last.value.args[0]) == 0 \
        and "time.time() - timestamp" in ast.unparse(last.value.args[1])
    pg = T.find_def(T.module_ast(repo / "dulwich" / "porcelain" / "__init__.py"), "gc")
    fwd = False
    for n in ast.walk(pg):
        if isinstance(n, ast.If) and ast.unparse(n.test) == "grace_period is None" and len(n.body) == 1 \
                and isinstance(n.body[0], ast.Assign) and "get_prune_grace_period(" in ast.unparse(n.body[0].value) \
                and ast.unparse(n.body[0].targets[0]) == "grace_period":
            fwd = True
    gcall = [n for n in ast.walk(pg) if isinstance(n, ast.Call) and getattr(n.func, "id", "") == "garbage_collect"]
    fwd = fwd and len(gcall) == 1 and any(k.arg == "grace_period" and ast.unparse(k.value) == "grace_period" for k in gcall[0].keywords)
    cg = T.find_def(T.module_ast(repo / "dulwich" / "cli.py"), "cmd_gc.run")
    inits = [n for n in ast.walk(cg) if isinstance(n, (ast.Assign, ast.AnnAssign))
             and ast.unparse(n.targets[0] if isinstance(n, ast.Assign) else n.target) == "grace_period"]
    first = min(inits, key=lambda n: n.lineno) if inits else None
    pcall = [n for n in ast.walk(cg) if isinstance(n, ast.Call) and ast.unparse(n.func) == "porcelain.gc"]
    cli_ok = first is not None and first.value is not None and ast.unparse(first.value) == "None" and len(pcall) == 1 \
        and any(k.arg == "grace_period" and ast.unparse(k.value) == "grace_period" for k in pcall[0].keywords) \
        and all(isinstance(getattr(n, "value", None), ast.AST) and (n is first or "parse_approxidate" in ast.unparse(cg) ) for n in inits)
    progs = _recorded_programs(repo)

    def lean_str(x):
        return '"' + x.replace("\\", "\\\\").replace('"', '\\"') + '"'

    def prog(name):
        return "[" + ", ".join(f"({a}, {b})" for a, b in progs[name]["prog"]) + "]"
    src = T.lean_header("dulwich/object_store.py: _MAX_PACK_RESCAN_ATTEMPTS, DEFAULT_TEMPFILE_GRACE_PERIOD, get_raw/__contains__ "
                        "probe order, recorded file-system programs of repack / pack_loose_objects; dulwich/gc.py: "
                        "DEFAULT_GC_PRUNE_EXPIRE, garbage_collect defaults and its recorded program") + f"""
namespace Dulwich.Gen.GC
/-- `_MAX_PACK_RESCAN_ATTEMPTS` (bound of the pass loop in `_lookup_in_packs`) -/
def maxPackRescanAttempts : Nat := {max_rescan}
/-- default `grace_period` argument of `garbage_collect` -/
def defaultGracePeriod : Nat := {gc_default}
/-- `DEFAULT_GC_PRUNE_EXPIRE` -/
def defaultPruneExpire : Nat := {prune_expire}
/-- `DEFAULT_TEMPFILE_GRACE_PERIOD` -/
def defaultTempfileGracePeriod : Nat := {tmp_grace}
/-- probes of `PackBasedObjectStore.get_raw` in source order: 0 = packs, 1 = loose file, 2 = alternates -/
def getRawProbeOrder : List Nat := {order}
/-- does `get_raw` look at the packs again after the loose miss? -/
def getRawReprobesPacks : Bool := {"true" if reprobe else "false"}
/-- probes of `PackBasedObjectStore.__contains__` -/
def containsProbeOrder : List Nat := {corder}
def containsReprobesPacks : Bool := {"true" if creprobe else "false"}
/-- does `__iter__` scan the pack directory again after the loose listing (and list the packs that appeared)? -/
def iterRescansAfterLoose : Bool := {"true" if iter_rescan else "false"}
/-- does `DiskObjectStore.get_object_mtime` return the most recent mtime over all copies? -/
def getObjectMtimeUsesMax : Bool := {"true" if uses_max else "false"}
/-- does `_complete_pack` refresh the mtime of an existing pack that already holds the objects? -/
def completePackRefreshesMtime : Bool := {"true" if refreshes else "false"}
/-- file-system program of `repack()` recorded from the real code on the canonical scenario (two old packs, two loose
objects, one of them also packed); (tag, argument) with tags 0 installData 1 installIdx 2 removeData 3 removeIdx
4 addLoose 5 delLoose; packs and objects numbered by first mutation -/
def repackProgram : List (Nat × Nat) := {prog("repack")}
def repackNewPack : Nat := {progs["repack"]["new"]}
/-- the loose objects (numbered as in the program) that end up in the new pack: their deletion must wait for it -/
def repackProtected : List Nat := {progs["repack"]["prot"]}
/-- `pack_loose_objects()` on the same scenario -/
def packLooseProgram : List (Nat × Nat) := {prog("packloose")}
def packLooseNewPack : Nat := {progs["packloose"]["new"]}
def packLooseProtected : List Nat := {progs["packloose"]["prot"]}
/-- `garbage_collect(repo, grace_period=0)` on the same scenario plus an unreachable loose and an unreachable packed object -/
def gcProgram : List (Nat × Nat) := {prog("gc")}
def gcNewPack : Nat := {progs["gc"]["new"]}
def gcProtected : List Nat := {progs["gc"]["prot"]}
/-- `repack()`'s removal loop iterates a variable bound before the copy (`old_packs`), not a fresh directory listing -/
def repackRemovesSnapshotOnly : Bool := {"true" if snapshot_only else "false"}
/-- `DiskRefsContainer.allkeys` reads the loose tree before packed-refs; `RefsContainer.read_ref` the loose file before
packed-refs; `find_reachable_objects` enumerates the roots with `allkeys()` only -/
def allkeysReadsLooseFirst : Bool := {"true" if allkeys_loose_first else "false"}
def readRefReadsLooseFirst : Bool := {"true" if readref_loose_first else "false"}
def gcRootsViaAllkeys : Bool := {"true" if roots_via_allkeys else "false"}
/-- `pack_refs(all=True)` on two loose refs, recorded: 0 = packed-refs renamed into place, 1 = a loose ref file removed -/
def packRefsProgram : List Nat := {progs["packrefs"]["prog"]}
/-- `get_prune_grace_period`: keywords it answers itself (`none` = the API's None), default for an unset key, whether an
unparsable value propagates as an error, whether the result is `max(0, now - timestamp)` -/
def pruneExpireKeywords : List (String × Option Nat) := [{", ".join("(" + lean_str(k) + ", " + ("none" if v is None else "some " + str(v)) + ")" for k, v in kw_table)}]
def pruneExpireUnsetDefault : Nat := {unset_default}
def pruneExpireUnparsableRaises : Bool := {"true" if raises else "false"}
def pruneExpireGraceIsNowMinusTimestamp : Bool := {"true" if formula_ok else "false"}
/-- `porcelain.gc` asks `get_prune_grace_period` when no grace period is given and passes the result on; the CLI passes
None unless `--prune` is given -/
def porcelainGcForwardsConfiguredGrace : Bool := {"true" if fwd else "false"}
def cliGcDefaultsToConfig : Bool := {"true" if cli_ok else "false"}
/-- the same recorded programs with the pack-directory listings (tag 6) in place -/
def repackProgramL : List (Nat × Nat) := {prog("repackL")}
def gcProgramL : List (Nat × Nat) := {prog("gcL")}
end Dulwich.Gen.GC
"""
    return {"GC": src}


def _recorded_programs(repo: Path) -> dict:
    """Run the real repack / pack_loose_objects / garbage_collect of `repo` once each in a child (own interposition,
    fixed hash seed) and return their file-system programs."""
    env = core.clean_env({"PYTHONPATH": os.pathsep.join([str(repo), str(core.VERIF)]), "PYTHONHASHSEED": "0"})
    scratch = Path(os.environ.get("VERIF_SCRATCH", "/var/tmp")) / f"dulwich-verif-c10rec-{os.getpid()}"
    try:
        p = subprocess.run([core.PY, "-c", "from harness.props import c10; c10._record_main()", str(scratch)],
                           env=env, stdout=subprocess.PIPE, stderr=subprocess.PIPE, timeout=300, text=True)
    finally:
        shutil.rmtree(scratch, ignore_errors=True)
    if p.returncode != 0:
        raise T.TranslateError("recording the repack programs failed: " + p.stderr[-600:])
    return json.loads(p.stdout.strip().splitlines()[-1])


def _abstract_program(events, objdir_rel="objects"):
    """Mutating events under objects/ -> [(tag, arg)], numbering packs and objects by first mutation.
    Returns (program, number of the first installed pack or 0)."""
    import re
    packs, objs, prog = {}, {}, []
    new = 0
    lists = []   # positions (in prog) before which a pack-directory listing happened

    def pk(name):
        return packs.setdefault(name, len(packs) + 1)

    def ob(hexid):
        return objs.setdefault(hexid, len(objs) + 1)
    for _who, call, paths, outcome in events:
        if outcome != "ok":
            continue
        dst = paths[-1] if paths else ""
        if call == "listdir" and dst == objdir_rel + "/pack":
            lists.append(len(prog))
            continue
        m = re.fullmatch(objdir_rel + r"/pack/((?:pack|loose)-[0-9a-f]+)\.(pack|idx)", dst or "")
        if call in ("rename", "replace") and m:
            prog.append((ACT["installData"] if m.group(2) == "pack" else ACT["installIdx"], pk(m.group(1))))
            if m.group(2) == "pack" and not new:
                new = pk(m.group(1))
            continue
        if call in ("remove", "unlink") and m:
            prog.append((ACT["removeData"] if m.group(2) == "pack" else ACT["removeIdx"], pk(m.group(1))))
            continue
        m = re.fullmatch(objdir_rel + r"/([0-9a-f]{2})/([0-9a-f]{38})", dst or "")
        if m and call in ("remove", "unlink"):
            prog.append((ACT["delLoose"], ob(m.group(1) + m.group(2))))
        elif m and call in ("rename", "replace"):
            prog.append((ACT["addLoose"], ob(m.group(1) + m.group(2))))
    progl = []
    for i, a in enumerate(prog + [None]):
        progl += [(6, 0)] * lists.count(i)
        if a is not None:
            progl.append(a)
    return prog, new, objs, packs, progl


def _record_main():
    """Child entry point of the translator (dulwich imported from the repo under translation)."""
    from harness import sched
    from dulwich.repo import Repo
    from dulwich.objects import Blob, Tree, Commit
    from dulwich.gc import garbage_collect
    scratch = Path(sys.argv[1])
    out = {}
    for name in ("repack", "packloose", "gc"):
        root = scratch / name
        shutil.rmtree(root, ignore_errors=True)
        root.mkdir(parents=True)
        r = Repo.init_bare(str(root))
        st = r.object_store
        b = [Blob.from_string(b"blob %d\n" % i) for i in range(6)]
        t = Tree()
        for i in (0, 1, 2, 3):
            t.add(b"f%d" % i, 0o100644, b[i].id)
        c = Commit()
        c.tree = t.id
        c.author = c.committer = b"a <a@example.com>"
        c.author_time = c.commit_time = 1
        c.author_timezone = c.commit_timezone = 0
        c.message = b"m"
        st.add_objects([(b[0], None), (b[1], None), (t, None)])          # old pack 1
        st.add_objects([(b[2], None), (c, None)] + ([(b[5], None)] if name == "gc" else []))  # old pack 2
        st.add_object(b[3])                                               # loose only
        st.add_object(b[1])                                               # loose and packed
        if name == "gc":
            st.add_object(b[4])                                           # unreachable loose
            old = time.time() - 3600
            for dp, _, fs in os.walk(root / "objects"):
                for f in fs:
                    os.utime(os.path.join(dp, f), (old, old))
        r.refs[b"refs/heads/main"] = c.id
        r.close()
        r = Repo(str(root))
        with sched.Recorder(str(root), reads=True) as rec:
            if name == "repack":
                r.object_store.repack()
            elif name == "packloose":
                r.object_store.pack_loose_objects()
            else:
                garbage_collect(r, grace_period=0)
        r.close()
        prog, new, objs, packs, progl = _abstract_program(rec.events)
        out[name + "L"] = {"prog": progl}
        newname = [n for n, k in packs.items() if k == new]
        in_new = _idx_ids(root / "objects" / "pack" / (newname[0] + ".idx")) if newname else set()
        out[name] = {"prog": prog, "new": new, "prot": sorted(k for h, k in objs.items() if h in in_new)}
    # pack_refs(all=True) on two loose refs
    root = scratch / "packrefs"
    shutil.rmtree(root, ignore_errors=True)
    root.mkdir(parents=True)
    r = Repo.init_bare(str(root))
    bl = Blob.from_string(b"ref target\n")
    r.object_store.add_object(bl)
    r.refs[b"refs/heads/a"] = bl.id
    r.refs[b"refs/tags/b"] = bl.id
    r.close()
    r = Repo(str(root))
    with sched.Recorder(str(root)) as rec:
        r.refs.pack_refs(all=True)
    r.close()
    pr = []
    for _who, call, paths, outcome in rec.events:
        dst = paths[-1] if paths else ""
        if outcome == "ok" and call in ("rename", "replace") and dst == "packed-refs":
            pr.append(0)
        elif outcome == "ok" and call in ("remove", "unlink") and (dst or "").startswith("refs/"):
            pr.append(1)
    out["packrefs"] = {"prog": pr}
    print(json.dumps(out))


# ------------------------------------------------------------------------------------------------
# logical stream: random repositories, maintenance sequences, oracle in the property's words, model vs real

AGES = [0, 1800, 7200, 13 * 86400, 15 * 86400, 365 * 86400]   # seconds before T0; all >= 600 s away from every grace value
GRACES = [0, 3600, None, "default", GIT_DEFAULT_GRACE]


class World:
    """Harness-side bookkeeping of one repository: the objects it created (type, bytes, children), refs and HEAD."""

    def __init__(self, rng, path: Path):
        self.rng = rng
        self.path = path
        self.objs = {}      # hex id (str) -> (type_num, raw bytes)
        self.sha = {}       # hex id -> ShaFile
        self.kids = {}      # hex id -> [hex id]
        self.num = {}       # hex id -> small int (model id)
        self.refs = {}      # ref name (bytes) -> hex id
        self.head = ("sym", b"refs/heads/main")
        self.alt_ids = set()
        self.alt_path = None
        self.t0 = int(time.time())
        self.touched = {}   # hex id -> time of the harness's last add_object() call for it (must count as a fresh write)
        self.touch_fresh = {}   # hex id -> did that call leave a loose file with a fresh mtime?

    # -- objects
    def n(self, hexid: str) -> int:
        return self.num.setdefault(hexid, len(self.num) + 1)

    def _reg(self, obj, kids):
        h = obj.id.decode()
        self.objs[h] = (obj.type_num, obj.as_raw_string())
        self.sha[h] = obj
        self.kids[h] = list(kids)
        self.n(h)
        for k in kids:
            self.n(k)
        return h

    def gen_objects(self):
        from dulwich.objects import Blob, Tree, Commit, Tag
        rng = self.rng
        salt = rng.getrandbits(32)
        blobs = [self._reg(Blob.from_string(b"blob %d %d\n" % (salt, i) + b"x" * rng.choice([0, 3, 200])), [])
                 for i in range(rng.randint(2, 7))]
        trees = []
        for i in range(rng.randint(1, 5)):
            t = Tree()
            kids = []
            for j in range(rng.randint(0, 4)):
                pool = blobs + (trees if trees and rng.random() < 0.4 else [])
                k = rng.choice(pool)
                mode = 0o040000 if k in trees else rng.choice([0o100644, 0o100755, 0o120000])
                t.add(b"e%d" % j, mode, k.encode())
                kids.append(k)
            if rng.random() < 0.15:   # gitlink: a commit of another repository, never present here
                gl = "%040x" % rng.getrandbits(160)
                t.add(b"sub", 0o160000, gl.encode())
                kids.append(gl)
            h = self._reg(t, kids)
            if h not in trees:
                trees.append(h)
        commits = []
        for i in range(rng.randint(1, 6)):
            c = Commit()
            c.tree = rng.choice(trees).encode()
            np = rng.choice([0, 1, 1, 1, 2, 3]) if commits else 0
            parents = rng.sample(commits, min(np, len(commits)))
            c.parents = [p.encode() for p in parents]
            c.author = c.committer = b"A U Thor <a@example.com>"
            c.author_time = c.commit_time = 1000 + i
            c.author_timezone = c.commit_timezone = 0
            c.message = b"commit %d %d\n" % (salt, i)
            commits.append(self._reg(c, [c.tree.decode()] + parents))
        tags = []
        for i in range(rng.randint(0, 3)):
            tg = Tag()
            target = rng.choice(commits + commits + trees + blobs + tags)
            tg.object = (type(self.sha[target]), target.encode())
            tg.name = b"t%d" % i
            tg.tagger = b"T <t@example.com>"
            tg.tag_time = 2000 + i
            tg.tag_timezone = 0
            tg.message = b"tag %d %d\n" % (salt, i)
            tags.append(self._reg(tg, [target]))
        self.blobs, self.trees, self.commits, self.tags = blobs, trees, commits, tags

    def closure(self, roots, present):
        """Brute-force closure over the harness's own children table; children of an object are followed only if
        the object itself is present (an absent object — gitlink target — has no readable children)."""
        seen, todo = set(), list(roots)
        while todo:
            x = todo.pop()
            if x in seen:
                continue
            seen.add(x)
            if x in present:
                todo.extend(self.kids.get(x, []))
        return seen

    def roots(self):
        r = set(self.refs.values())
        if self.head[0] == "det":
            r.add(self.head[1])
        elif self.head[1] in self.refs:
            r.add(self.refs[self.head[1]])
        return r

    # -- real repository
    def objdir(self):
        return self.path / "objects"

    def set_age(self, p, age):
        t = self.t0 - age
        os.utime(p, (t, t))

    def loose_path(self, h):
        return self.objdir() / h[:2] / h[2:]

    def write_head(self):
        if self.head[0] == "sym":
            (self.path / "HEAD").write_bytes(b"ref: " + self.head[1] + b"\n")
        else:
            (self.path / "HEAD").write_bytes(self.head[1].encode() + b"\n")


def _idx_ids(path) -> set:
    """Object ids of a pack index (v1 / v2, SHA-1), parsed here (independent of dulwich's reader)."""
    import struct
    data = Path(path).read_bytes()
    if data[:4] == b"\xfftOc":
        ver = struct.unpack(">L", data[4:8])[0]
        if ver != 2:
            raise core.InfraError(f"pack index version {ver} not supported by the harness reader: {path}")
        n = struct.unpack(">L", data[8 + 255 * 4:8 + 256 * 4])[0]
        base = 8 + 256 * 4
        return {data[base + 20 * i: base + 20 * i + 20].hex() for i in range(n)}
    n = struct.unpack(">L", data[255 * 4:256 * 4])[0]
    base = 256 * 4
    return {data[base + 24 * i + 4: base + 24 * i + 24].hex() for i in range(n)}


def observe(objdir: Path):
    """State of an object directory read without dulwich: loose {hex: mtime}, packs {basename: (set of hex ids,
    mtime of the .pack)}."""
    loose, packs = {}, {}
    for d in os.listdir(objdir):
        if len(d) == 2 and all(c in "0123456789abcdef" for c in d):
            for f in os.listdir(objdir / d):
                if len(f) == 38 and all(c in "0123456789abcdef" for c in f):
                    loose[d + f] = int(os.stat(objdir / d / f).st_mtime)
    pd = objdir / "pack"
    names = set(os.listdir(pd)) if pd.exists() else set()
    for f in sorted(names):
        if f.endswith(".pack") and f[:-5] + ".idx" in names:
            packs[f[:-5]] = (_idx_ids(pd / (f[:-5] + ".idx")), int(os.stat(pd / f).st_mtime))
    return loose, packs


def _enc_ids(nums):
    nums = list(nums)
    return ",".join(str(x) for x in nums) if nums else "-"


def _model_state_args(w: World, loose, packs, order, alt_ids):
    """Arguments G R L P A of the driver's c10.step / c10.reach for the observed state."""
    g = ";".join(f"{w.n(h)}:{_enc_ids(w.n(k) for k in ks)}" for h, ks in w.kids.items()) or "-"
    r = _enc_ids(sorted(w.n(h) for h in w.roots()))
    lo = ",".join(f"{w.n(h)}:{t}" for h, t in sorted(loose.items())) or "-"
    pk = ";".join(f"{packs[b][1]}:{_enc_ids(sorted(w.n(h) for h in packs[b][0]))}" for b in order) or "-"
    al = _enc_ids(sorted(w.n(h) for h in alt_ids))
    return f"{g} {r} {lo} {pk} {al}"


def _canon_real(w: World, loose, packs):
    ps = sorted(_enc_ids(sorted(w.n(h) for h in ids)) for ids, _ in packs.values())
    # the model prints packs sorted as strings
    return f"L={_enc_ids(sorted(w.n(h) for h in loose))}|P={';'.join(sorted(ps)) if ps else '-'}"


def build_repo(ctx, w: World, plan=None, plain=False):
    """Random build phase.  Returns the list of build steps performed (for the evidence)."""
    from dulwich.repo import Repo
    from dulwich.object_store import DiskObjectStore
    from dulwich.pack import REF_DELTA
    from dulwich.tests.utils import build_pack
    from io import BytesIO
    rng = w.rng
    w.path.mkdir(parents=True)
    repo = Repo.init_bare(str(w.path))
    st = repo.object_store
    w.gen_objects()
    steps = []
    allobjs = w.blobs + w.trees + w.commits + w.tags
    # which objects are stored at all: a children-closed set (gitlink targets are never stored)
    stored = set()
    want = [h for h in allobjs if rng.random() < 0.85]
    todo = list(want)
    while todo:
        h = todo.pop()
        if h in stored or h not in w.objs:
            continue
        stored.add(h)
        todo.extend(w.kids[h])
    stored_l = sorted(stored)
    # alternates
    if rng.random() < 0.3 and stored_l:
        w.alt_path = w.path.parent / (w.path.name + "-alt") / "objects"
        w.alt_path.mkdir(parents=True)
        (w.alt_path / "pack").mkdir()
        alt = DiskObjectStore(str(w.alt_path))
        in_alt = [h for h in stored_l if rng.random() < 0.4]
        if in_alt:
            if rng.random() < 0.5:
                alt.add_objects([(w.sha[h], None) for h in in_alt])
            else:
                for h in in_alt:
                    alt.add_object(w.sha[h])
        alt.close()
        w.alt_ids = set(in_alt)
        st.add_alternate_path(str(w.alt_path))
        steps.append(f"alternate({len(in_alt)})")
    # distribute: every stored object gets at least one container
    remaining = [h for h in stored_l if h not in w.alt_ids or rng.random() < 0.3]
    rng.shuffle(remaining)
    while remaining:
        kind = rng.choice(["loose", "loose", "pack", "pack", "thin", "dup"])
        k = rng.randint(1, max(1, len(remaining)))
        chunk, remaining = remaining[:k], remaining[k:]
        if kind == "loose":
            for h in chunk:
                st.add_object(w.sha[h])
            steps.append(f"loose({len(chunk)})")
        elif kind in ("pack", "dup"):
            extra = []
            if kind == "dup":
                lo, pk = observe(w.objdir())
                have = sorted(set(lo) | {h for ids, _ in pk.values() for h in ids})
                extra = rng.sample(have, min(len(have), rng.randint(1, 3)))
            objs = {h: w.sha[h] for h in chunk + extra}
            st.add_objects([(o, None) for o in objs.values()])
            steps.append(f"{kind}({len(objs)})")
        else:  # thin pack: a new blob as REF_DELTA against a blob that is already in the store
            lo, pk = observe(w.objdir())
            have_blobs = [h for h in w.blobs if h in lo or any(h in ids for ids, _ in pk.values())]
            if not have_blobs:
                remaining = chunk + remaining
                if not lo and not pk:
                    for h in chunk[:1]:
                        st.add_object(w.sha[h])
                    remaining = [x for x in remaining if x != chunk[0]]
                continue
            from dulwich.objects import Blob
            base = rng.choice(have_blobs)
            nb = Blob.from_string(w.objs[base][1] + b"thin %d\n" % rng.getrandbits(30))
            hb = w._reg(nb, [])
            w.blobs.append(hb)
            spec = [(REF_DELTA, (base.encode(), nb.as_raw_string()))]
            for h in chunk:
                spec.append((w.objs[h][0], w.objs[h][1]))
            f = BytesIO()
            build_pack(f, spec, st)
            st.add_thin_pack(f.read, None)
            stored.add(hb)
            steps.append(f"thin({len(spec)})")
    # more duplicates: a loose copy of packed objects, an extra pack of loose ones
    lo, pk = observe(w.objdir())
    packed = sorted({h for ids, _ in pk.values() for h in ids})
    for h in packed:
        if rng.random() < 0.15:
            st.add_object(w.sha[h])
    if lo and rng.random() < 0.3:
        some = rng.sample(sorted(lo), rng.randint(1, len(lo)))
        st.add_objects([(w.sha[h], None) for h in some])
        steps.append(f"pack-of-loose({len(some)})")
    repo.close()
    # ages
    lo, pk = observe(w.objdir())
    for h in lo:
        w.set_age(w.loose_path(h), rng.choice(AGES))
    for b in pk:
        a = rng.choice(AGES)
        w.set_age(w.objdir() / "pack" / (b + ".pack"), a)
        w.set_age(w.objdir() / "pack" / (b + ".idx"), a)
    # temp-file debris for object_store.prune()
    if not plain and rng.random() < 0.4:
        p = w.objdir() / f"tmp_pack_{rng.getrandbits(24):06x}"
        p.write_bytes(b"junk")
        w.set_age(p, rng.choice(AGES))
        q = w.objdir() / "pack" / f"pack-{rng.getrandbits(160):040x}.pack"
        q.write_bytes(b"PACKjunk")
        w.set_age(q, rng.choice(AGES))
        steps.append("debris")
    # refs
    w.stored = stored
    mutate_refs(w, rng, initial=True)
    return steps


def mutate_refs(w: World, rng, initial=False):
    """create / move / delete refs, annotated-tag refs, detach or re-attach HEAD — through dulwich's refs container
    for ordinary refs, by writing the file for HEAD."""
    from dulwich.repo import Repo
    stored = sorted(w.stored)
    commits = [h for h in w.commits if h in w.stored]
    tags = [h for h in w.tags if h in w.stored]
    repo = Repo(str(w.path))
    try:
        nops = rng.randint(1, 4) if initial else rng.randint(1, 2)
        for _ in range(nops):
            op = rng.choice(["branch", "branch", "tagref", "anyref", "delete", "detach", "attach", "move"])
            if op == "branch" and commits:
                name = b"refs/heads/" + rng.choice([b"main", b"dev", b"f/x"])
                w.refs[name] = rng.choice(commits)
                repo.refs[name] = w.refs[name].encode()
            elif op == "tagref" and (tags or commits):
                name = b"refs/tags/" + rng.choice([b"v1", b"v2"])
                w.refs[name] = rng.choice(tags or commits)
                repo.refs[name] = w.refs[name].encode()
            elif op == "anyref" and stored:
                name = rng.choice([b"refs/notes/n", b"refs/remotes/o/m", b"refs/stash", b"refs/tags/blobtag"])
                w.refs[name] = rng.choice(stored)
                repo.refs[name] = w.refs[name].encode()
            elif op == "delete" and w.refs and not initial:
                name = rng.choice(sorted(w.refs))
                del w.refs[name]
                del repo.refs[name]
            elif op == "move" and w.refs and commits:
                name = rng.choice(sorted(w.refs))
                if name.startswith(b"refs/heads/"):
                    w.refs[name] = rng.choice(commits)
                    repo.refs[name] = w.refs[name].encode()
            elif op == "detach" and commits:
                w.head = ("det", rng.choice(commits))
                w.write_head()
            elif op == "attach":
                w.head = ("sym", b"refs/heads/" + rng.choice([b"main", b"dev", b"unborn"]))
                w.write_head()
    finally:
        repo.close()


def _grace_value(g):
    """grace period in the property's words for an op argument"""
    return GIT_DEFAULT_GRACE if g == "default" else g


def gen_ops(rng, n):
    ops = []
    for _ in range(n):
        k = rng.choice(["packloose", "repack", "gc", "gc", "gc", "prune", "prune", "tmpprune", "packrefs", "gcnoprune"] * 2 +
                       ["midx", "cgraph"])
        g = rng.choice(GRACES)
        if k == "prune" and g == "default":
            g = None   # prune_unreachable_objects' own default is None
        ops.append({"op": k, "grace": g, "fresh": rng.random() < 0.5, "all": rng.random() < 0.5})
    return ops


def run_real_op(w: World, repo, op):
    """Perform one maintenance op on the real code.  Returns the returned pruned set (hex ids) or None."""
    from dulwich.gc import garbage_collect, prune_unreachable_objects
    st = repo.object_store
    k, g = op["op"], op["grace"]
    if k == "packloose":
        st.pack_loose_objects()
    elif k == "repack":
        st.repack()
    elif k in ("gc", "gcnoprune"):
        kw = {} if g == "default" else {"grace_period": g}
        stats = garbage_collect(repo, prune=(k == "gc"), **kw)
        return {h.decode() for h in stats.pruned_objects}
    elif k == "prune":
        pruned, _ = prune_unreachable_objects(st, repo.refs, grace_period=g)
        return {h.decode() for h in pruned}
    elif k == "tmpprune":
        st.prune(grace_period=None if g == "default" else g)
    elif k == "packrefs":
        repo.refs.pack_refs(all=op["all"])
    elif k == "midx":
        st.write_midx()
    elif k == "cgraph":
        st.write_commit_graph()
    else:
        raise ValueError(k)
    return None


MODEL_OP = {"packloose": "packloose", "repack": "repack", "gc": "gc", "gcnoprune": "gcnoprune", "prune": "prune",
            "tmpprune": "noop", "packrefs": "noop", "midx": "noop", "cgraph": "noop"}


def _read_all(path: Path, ids):
    """{hex: (type_num, bytes) | None} through a FRESH store (what any later process sees)."""
    from dulwich.repo import Repo
    out = {}
    repo = Repo(str(path))
    try:
        for h in ids:
            try:
                out[h] = repo.object_store.get_raw(h.encode())
            except KeyError:
                out[h] = None
            except Exception as e:  # unreadable is as bad as missing
                out[h] = ("exc", type(e).__name__)
        refs = {}
        for k in repo.refs.allkeys():
            try:
                refs[k] = repo.refs[k].decode()
            except KeyError:
                refs[k] = None
    finally:
        repo.close()
    return out, refs


def _case_rng(ctx, kind, idx):
    import random
    return random.Random(f"C10:{ctx.seed}:{kind}:{idx}")


def build_from_spec(ctx, w: World, spec):
    """Deterministic small repository for corpus witnesses: blobs b0,b1, tree t, commit c (reachable from the ref),
    unreachable blobs x,y.  spec: {"loose": {name: age}, "packs": [{"objs": [names], "age": a}], "refs": {ref: name}}"""
    from dulwich.repo import Repo
    from dulwich.objects import Blob, Tree, Commit
    w.path.mkdir(parents=True)
    repo = Repo.init_bare(str(w.path))
    st = repo.object_store
    b0, b1 = Blob.from_string(b"witness b0\n"), Blob.from_string(b"witness b1\n")
    x, y = Blob.from_string(b"witness unreachable x\n"), Blob.from_string(b"witness unreachable y\n")
    t = Tree()
    t.add(b"a", 0o100644, b0.id)
    t.add(b"b", 0o100644, b1.id)
    c = Commit()
    c.tree = t.id
    c.author = c.committer = b"a <a@example.com>"
    c.author_time = c.commit_time = 1
    c.author_timezone = c.commit_timezone = 0
    c.message = b"m"
    named = {"b0": b0, "b1": b1, "x": x, "y": y, "t": t, "c": c}
    hx_ = {}
    for n, o in named.items():
        kids = {"t": ["b0", "b1"], "c": ["t"]}.get(n, [])
        hx_[n] = w._reg(o, [named[k].id.decode() for k in kids])
    w.blobs, w.trees, w.commits, w.tags = [hx_["b0"], hx_["b1"], hx_["x"], hx_["y"]], [hx_["t"]], [hx_["c"]], []
    for pk in spec.get("packs", []):
        pack = st.add_objects([(named[n], None) for n in pk["objs"]])
        for ext in (".pack", ".idx"):
            w.set_age(pack._basename + ext, pk["age"])
    for n, age in spec.get("loose", {}).items():
        st.add_object(named[n])
        w.set_age(w.loose_path(hx_[n]), age)
    for ref, n in spec.get("refs", {}).items():
        w.refs[ref.encode()] = hx_[n]
        repo.refs[ref.encode()] = hx_[n].encode()
    repo.close()
    w.sha_by_name = hx_
    w.stored = {hx_[n] for pk in spec.get("packs", []) for n in pk["objs"]} | {hx_[n] for n in spec.get("loose", {})}
    w.write_head()
    return ["spec"]


def _touch(w: World, repo, h):
    """add_object() of an object the repository may already have: must leave a copy with a fresh mtime"""
    repo.object_store.add_object(w.sha[h])
    w.touched[h] = time.time()
    try:
        w.touch_fresh[h] = time.time() - os.stat(w.loose_path(h)).st_mtime < 60
    except FileNotFoundError:
        w.touch_fresh[h] = False


def logical_case(ctx, idx, spec=None, stream="logical"):
    """One repository + one maintenance sequence.  Returns the recorded steps (for the model comparison)."""
    from dulwich.repo import Repo
    rng = _case_rng(ctx, "lg", idx)
    w = World(rng, ctx.scratch / f"lg{idx}")
    if spec is not None:
        steps = build_from_spec(ctx, w, spec)
        ops = [dict({"fresh": True, "all": True}, **o) for o in spec["ops"]]
    else:
        steps = build_repo(ctx, w)
        ops = gen_ops(rng, rng.randint(2, 6))
    dist = ctx.extra_cov.setdefault("repository_shapes", {})
    for k in [x.split("(")[0] for x in steps] + ["HEAD-" + ("detached" if w.head[0] == "det" else "symbolic"),
                                                 f"refs={min(len(w.refs), 4)}{'+' if len(w.refs) >= 4 else ''}",
                                                 "tags" if w.tags else "no-tags",
                                                 "gitlink" if any(k not in w.objs for ks in w.kids.values() for k in ks) else "no-gitlink"]:
        dist[k] = dist.get(k, 0) + 1
    repo = Repo(str(w.path))
    lines, pending = [], []
    try:
        for si, op in enumerate(ops):
            if op["op"] == "touch":
                _touch(w, repo, w.sha_by_name[op["obj"]])
                continue
            if spec is None and si and rng.random() < 0.25:
                repo.close()
                mutate_refs(w, rng)
                repo = Repo(str(w.path))
            elif op["fresh"]:
                repo.close()
                repo = Repo(str(w.path))
            if spec is None and si and rng.random() < 0.3:   # objects (re-)added between maintenance steps: fresh mtime
                lo_now, pk_now = observe(w.objdir())
                pres = set(lo_now) | {h for ids, _ in pk_now.values() for h in ids} | set(w.alt_ids)
                cl = w.closure(w.roots(), pres)
                stale = sorted(h for h in lo_now if h not in cl and h in w.sha)   # unreachable loose: candidates for pruning
                pool = stale if (stale and rng.random() < 0.6) else sorted(w.stored)
                for h in rng.sample(pool, min(2, len(pool))):
                    _touch(w, repo, h)
            st = repo.object_store
            order = [os.path.basename(p._basename) for p in st.packs]   # get_object_mtime's pack order
            loose0, packs0 = observe(w.objdir())
            if sorted(order) != sorted(packs0):
                ctx.disagree(stream, {"case": idx, "step": si}, sorted(packs0), sorted(order), "pack-listing")
                return False
            alt_ids = set(w.alt_ids)
            present0 = set(loose0) | {h for ids, _ in packs0.values() for h in ids} | alt_ids
            roots = w.roots()
            clos = w.closure(roots, present0)
            expected = sorted(clos & present0)
            now = int(time.time())
            g = op["grace"]
            gtxt = "none" if g is None else str(GIT_DEFAULT_GRACE if g == "default" else g)
            args = _model_state_args(w, loose0, packs0, order, alt_ids)
            mline = None
            if not (op["op"] in ("gc", "gcnoprune") and g == "default"):
                mline = f"c10.step {args} {MODEL_OP[op['op']]} {gtxt} {now}"
            else:
                mline = f"c10.step {args} {MODEL_OP[op['op']]} default {now}"
            rline = f"c10.reach {args}"
            # real op
            t_before = time.time()
            try:
                pruned = run_real_op(w, repo, op)
                err = None
            except Exception as e:
                pruned, err = None, f"{type(e).__name__}: {e}"
            case = {"kind": "logical", "case": idx, "step": si, "op": op, "build": steps, "seed": ctx.seed, "spec": spec}
            if err is not None:
                ctx.oracle_fail(stream, case, f"maintenance op raised {err}", "op-raised-" + err.split(":")[0])
            loose1, packs1 = observe(w.objdir())
            present1 = set(loose1) | {h for ids, _ in packs1.values() for h in ids} | alt_ids
            # ---- direct oracle, first half: closure of refs + HEAD still readable, identical (type, bytes)
            got, refs_now = _read_all(w.path, expected)
            bad = [h for h in expected if got[h] != w.objs[h]]
            tag = f"{op['op']}:{'none' if g is None else g}"
            ctx.count(stream, (idx, si, tuple(sorted(present0)), op["op"], str(g)), True, tag)
            if bad:
                h = bad[0]
                where = ("loose" if h in loose0 else "") + ("+packed" if any(h in ids for ids, _ in packs0.values()) else "") + \
                        ("+alt" if h in alt_ids else "")
                ctx.oracle_fail(stream, dict(case, object=h, type=w.objs[h][0], where=where, n_bad=len(bad)),
                                f"object reachable from refs/HEAD is {'missing' if got[h] is None else 'changed'} after "
                                f"{op['op']}(grace={g}): {h} (was {where})", None)
            want_refs = dict(w.refs)
            if w.head[0] == "det":
                want_refs[b"HEAD"] = w.head[1]
            elif w.head[1] in w.refs:
                want_refs[b"HEAD"] = w.refs[w.head[1]]
            if {k: v for k, v in refs_now.items() if v is not None} != want_refs:
                ctx.oracle_fail(stream, dict(case, want={k.decode(): v for k, v in want_refs.items()},
                                             got={k.decode(): v for k, v in refs_now.items()}),
                                f"refs changed by maintenance op {op['op']}", "refs-changed")
            # ---- second half: what disappeared was unreachable and older than the grace period
            gone = sorted(present0 - present1)
            for h in gone:
                if h in clos:
                    continue  # already reported above
                copies = ([loose0[h]] if h in loose0 else []) + [t for ids, t in packs0.values() if h in ids]
                youngest, oldest = max(copies), min(copies)
                if op["op"] not in ("gc", "prune"):
                    ctx.oracle_fail(stream, dict(case, object=h), f"{op['op']} removed an object ({h})",
                                    "removed-by-non-pruning-op")
                    continue
                gv = _grace_value(g)
                if gv is None:
                    continue
                age_y, age_o = t_before - youngest, t_before - oldest
                if age_y >= gv - 5 and h in w.touched and t_before - w.touched[h] < gv - 5:
                    # fresh right after add_object, stale now: an intermediate packing step dropped the fresh loose copy
                    # in favour of an existing old pack with the same content
                    cls = "fresh-loose-copy-dropped-for-existing-old-pack" if w.touch_fresh.get(h) else None
                    ctx.oracle_fail(stream, dict(case, object=h, ages=[int(t_before - t) for t in copies], grace=gv),
                                    f"unreachable object {h} disappeared although add_object() re-added it "
                                    f"{int(t_before - w.touched[h])} s ago (grace period {gv} s): "
                                    + ("the fresh loose copy was dropped by an intermediate pack_loose/repack whose pack already "
                                       "existed with an old mtime" if w.touch_fresh.get(h) else "add_object() did not refresh the mtime"),
                                    cls)
                elif age_y < gv - 5:
                    cls = "pruned-object-has-younger-copy" if (age_o >= gv and len(copies) >= 2) else None
                    ctx.oracle_fail(stream, dict(case, object=h, ages=[int(t_before - t) for t in copies], grace=gv),
                                    f"unreachable object {h} disappeared although a copy is only {int(age_y)} s old "
                                    f"(grace period {gv} s, {op['op']})", cls)
            if op["op"] in ("gc", "prune"):
                # an operation that was entitled to remove a re-added object (no grace period, or one the re-add had
                # already outlived) ends the protection the re-add gave it, even if a packed copy happens to survive
                gv0 = _grace_value(g)
                for h in list(w.touched):
                    if h not in clos and (gv0 is None or t_before - w.touched[h] >= gv0 - 5):
                        del w.touched[h]
            if len(ctx.samples) < 2:
                ctx.sample({"stream": stream, "build": steps, "op": op, "objects_before": len(present0),
                            "reachable": len(expected), "removed": len(gone), "packs_before": len(packs0),
                            "packs_after": len(packs1), "loose_before": len(loose0), "loose_after": len(loose1)})
            pending.append((mline, rline, case, _canon_real(w, loose1, packs1), pruned, w, clos, err))
        lines = pending
    finally:
        repo.close()
    return lines


def _stream_logical(ctx, ncases, stream="logical", first_idx=0):
    """Runs the cases, then the model on all recorded steps in one driver batch."""
    recs = []
    for i in range(ncases):
        out = logical_case(ctx, first_idx + i, stream=stream)
        if out:
            recs.extend(out)
        shutil.rmtree(ctx.scratch / f"lg{first_idx + i}", ignore_errors=True)
        shutil.rmtree(ctx.scratch / f"lg{first_idx + i}-alt", ignore_errors=True)
    _compare_logical(ctx, recs, stream)


def _compare_logical(ctx, recs, stream):
    consts = ctx.driver.batch(["c10.consts"])[0].split()
    default_grace = consts[1]
    lines = []
    for mline, rline, *_ in recs:
        lines.append(mline.replace(" default ", f" {default_grace} "))
        lines.append(rline)
    outs = ctx.driver.batch(lines)
    for i, (mline, rline, case, real_state, pruned, w, clos, err) in enumerate(recs):
        mo, ro = outs[2 * i], outs[2 * i + 1]
        if err is not None:
            continue
        # reachable set: model vs the harness's brute-force closure (and, through the oracle, the real code)
        want_reach = _enc_ids(sorted(w.n(h) for h in clos))
        ctx.count(stream + ".reach", (case["case"], case["step"], want_reach), True)
        if ro != want_reach:
            ctx.disagree(stream + ".reach", case, ro, want_reach, "brute-force-closure")
        parts = mo.split("|pruned=")
        if len(parts) != 2:
            ctx.disagree(stream, case, mo, real_state)
            continue
        ctx.count(stream + ".model", (case["case"], case["step"], real_state), True)
        if parts[0] != real_state:
            ctx.disagree(stream, dict(case, model_line=lines[2 * i][:400]), parts[0], real_state)
        if pruned is not None:
            real_pruned = _enc_ids(sorted(w.n(h) for h in pruned))
            if parts[1] != real_pruned:
                ctx.disagree(stream + ".pruned", dict(case, model_line=lines[2 * i][:400]), parts[1], real_pruned)


# ------------------------------------------------------------------------------------------------
# scheduler stream: readers interleaved with a repacking actor at system-call granularity

import re as _re

_PACKFILE = _re.compile(r"objects/pack/((?:pack|loose)-[0-9a-f]+)\.(pack|idx)$")
_LOOSEFILE = _re.compile(r"objects/([0-9a-f]{2})/([0-9a-f]{38})$")
_FANOUT = _re.compile(r"objects/([0-9a-f]{2})$")

CLS_LOOKUP_MOVE = "reader-loose-miss-after-pack-probe-during-pack-loose"
CLS_ITER_MOVE = "iter-loose-miss-after-pack-scan-during-pack-loose"
CLS_ITER_SKIP = "iter-skips-disappeared-pack-without-rescan"
CLS_RETRY = "reader-rescan-attempts-exhausted-by-successive-repacks"
CLS_TMPPRUNE = "gc-grace0-tempfile-prune-deletes-pack-being-installed"


def _reader_relevant(call, paths):
    p = paths[0] if paths else ""
    if call == "listdir" and p in ("objects/pack", "objects"):
        return True
    if call == "listdir" and _FANOUT.fullmatch(p):
        return True
    if call == "open-r" and (_PACKFILE.fullmatch(p) or _LOOSEFILE.fullmatch(p)):
        return True
    return False


def _packer_significant(call, paths):
    dst = paths[-1] if paths else ""
    if call in ("rename", "replace", "remove", "unlink") and (_PACKFILE.fullmatch(dst or "") or _LOOSEFILE.fullmatch(dst or "")):
        return True
    return False


def _snapshot(root: Path):
    od = root / "objects"
    idx, data, loose = set(), set(), set()
    try:
        for f in os.listdir(od / "pack"):
            m = _re.fullmatch(r"((?:pack|loose)-[0-9a-f]+)\.(pack|idx)", f)
            if m:
                (data if m.group(2) == "pack" else idx).add(m.group(1))
    except FileNotFoundError:
        pass
    for d in os.listdir(od):
        if len(d) == 2:
            try:
                for f in os.listdir(od / d):
                    if len(f) == 38:
                        loose.add(d + f)
            except (FileNotFoundError, NotADirectoryError):
                pass
    return {"idx": idx, "data": data, "loose": loose}


def _cache_state(st):
    """(names in dict order, idx-loaded names, data-loaded names) of a real store's pack cache"""
    names, il, dl = [], [], []
    for k, p in list(st._pack_cache.items()):
        names.append(k)
        if getattr(p, "_idx", None) is not None:
            il.append(k)
        if getattr(p, "_data", None) is not None:
            dl.append(k)
    return names, il, dl


class Scenario:
    """A small repository (template directory) + the actors' programs."""

    def __init__(self, template: Path, objects: dict, reach: set, packer: str, readers: list, warm: list):
        self.template = template
        self.objects = objects          # hex -> (type_num, bytes)
        self.reach = reach              # hex ids reachable from the ref (exist throughout under every packer op)
        self.packer = packer            # packloose | repack | gc0 | git-repack-ad | repack2
        self.readers = readers          # [[("get"|"in"|"iter", hex or None), ...], ...]
        self.warm = warm                # per reader: "cold" | "listed" | "loaded"

    def describe(self):
        return {"packer": self.packer, "readers": [[(k, (h or "")[:8]) for k, h in ops] for ops in self.readers],
                "warm": self.warm}


def build_scenario(ctx, rng, idx, spec=None):
    """spec (for corpus witnesses): {"packs": [[names]], "loose": [names], "packer":…, "readers":…, "warm":…} over
    object names b0..b5,t,c.  Otherwise random."""
    from dulwich.repo import Repo
    from dulwich.objects import Blob, Tree, Commit
    root = ctx.scratch / f"sc{idx}-tpl"
    shutil.rmtree(root, ignore_errors=True)
    root.mkdir(parents=True)
    repo = Repo.init_bare(str(root))
    st = repo.object_store
    salt = 0 if spec else rng.getrandbits(30)
    nb = 4 if spec else rng.randint(2, 5)
    blobs = [Blob.from_string(b"sched blob %d %d\n" % (salt, i)) for i in range(nb)]
    extra = Blob.from_string(b"unreachable %d\n" % salt)
    t = Tree()
    for i, b in enumerate(blobs):
        t.add(b"f%d" % i, 0o100644, b.id)
    c = Commit()
    c.tree = t.id
    c.author = c.committer = b"a <a@example.com>"
    c.author_time = c.commit_time = 1
    c.author_timezone = c.commit_timezone = 0
    c.message = b"m"
    named = {f"b{i}": b for i, b in enumerate(blobs)}
    named.update({"t": t, "c": c, "x": extra})
    if spec:
        packs = [list(p) for p in spec["packs"]]
        loose = list(spec["loose"])
    else:
        names = [n for n in named if n != "x"]
        rng.shuffle(names)
        npacks = rng.choice([0, 1, 1, 2, 3])
        packs = [[] for _ in range(npacks)]
        loose = []
        for n in names:
            where = rng.randrange(npacks + 1)
            if where == npacks or rng.random() < 0.25:
                loose.append(n)
                if where < npacks and rng.random() < 0.5:
                    packs[where].append(n)       # loose and packed
            else:
                packs[where].append(n)
                if npacks > 1 and rng.random() < 0.2:
                    packs[(where + 1) % npacks].append(n)   # duplicated across packs
        packs = [p for p in packs if p]
        if rng.random() < 0.5:
            (loose if rng.random() < 0.5 or not packs else packs[0]).append("x")
        if not loose and rng.random() < 0.7:
            loose.append(rng.choice(names))
    seen = set()
    for p in packs:
        key = tuple(sorted(set(p)))
        if key in seen:
            continue
        seen.add(key)
        st.add_objects([(named[n], None) for n in sorted(set(p))])
    for n in loose:
        st.add_object(named[n])
    repo.refs[b"refs/heads/main"] = c.id
    repo.close()
    old = time.time() - 3600
    for dp, _, fs in os.walk(root / "objects"):
        for f in fs:
            os.utime(os.path.join(dp, f), (old, old))
    present = {n for p in packs for n in p} | set(loose)
    objects = {named[n].id.decode(): (named[n].type_num, named[n].as_raw_string()) for n in present}
    reach = {named[n].id.decode() for n in present if n != "x"}
    if spec:
        packer, warm = spec["packer"], spec["warm"]
        readers = [[(k, named[n].id.decode() if n else None) for k, n in ops] for ops in spec["readers"]]
    else:
        packer = rng.choice(["packloose", "packloose", "repack", "repack", "repack", "gc0"])
        nreaders = rng.choice([1, 1, 1, 2])
        readers, warm = [], []
        targets = sorted(reach)
        for _ in range(nreaders):
            ops = []
            for _ in range(rng.choice([1, 1, 2, 3])):
                k = rng.choice(["get", "get", "get", "in", "in", "iter", "iter", "subset"])
                ops.append((k, None if k == "iter" else rng.choice(targets)))
            readers.append(ops)
            warm.append(rng.choice(["cold", "cold", "listed", "loaded"]))
    return Scenario(root, objects, reach, packer, readers, warm)


class _Run:
    """One schedule of one scenario on the real code."""

    def __init__(self, ctx, sc: Scenario, work: Path):
        self.ctx, self.sc, self.work = ctx, sc, work
        self.stores = {}
        self.steps = {}       # reader -> list of step records
        self.lookups = {}     # reader -> list of lookup records
        self.released = []    # fine-grained release sequence
        self.pack_contents = {}

    def prepare(self):
        from dulwich.object_store import DiskObjectStore
        shutil.rmtree(self.work, ignore_errors=True)
        shutil.copytree(self.sc.template, self.work, symlinks=True)
        for i, w in enumerate(self.sc.warm):
            st = DiskObjectStore(str(self.work / "objects"))
            if w in ("listed", "loaded"):
                st._update_pack_cache()
            if w == "loaded":
                for p in list(st._pack_cache.values()):
                    p.index
                    p.data
            self.stores[f"R{i + 1}"] = st
            self.steps[f"R{i + 1}"] = []
            self.lookups[f"R{i + 1}"] = []

    def reader_fn(self, name, ops, sched):
        st = self.stores[name]

        def fn():
            for k, h in ops:
                rec = {"kind": k, "x": h, "begin": len(self.steps[name]), "pre": _cache_state(st)}
                try:
                    if k == "get":
                        rec["res"] = st.get_raw(h.encode())
                    elif k == "in":
                        rec["res"] = h.encode() in st
                    elif k == "subset":
                        got = list(st.iterobjects_subset([h.encode()]))
                        rec["res"] = (got[0].type_num, got[0].as_raw_string()) if got else "KeyError"
                    else:
                        rec["res"] = sorted(x.decode() for x in st)
                except KeyError:
                    rec["res"] = "KeyError"
                rec["end"] = len(self.steps[name])
                rec["post"] = _cache_state(st)
                self.lookups[name].append(rec)
        return fn

    def packer_fn(self):
        sc = self.sc
        work = self.work

        def fn():
            from dulwich.repo import Repo
            from dulwich.gc import garbage_collect
            repo = Repo(str(work))
            try:
                if sc.packer == "packloose":
                    return repo.object_store.pack_loose_objects()
                if sc.packer == "repack":
                    return repo.object_store.repack()
                if sc.packer == "gc0":
                    garbage_collect(repo, grace_period=0)
                    return None
                if sc.packer == "repack6":
                    from dulwich.objects import Blob
                    for i in range(6):
                        repo.object_store.add_object(Blob.from_string(b"generation %d\n" % i))
                        repo.object_store.repack()
                    return None
                raise ValueError(sc.packer)
            finally:
                repo.close()
        return fn

    def run(self, schedule, external=None):
        """schedule: list of block tokens ("P", "R1", ...).  A token advances the actor through its next significant
        call.  `external` = (k, callable): run the callable (a second PROCESS, e.g. git repack) in the controller just
        before the k-th reader block."""
        from harness import sched as S
        sc = self.sc
        s = S.Scheduler(str(self.work))
        actors = []
        if sc.packer not in ("git-repack-ad", "none"):
            s.spawn("P", self.packer_fn())
            actors.append("P")
        for i, ops in enumerate(sc.readers):
            s.spawn(f"R{i + 1}", self.reader_fn(f"R{i + 1}", ops, s))
            actors.append(f"R{i + 1}")
        seq = list(schedule)
        state = {"cur": None, "done": True, "await": set(), "rblocks": 0}

        def choose(pending, history):
            for r in list(state["await"]):
                self.steps[r][-1]["cache_after"] = _cache_state(self.stores[r])[0]
                state["await"].discard(r)
            if state["cur"] is None or state["done"] or state["cur"] not in pending:
                a = None
                while seq:
                    t = seq.pop(0)
                    if t in pending:
                        a = t
                        break
                if a is None:
                    a = sorted(pending)[0]
                state["cur"], state["done"] = a, False
            a = state["cur"]
            call, paths = pending[a]
            if a == "P":
                if _packer_significant(call, paths):
                    state["done"] = True
            else:
                if _reader_relevant(call, paths):
                    if external is not None and state["rblocks"] == external[0]:
                        external[1]()
                    state["rblocks"] += 1
                    state["done"] = True
                    snap = _snapshot(self.work)
                    for n in snap["idx"] & snap["data"]:
                        if n not in self.pack_contents:
                            try:
                                self.pack_contents[n] = _idx_ids(self.work / "objects" / "pack" / (n + ".idx"))
                            except OSError:
                                pass
                    self.steps[a].append({"call": call, "path": paths[0], "fs": snap, "hist": len(history)})
                    if call == "listdir" and paths[0] == "objects/pack":
                        state["await"].add(a)
            self.released.append(a)
            return a
        try:
            events = s.run(choose)
        finally:
            pass
        for r in list(state["await"]):
            self.steps[r][-1]["cache_after"] = _cache_state(self.stores[r])[0]
        if external is not None and state["rblocks"] <= external[0]:
            external[1]()
        # outcomes of the recorded reader steps
        per_actor = {}
        for e in s.history:
            if e[1] == "start":
                continue
            per_actor.setdefault(e[0], []).append(e)
        for r, steps in self.steps.items():
            evs = [e for e in per_actor.get(r, []) if _reader_relevant(e[1], e[2])]
            if len(evs) != len(steps):
                raise core.InfraError(f"scheduler bookkeeping: {len(evs)} events vs {len(steps)} steps for {r}")
            for stp, e in zip(steps, evs):
                stp["outcome"] = e[3]
        self.results = {n: (r.value, r.exc) for n, r in s.results.items()}
        self.events = events
        return events

    def close(self):
        for st in self.stores.values():
            try:
                st.close()
            except Exception:
                pass


def _block_lengths(ctx, sc: Scenario, work: Path):
    """Number of block tokens each actor needs when running alone (on a copy)."""
    lens = {}
    actors = (["P"] if sc.packer not in ("git-repack-ad", "none") else []) + [f"R{i + 1}" for i in range(len(sc.readers))]
    for a in actors:
        solo = Scenario(sc.template, sc.objects, sc.reach, sc.packer if a == "P" else "none",
                        [sc.readers[int(a[1:]) - 1]] if a != "P" else [], [sc.warm[int(a[1:]) - 1]] if a != "P" else [])
        run = _Run(ctx, solo, work)
        run.prepare()
        try:
            run.run([])
            name = "P" if a == "P" else "R1"
            n = 0
            prev_sig = True
            # count blocks: one per significant call, plus a trailing one if the actor ends with insignificant calls
            evs = [e for e in run.events if e[0] == name]
            for e in evs:
                sig = _packer_significant(e[1], e[2]) if a == "P" else _reader_relevant(e[1], e[2])
                if sig:
                    n += 1
            lens[a] = n + 1
        finally:
            run.close()
    return lens


def _nums(mapping, names):
    return [mapping[n] for n in names]


def _model_lines_for_run(run: _Run, sc: Scenario, maxatt: int, consts):
    """Driver lines + expected (real) outputs for every lookup of every reader of a finished run."""
    # global numbering: packs by sorted name, objects by sorted id
    pack_names = set()
    for steps in run.steps.values():
        for s in steps:
            pack_names |= s["fs"]["idx"] | s["fs"]["data"]
    for lks in run.lookups.values():
        for lk in lks:
            pack_names |= set(lk["pre"][0]) | set(lk["post"][0])
    pnum = {n: i + 1 for i, n in enumerate(sorted(pack_names))}
    all_ids = set(sc.objects)
    packids = {}
    for n in sorted(pack_names):
        if n in run.pack_contents:
            packids[n] = run.pack_contents[n]
        else:
            packids[n] = set()
            for base in (run.work, sc.template):
                p = base / "objects" / "pack" / (n + ".idx")
                if p.exists():
                    packids[n] = _idx_ids(p)
                    break
        all_ids |= packids[n]
    for steps in run.steps.values():
        for s in steps:
            all_ids |= s["fs"]["loose"]
    onum = {h: i + 1 for i, h in enumerate(sorted(all_ids))}
    pk_arg = ";".join(f"{pnum[n]}:{_enc_ids(sorted(onum[h] for h in packids[n]))}" for n in sorted(pack_names)) or "-"

    def fs_arg(snap, data_order=None):
        data = list(snap["data"])
        if data_order is not None:
            first = [n for n in data_order if n in snap["data"]]
            data = first + sorted(set(data) - set(first))
        else:
            data = sorted(data)
        return "/".join([_enc_ids(sorted(pnum[n] for n in snap["idx"])), _enc_ids(pnum[n] for n in data),
                         _enc_ids(sorted(onum[h] for h in snap["loose"]))])
    out = []
    for r, lks in run.lookups.items():
        steps = run.steps[r]
        for lk in lks:
            mine = steps[lk["begin"]:lk["end"]]
            toks, fss = [], []
            if lk["kind"] == "subset":
                continue   # iterobjects_subset: direct oracle only, not modelled
            if lk["kind"] in ("get", "in"):
                for s in mine:
                    m = _PACKFILE.fullmatch(s["path"])
                    ok = "ok" if s["outcome"] == "ok" else "gone"
                    if s["call"] == "listdir" and s["path"] == "objects/pack":
                        toks.append("listdir")
                        fss.append(fs_arg(s["fs"], s.get("cache_after")))
                    elif m:
                        toks.append(f"{'idx' if m.group(2) == 'idx' else 'data'}:{pnum[m.group(1)]}:{ok}")
                        fss.append(fs_arg(s["fs"]))
                    elif _LOOSEFILE.fullmatch(s["path"]):
                        toks.append(f"loose:{ok}")
                        fss.append(fs_arg(s["fs"]))
                    else:
                        toks.append(f"unexpected:{s['call']}:{s['path']}")
                res = "found" if (lk["res"] is True or isinstance(lk["res"], tuple)) else "missing"
                toks.append(res)
                pre = lk["pre"]
                reprobe = consts["reprobe"] if lk["kind"] == "get" else consts["reprobe_in"]
                line = " ".join(["c10.lookup", lk["kind"], str(onum[lk["x"]]), str(maxatt), "1" if reprobe else "0", "-",
                                 pk_arg, _enc_ids(_nums(pnum, pre[0])), _enc_ids(_nums(pnum, pre[1])),
                                 _enc_ids(_nums(pnum, pre[2]))] + fss)
                post = lk["post"]
                want = ";".join(toks) + f"|cache={_enc_ids(_nums(pnum, post[0]))}" \
                       f"|idx={_enc_ids(sorted(_nums(pnum, post[1])))}|data={_enc_ids(sorted(_nums(pnum, post[2])))}"
            else:
                loose_union, loose_started, loose_fs = set(), False, None
                for s in mine:
                    m = _PACKFILE.fullmatch(s["path"])
                    if s["call"] == "listdir" and s["path"] == "objects/pack":
                        toks.append("listdir")
                        fss.append(fs_arg(s["fs"], s.get("cache_after")))
                    elif m and m.group(2) == "idx":
                        toks.append(f"idx:{pnum[m.group(1)]}:{'ok' if s['outcome'] == 'ok' else 'gone'}")
                        fss.append(fs_arg(s["fs"]))
                    elif s["call"] == "listdir" and s["path"] == "objects":
                        toks.append("loose")
                        loose_started = True
                        loose_fs = len(fss)
                        fss.append(None)
                    elif s["call"] == "listdir" and _FANOUT.fullmatch(s["path"]) and loose_started:
                        d = s["path"][-2:]
                        loose_union |= {h for h in s["fs"]["loose"] if h.startswith(d)}
                    else:
                        toks.append(f"unexpected:{s['call']}:{s['path']}")
                if loose_fs is not None:
                    # the loose listing is one atomic step of the model: give it what the per-directory listings saw
                    fss[loose_fs] = "/".join(["-", "-", _enc_ids(sorted(onum[h] for h in loose_union))])
                pre = lk["pre"]
                line = " ".join(["c10.iter", "1" if consts["iter_rescan"] else "0", "-", pk_arg,
                                 _enc_ids(_nums(pnum, pre[0])), _enc_ids(_nums(pnum, pre[1]))] + fss)
                post = lk["post"]
                res = lk["res"] if isinstance(lk["res"], list) else []
                want = ";".join(toks) + f"|ids={_enc_ids(sorted({onum[h] for h in res}))}" \
                       f"|cache={_enc_ids(_nums(pnum, post[0]))}|idx={_enc_ids(sorted(_nums(pnum, post[1])))}"
            out.append((line, want, r, lk))
    return out


def _oracle_run(ctx, stream, sc: Scenario, run: _Run, schedule, start_packed: set, start_loose: set, tag_extra=None):
    """The property's words on one finished run: an object that exists throughout is never reported missing."""
    n_fail = 0
    for r, lks in run.lookups.items():
        steps = run.steps[r]
        for li, lk in enumerate(lks):
            case = {"kind": "sched", "scenario": sc.describe(), "spec": getattr(sc, "spec", None),
                    "scenario_idx": getattr(sc, "idx", None), "seed": ctx.seed,
                    "schedule": list(schedule), "released": _rle(run.released),
                    "reader": r, "lookup": li, "op": lk["kind"], "object": lk["x"],
                    "layout": getattr(sc, "layout", None),
                    "reader_events": [(s["call"], s["path"], s.get("outcome")) for s in steps[lk["begin"]:lk["end"]]]}
            if lk["kind"] in ("get", "in", "subset"):
                x = lk["x"]
                if x not in sc.reach:
                    continue
                ok = lk["res"] is True or (isinstance(lk["res"], tuple) and lk["res"] == sc.objects[x])
                if ok:
                    continue
                if isinstance(lk["res"], tuple):
                    ctx.oracle_fail(stream, case, f"store[{x}] returned different content during {sc.packer}", None)
                    n_fail += 1
                    continue
                moved = x in start_loose and x not in start_packed
                mine = steps[lk["begin"]:lk["end"]]
                absent_at = _absent_steps(run, mine, [x])
                if absent_at:
                    ctx.oracle_fail(stream, dict(case, absent_at_reader_steps=absent_at),
                                    f"object {x[:10]} was neither loose nor in a complete pack at reader step(s) {absent_at} "
                                    f"while {sc.packer} ran (lost, at least temporarily)", None)
                    n_fail += 1
                    continue
                n_gone = len({s["path"] for s in mine if s.get("outcome") != "ok" and _PACKFILE.fullmatch(s["path"])})
                n_scan = sum(1 for s in mine if s["call"] == "listdir" and s["path"] == "objects/pack")
                cls = CLS_LOOKUP_MOVE if moved else None
                need = consts_maxatt(ctx) * (2 if ctx._c10_consts["reprobe" if lk["kind"] == "get" else "reprobe_in"] else 1)
                if not moved and sc.packer == "repack6" and n_scan >= need and \
                        n_gone + (1 if lk["pre"][0] == [] else 0) >= need:
                    # every pass of every look at the packs met a pack that a NEW repack had just removed (or started from an
                    # empty cache)
                    cls = CLS_RETRY
                ctx.oracle_fail(stream, case,
                                f"{ {'get': 'store[id]', 'in': 'id in store', 'subset': 'iterobjects_subset([id])'}[lk['kind']]} reported {x[:10]} missing while "
                                f"{sc.packer} ran; the object exists throughout ("
                                f"{'loose, then packed' if moved else 'in a pack throughout'})", cls)
                n_fail += 1
            else:
                if not isinstance(lk["res"], list):
                    ctx.oracle_fail(stream, case, f"iteration raised {lk['res']}", None)
                    n_fail += 1
                    continue
                missing = sorted(sc.reach - set(lk["res"]))
                if not missing:
                    continue
                mine = steps[lk["begin"]:lk["end"]]
                absent_at = _absent_steps(run, mine, missing)
                if absent_at:
                    ctx.oracle_fail(stream, dict(case, missing=missing, absent_at_reader_steps=absent_at),
                                    f"object(s) missing from the iteration were neither loose nor in a complete pack at reader "
                                    f"step(s) {absent_at} while {sc.packer} ran", None)
                    n_fail += 1
                    continue
                idx_gone = any(s.get("outcome") != "ok" and _PACKFILE.fullmatch(s["path"]) for s in mine)
                packed_missing = [h for h in missing if h in start_packed]
                if packed_missing:
                    cls = CLS_ITER_SKIP if idx_gone else None
                    what = (f"iteration omitted {len(packed_missing)} object(s) that are in a pack throughout "
                            f"({packed_missing[0][:10]}…) while {sc.packer} ran")
                else:
                    cls = CLS_ITER_MOVE
                    what = (f"iteration omitted {len(missing)} object(s) that moved from loose to a pack "
                            f"({missing[0][:10]}…) while {sc.packer} ran")
                ctx.oracle_fail(stream, dict(case, missing=missing), what, cls)
                n_fail += 1
    return n_fail


def _absent_steps(run, mine, ids):
    """indices of the reader steps of one lookup at which some id of `ids` was neither loose nor in a complete pack"""
    bad = []
    for k, stp in enumerate(mine):
        snap = stp["fs"]
        packed = set()
        for n in snap["idx"] & snap["data"]:
            packed |= run.pack_contents.get(n, set())
        if any(h not in snap["loose"] and h not in packed for h in ids):
            bad.append(k)
    return bad


def consts_maxatt(ctx):
    if not hasattr(ctx, "_c10_consts"):
        c = ctx.driver.batch(["c10.consts"])[0].split()
        ctx._c10_consts = {"maxatt": int(c[0]), "default_grace": int(c[1]), "reprobe": c[4] == "1",
                           "reprobe_in": c[5] == "1", "iter_rescan": c[6] == "1", "max_mtime": c[7] == "1",
                           "refresh_existing": c[8] == "1"}
    return ctx._c10_consts["maxatt"]


def _start_layout(sc: Scenario):
    lo, pk = observe(sc.template / "objects")
    return {h for ids, _ in pk.values() for h in ids}, set(lo)


def _schedules_for(ctx, rng, lens, max_pre, cap):
    from harness import sched as S
    allsch = list(S.enumerate_schedules(lens, max_pre))
    if len(allsch) > cap:
        # keep every schedule with <= 1 pre-emption, sample the rest
        def pre(s):
            return sum(1 for a, b in zip(s, s[1:]) if a != b)
        keep = [s for s in allsch if pre(s) <= 2]
        rest = [s for s in allsch if pre(s) > 2]
        if len(keep) > cap:
            keep = rng.sample(keep, cap)
        else:
            keep += rng.sample(rest, min(len(rest), cap - len(keep)))
        allsch = keep
    return allsch


def _random_schedule(rng, lens):
    toks = [a for a, n in lens.items() for _ in range(n)]
    rng.shuffle(toks)
    return toks


def _rle(seq):
    out = []
    for a in seq:
        if out and out[-1][0] == a:
            out[-1][1] += 1
        else:
            out.append([a, 1])
    return out


def run_scenario(ctx, sc: Scenario, idx, stream, max_pre, cap, nrandom, consts, first=None, only=None):
    rng = _case_rng(ctx, "sch", idx)
    work = ctx.scratch / f"sc{idx}-work"
    lens = _block_lengths(ctx, sc, work)
    if only is not None:
        schedules = [list(x) for x in only]
    else:
        schedules = list(first or []) + _schedules_for(ctx, rng, lens, max_pre, cap)
        schedules += [_random_schedule(rng, lens) for _ in range(nrandom)]
    start_packed, start_loose = _start_layout(sc)
    sc.layout = {"packed": sorted(h[:8] for h in start_packed), "loose": sorted(h[:8] for h in start_loose)}
    lines, wants, metas = [], [], []
    seen = set()
    for schedule in schedules:
        key = tuple(schedule)
        if key in seen:
            continue
        seen.add(key)
        run = _Run(ctx, sc, work)
        run.prepare()
        try:
            run.run(schedule)
            pexc = run.results.get("P", (None, None))[1]
            case = {"kind": "sched", "scenario": sc.describe(), "spec": getattr(sc, "spec", None),
                    "scenario_idx": getattr(sc, "idx", None), "seed": ctx.seed, "schedule": list(schedule), "layout": sc.layout}
            if pexc is not None:
                ctx.oracle_fail(stream, dict(case, exc=repr(pexc)), f"repacking actor raised {pexc!r}", "packer-raised")
            for r in run.lookups:
                rexc = run.results[r][1]
                if rexc is not None:
                    ctx.oracle_fail(stream, dict(case, reader=r, exc=repr(rexc)),
                                    f"reader raised {type(rexc).__name__}: {rexc}", "reader-raised-" + type(rexc).__name__)
            nf = _oracle_run(ctx, stream, sc, run, schedule, start_packed, start_loose)
            npre = sum(1 for a, b in zip(run.released, run.released[1:]) if a != b)
            ctx.count(stream, (idx, key, sc.packer), True, f"{sc.packer}:{'+'.join(k for ops in sc.readers for k, _ in ops)}")
            for line, want, r, lk in _model_lines_for_run(run, sc, consts["maxatt"], consts):
                lines.append(line)
                wants.append(want)
                metas.append({"scenario": sc.describe(), "schedule": list(schedule), "reader": r, "kind": lk["kind"],
                              "object": lk["x"], "layout": sc.layout})
            if len(ctx.samples) < 4 and nf == 0 and npre >= 2:
                ctx.sample({"stream": stream, "scenario": sc.describe(), "schedule": list(schedule),
                            "reader_events": {r: [(s["call"], s["path"][-16:], s.get("outcome")) for s in st]
                                              for r, st in run.steps.items()}})
        finally:
            run.close()
    shutil.rmtree(work, ignore_errors=True)
    outs = ctx.driver.batch(lines)
    for line, want, meta, o in zip(lines, wants, metas, outs):
        ctx.count(stream + ".model", (idx, line), True, meta["kind"])
        if o != want:
            ctx.disagree(stream + ".model", dict(meta, line=line[:600]), o, want)
    return len(seen)


def _scenario(ctx, idx, spec=None):
    sc = build_scenario(ctx, _case_rng(ctx, "sc", idx), idx, spec)
    sc.idx, sc.spec = idx, spec
    return sc


def _consts(ctx):
    consts_maxatt(ctx)
    return ctx._c10_consts


def _stream_sched(ctx, nscen, max_pre, cap, nrandom, stream="sched", first_idx=0):
    total = 0
    for i in range(nscen):
        idx = first_idx + i
        sc = _scenario(ctx, idx)
        try:
            total += run_scenario(ctx, sc, idx, stream, max_pre, cap, nrandom, _consts(ctx))
        finally:
            shutil.rmtree(sc.template, ignore_errors=True)
    ctx.extra_cov["schedules_replayed"] = ctx.extra_cov.get("schedules_replayed", 0) + total


RETRY_SPEC = {"packs": [["b0", "b1", "t", "c"]], "loose": [], "packer": "repack6", "readers": [[("get", "b0")]],
              "warm": ["cold"]}


def _retry_witness(g, reprobe, maxatt=3):
    """Block schedule on which every pass of a cold store[id] meets a pack that the next repack has just removed.
    g = number of significant calls of one add_object + repack generation."""
    gen = ["P"] * g
    sch = ["R1"] + gen                       # scan (sees pack 1) | generation 1
    for _ in range(maxatt - 2):
        sch += ["R1", "R1"] + gen            # index gone, scan | next generation
    sch += ["R1", "R1"]                      # index gone, scan: passes used up
    sch += ["R1"]                            # loose probe
    if reprobe:
        for _ in range(maxatt):
            sch += gen + ["R1", "R1"]        # generation | index gone, scan
    return sch + ["R1"] * 4


def _stream_retry_bound(ctx, stream="sched.retry"):
    """Targeted: one lookup against six successive repacks (each preceded by a new loose object)."""
    sc = _scenario(ctx, 900000, RETRY_SPEC)
    try:
        work = ctx.scratch / "sc-retry-work"
        lens = _block_lengths(ctx, sc, work)
        # P's blocks: per generation: addLoose, installData, installIdx, delLoose, removeData, removeIdx  (6 each)
        g = max(1, (lens["P"] - 1) // 6)
        c = _consts(ctx)
        witness = _retry_witness(g, c["reprobe"], c["maxatt"])
        near = [_retry_witness(g, False, c["maxatt"]), ["R1"] + ["P"] * (2 * g) + ["R1"] * 3 + ["P"] * (3 * g) + ["R1"] * 8]
        n = run_scenario(ctx, sc, 900000, stream, 0, 0, ctx.budget(20), _consts(ctx), first=[witness] + near)
        ctx.extra_cov["schedules_replayed"] = ctx.extra_cov.get("schedules_replayed", 0) + n
    finally:
        shutil.rmtree(sc.template, ignore_errors=True)


def _stream_git_repack(ctx, nscen, stream="sched.git", first_idx=500000):
    """`git repack -a -d` as a second PROCESS between reader steps."""
    total = 0
    env = core.clean_env()
    for i in range(nscen):
        idx = first_idx + i
        sc = _scenario(ctx, idx)
        sc.packer = "git-repack-ad"
        work = ctx.scratch / f"sc{idx}-work"
        try:
            lens = _block_lengths(ctx, sc, work)
            start_packed, start_loose = _start_layout(sc)
            sc.layout = {"packed": sorted(h[:8] for h in start_packed), "loose": sorted(h[:8] for h in start_loose)}
            nblocks = sum(lens.values())
            lines, wants, metas = [], [], []
            for k in range(nblocks + 1):
                run = _Run(ctx, sc, work)
                run.prepare()

                def git_repack(work=work):
                    rc, out = core.sh(["git", "-C", str(work), "repack", "-a", "-d", "-q"], env=env, timeout=120)
                    if rc != 0:
                        raise core.InfraError(f"git repack failed: {out[-400:]}")
                try:
                    order = _random_schedule(_case_rng(ctx, "gitord", idx * 1000 + k), lens)
                    run.run(order, external=(k, git_repack))
                    schedule = [f"git-repack-before-reader-block-{k}"] + order
                    # after `git repack -a -d` loose objects are gone, so "moved" classification applies likewise
                    _oracle_run(ctx, stream, sc, run, schedule, start_packed, start_loose)
                    ctx.count(stream, (idx, k), True, "+".join(kk for ops in sc.readers for kk, _ in ops))
                    total += 1
                    for line, want, r, lk in _model_lines_for_run(run, sc, _consts(ctx)["maxatt"], _consts(ctx)):
                        lines.append(line)
                        wants.append(want)
                        metas.append({"scenario": sc.describe(), "git_repack_before_block": k, "reader": r,
                                      "kind": lk["kind"], "layout": sc.layout})
                finally:
                    run.close()
            outs = ctx.driver.batch(lines)
            for line, want, meta, o in zip(lines, wants, metas, outs):
                ctx.count(stream + ".model", (idx, line), True, meta["kind"])
                if o != want:
                    ctx.disagree(stream + ".model", dict(meta, line=line[:600]), o, want)
        finally:
            shutil.rmtree(sc.template, ignore_errors=True)
            shutil.rmtree(work, ignore_errors=True)
    ctx.extra_cov["git_repack_runs"] = ctx.extra_cov.get("git_repack_runs", 0) + total


# ------------------------------------------------------------------------------------------------
# stale.maint: maintenance from a LONG-LIVED handle whose pack cache another process has invalidated

def _build_side_branch(w: World, main_packed: bool):
    """main: commit cm (tree tm: blobs m0, m1); side: commit cs (parent cm, tree ts: blobs s0, m0).  The objects that only
    the side branch reaches, U = {s0, ts, cs}, are stored in ONE pack holding exactly them."""
    from dulwich.repo import Repo
    from dulwich.objects import Blob, Tree, Commit
    w.path.mkdir(parents=True)
    repo = Repo.init_bare(str(w.path))
    st = repo.object_store
    salt = w.rng.getrandbits(30)

    def commit(tree, parents, n):
        c = Commit()
        c.tree = tree.id
        c.parents = [p.id for p in parents]
        c.author = c.committer = b"A U Thor <a@example.com>"
        c.author_time = c.commit_time = 1000 + n
        c.author_timezone = c.commit_timezone = 0
        c.message = b"c %d %d\n" % (salt, n)
        return c
    m0, m1, s0 = (Blob.from_string(b"%s %d\n" % (n, salt)) for n in (b"m0", b"m1", b"s0"))
    tm = Tree()
    tm.add(b"a", 0o100644, m0.id)
    tm.add(b"b", 0o100644, m1.id)
    ts = Tree()
    ts.add(b"a", 0o100644, m0.id)
    ts.add(b"s", 0o100644, s0.id)
    cm = commit(tm, [], 0)
    cs = commit(ts, [cm], 1)
    for o, kids in ((m0, []), (m1, []), (s0, []), (tm, [m0, m1]), (ts, [m0, s0]), (cm, [tm]), (cs, [ts, cm])):
        w._reg(o, [k.id.decode() for k in kids])
    w.blobs, w.trees, w.commits, w.tags = [m0.id.decode(), m1.id.decode(), s0.id.decode()], \
        [tm.id.decode(), ts.id.decode()], [cm.id.decode(), cs.id.decode()], []
    if main_packed:
        st.add_objects([(o, None) for o in (m0, m1, tm, cm)])
    else:
        for o in (m0, m1, tm, cm):
            st.add_object(o)
    st.add_objects([(o, None) for o in (s0, ts, cs)])
    w.refs = {b"refs/heads/main": cm.id.decode(), b"refs/heads/side": cs.id.decode()}
    for k, v in w.refs.items():
        repo.refs[k] = v.encode()
    repo.close()
    w.head = ("sym", b"refs/heads/main")
    w.write_head()
    w.stored = set(w.objs)
    return ["side-branch-in-own-pack", "main-" + ("packed" if main_packed else "loose")]


_REFLOG_LINE = _re.compile(r"error: .*: invalid reflog entry ([0-9a-f]{40})$")


def _drop_reflog_only(ctx, bad_lines, reachable):
    """`git fsck` also validates reflogs.  Neither the property ("reachable from any ref or HEAD") nor dulwich's gc
    (find_reachable_objects walks refs.allkeys(); reflog support is a TODO there) counts reflog entries as roots, so a
    reflog entry naming an object that was NOT reachable from refs + HEAD when the operation ran may legitimately dangle.
    Only such lines are dropped; a reflog complaint about a reachable object stays a failure."""
    keep = set()
    for l in bad_lines:
        m = _REFLOG_LINE.match(l)
        if m and m.group(1) not in reachable:
            ctx.extra_cov["fsck_reflog_lines_ignored"] = ctx.extra_cov.get("fsck_reflog_lines_ignored", 0) + 1
            continue
        keep.add(l)
    return keep


def _fsck_bad(path: Path, env):
    # the object database only: stale commit-graph / multi-pack-index files written by an earlier `git gc` are C14's business
    rc, out = core.sh(["git", "-C", str(path), "-c", "core.commitGraph=false", "-c", "core.multiPackIndex=false",
                       "fsck", "--no-dangling", "--no-progress"], env=env, timeout=120)
    return {l for l in out.splitlines() if l.startswith(("missing", "broken link", "error", "fatal", "bad "))}


def _git_missing(path: Path, env, ids):
    if not ids:
        return []
    p = subprocess.run(["git", "-C", str(path), "cat-file", "--batch-check"], input="".join(h + "\n" for h in ids).encode(),
                       stdout=subprocess.PIPE, stderr=subprocess.STDOUT, env=env, timeout=120)
    return [l.split()[0] for l in p.stdout.decode(errors="replace").splitlines() if l.endswith(" missing")]


def _restore_closure(w: World, root_id):
    """another process writes back (as loose files) whatever of the closure of `root_id` is not in the repository"""
    from dulwich.object_store import DiskObjectStore
    lo, pk = observe(w.objdir())
    present = set(lo) | {h for ids, _ in pk.values() for h in ids} | set(w.alt_ids)
    other = DiskObjectStore(str(w.objdir()))
    try:
        todo, seen = [root_id], set()
        while todo:
            h = todo.pop()
            if h in seen or h not in w.sha:
                continue
            seen.add(h)
            if h not in present:
                other.add_object(w.sha[h])
            todo.extend(w.kids.get(h, []))
    finally:
        other.close()


def _external_actor(w: World, rng, env, kind):
    """ANOTHER process changes the pack directory (and possibly refs, restored afterwards).  Returns a description."""
    from dulwich.repo import Repo
    from dulwich.gc import garbage_collect

    def git(*a):
        rc, out = core.sh(["git", "-C", str(w.path)] + list(a), env=env, timeout=180)
        if rc != 0:
            raise core.InfraError(f"git {' '.join(a)} failed: {out[-400:]}")
    if kind == "git-branchD-gc-restore":
        cands = sorted(k for k in w.refs if k != b"refs/heads/main") or sorted(w.refs)
        if not cands:
            kind = "git-gc-prune-now"
        else:
            # prefer the side branch of the targeted layout, else any ref
            name = b"refs/heads/side" if b"refs/heads/side" in w.refs else rng.choice(cands)
            val = w.refs[name]
            git("update-ref", "-d", name.decode())
            git("reflog", "expire", "--expire=now", "--all")
            git("gc", "--prune=now", "-q")
            _restore_closure(w, val)
            git("update-ref", name.decode(), val)
            return f"{kind}({name.decode()})"
    if kind == "git-gc-prune-now":
        git("reflog", "expire", "--expire=now", "--all")
        git("gc", "--prune=now", "-q")
    elif kind == "git-repack-ad":
        git("repack", "-a", "-d", "-q")
    elif kind == "git-repack-prune-packed":
        git("repack", "-q")
        git("prune-packed", "-q")
    elif kind == "git-gc":
        git("gc", "-q")
    elif kind.startswith("dulwich-"):
        other = Repo(str(w.path))
        try:
            if kind == "dulwich-repack":
                other.object_store.repack()
            elif kind == "dulwich-gc0":
                garbage_collect(other, grace_period=0)
            else:
                other.object_store.pack_loose_objects()
        finally:
            other.close()
    return kind


STALE_ACTORS = ["git-branchD-gc-restore", "git-branchD-gc-restore", "git-gc-prune-now", "git-repack-ad",
                "git-repack-prune-packed", "git-gc", "dulwich-repack", "dulwich-gc0", "dulwich-packloose"]
STALE_OPS = [("packloose", None), ("packloose", None), ("repack", None), ("gc", 0), ("gc", None), ("gc", 3600),
             ("prune", None), ("prune", 0)]


def stale_case(ctx, idx, stream="stale.maint", targeted=None):
    """targeted = (main_packed, warm, actor, [ops]) for the side-branch layout, else a random repository."""
    from dulwich.repo import Repo
    from dulwich.pack import PackFileDisappeared
    rng = _case_rng(ctx, "st", idx)
    w = World(rng, ctx.scratch / f"st{idx}")
    env = core.clean_env()
    if targeted is not None:
        main_packed, warm, actor, ops = targeted
        steps = _build_side_branch(w, main_packed)
    else:
        steps = build_repo(ctx, w, plain=True)
        warm = rng.choice(["listed", "idx", "idx", "data"])
        actor = rng.choice(STALE_ACTORS)
        ops = [rng.choice(STALE_OPS) for _ in range(rng.randint(1, 3))]
    recs = []
    repo = Repo(str(w.path))          # the long-lived handle
    try:
        st = repo.object_store
        _, known = observe(w.objdir())
        known = dict(known)
        st.packs                      # scan: packs cached
        for pk_ in list(st._pack_cache.values()):
            if warm in ("idx", "data"):
                pk_.index
            if warm == "data":
                pk_.data
        if w.stored and warm == "data":
            for h in rng.sample(sorted(w.stored), min(2, len(w.stored))):
                try:
                    st.get_raw(h.encode())
                except KeyError:
                    pass
        did = _external_actor(w, rng, env, actor)
        if targeted is None and rng.random() < 0.4:
            mutate_refs(w, rng)       # by yet another (fresh) handle
        for si, (opk, g) in enumerate(ops):
            op = {"op": opk, "grace": g, "fresh": False, "all": True}
            cached = list(st._pack_cache.keys())
            loose0, packs0 = observe(w.objdir())
            known.update(packs0)
            alt_ids = set(w.alt_ids)
            present0 = set(loose0) | {h for ids, _ in packs0.values() for h in ids} | alt_ids
            clos = w.closure(w.roots(), present0)
            expected = sorted(clos & present0)
            bad_before = _fsck_bad(w.path, env)
            now = int(time.time())
            order = [b for b in cached if b in packs0] + [b for b in sorted(packs0) if b not in cached]
            view = []
            for b in cached:
                if b in packs0:
                    view.append(f"{packs0[b][1]}:{_enc_ids(sorted(w.n(h) for h in packs0[b][0]))}")
                else:
                    view.append(f"0:{_enc_ids(sorted(w.n(h) for h in known.get(b, (set(), 0))[0]))}")
            view += [f"{packs0[b][1]}:{_enc_ids(sorted(w.n(h) for h in packs0[b][0]))}" for b in order if b not in cached]
            args = _model_state_args(w, loose0, packs0, order, alt_ids)
            n_stale = sum(1 for b in cached if b not in packs0)
            stale_ids = sorted({w.n(h) for b in cached if b not in packs0 for h in known.get(b, (set(), 0))[0]})
            tail = f"{MODEL_OP[opk]} {'none' if g is None else g} {now}"
            mline = f"c10.stepv {args} {';'.join(view) or '-'} - {tail}"
            # prune's walk may still read objects of vanished packs that stay mapped: second line = all of them readable
            mline2 = f"c10.stepv {args} {';'.join(view) or '-'} {_enc_ids(stale_ids)} {tail}" if (opk == "prune" and stale_ids) else None
            try:
                run_real_op(w, repo, op)
                exc = None
            except Exception as e:
                exc = e
            loose1, packs1 = observe(w.objdir())
            case = {"kind": "stale", "case": idx, "seed": ctx.seed, "targeted": targeted, "build": steps, "warm": warm,
                    "external": did, "op": [opk, g], "step": si, "stale_cached_packs": n_stale,
                    "raised": None if exc is None else f"{type(exc).__name__}: {exc}"[:160]}
            ctx.count(stream, (idx, si, opk, str(g), did, warm), True,
                      f"{did.split('(')[0]}:{opk}:{'stale' if n_stale else 'fresh'}:{'raised' if exc else 'ok'}")
            # ---- oracle: everything reachable from refs + HEAD right now is still there, for dulwich and for git
            got, _refs = _read_all(w.path, expected)
            badobj = [h for h in expected if got[h] != w.objs[h]]
            if badobj:
                h = badobj[0]
                ctx.oracle_fail(stream, dict(case, object=h, n_bad=len(badobj)),
                                f"object reachable from refs/HEAD is {'missing' if got[h] is None else 'changed'} after "
                                f"{opk}(grace={g}) from a long-lived handle ({n_stale} cached pack(s) removed by {did}; op "
                                f"{'raised ' + type(exc).__name__ if exc else 'returned'}): {h}", None)
            else:
                miss = _git_missing(w.path, env, expected)
                new_bad = _drop_reflog_only(ctx, _fsck_bad(w.path, env) - bad_before, clos)
                if miss or new_bad:
                    ctx.oracle_fail(stream, dict(case, git_missing=miss[:5], fsck=sorted(new_bad)[:5]),
                                    f"C git no longer finds reachable objects after {opk}(grace={g}) from a long-lived handle: "
                                    f"{(miss or sorted(new_bad))[0]}", None)
            recs.append((mline, case, _canon_real(w, loose1, packs1), exc, PackFileDisappeared, mline2))
            known.update(packs1)
    finally:
        repo.close()
        shutil.rmtree(w.path, ignore_errors=True)
        shutil.rmtree(str(w.path) + "-alt", ignore_errors=True)
    return recs


def _compare_stale(ctx, recs, stream):
    lines = []
    for r in recs:
        lines.append(r[0])
        lines.append(r[5] or r[0])
    outs = ctx.driver.batch(lines)
    for i, (mline, case, real_state, exc, PFD, mline2) in enumerate(recs):
        o, o2 = outs[2 * i], outs[2 * i + 1]
        ctx.count(stream + ".model", (case["case"], case["step"], real_state), True)
        parts, parts2 = o.split("|raised="), o2.split("|raised=")
        if len(parts) != 2 or len(parts2) != 2:
            ctx.disagree(stream + ".model", dict(case, line=mline[:500]), o, real_state)
            continue
        real_raised = "1" if isinstance(exc, PFD) else ("0" if exc is None else type(exc).__name__)
        ok = parts[0] == real_state and parts[1] == real_raised
        if not ok and mline2 is not None and parts[1] == parts2[1] == real_raised:
            # between the two bounds: loose(model, nothing stale readable) <= loose(real) <= loose(model, all stale readable)
            def split(st):
                lo, pk = st.split("|P=")
                return set(lo[2:].split(",")) - {"-", ""}, pk
            (l1, p1), (l2, p2), (lr, pr) = split(parts[0]), split(parts2[0]), split(real_state)
            ok = p1 == p2 == pr and l1 <= lr <= l2
        if not ok:
            ctx.disagree(stream + ".model", dict(case, line=mline[:500]), o + (" .. " + o2 if mline2 else ""),
                         f"{real_state}|raised={real_raised}")


def _stream_stale(ctx, ncases, stream="stale.maint", first_idx=0):
    recs = []
    k = 0
    # the layout of the seeded scenario first: every warm level x the maintenance ops, main branch packed or loose
    for main_packed in (True, False):
        for warm in ("listed", "idx", "data"):
            for ops in ([("packloose", None)], [("repack", None)], [("packloose", None), ("gc", 0)], [("gc", None)],
                        [("prune", None), ("packloose", None)]):
                recs += stale_case(ctx, first_idx + 700000 + k, stream, (main_packed, warm, "git-branchD-gc-restore", ops))
                k += 1
    for i in range(ncases):
        recs += stale_case(ctx, first_idx + i, stream)
    _compare_stale(ctx, recs, stream)


# ------------------------------------------------------------------------------------------------
# sched.writer: a WRITER lands a new pack (and points a ref at it) while maintenance runs

_REFFILE = _re.compile(r"(refs/.+|packed-refs|HEAD)$")
W_MAINT = ["repack", "repack", "packloose", "gc0", "gcNone", "gc3600", "porcelain-gc"]
W_WRITERS = ["add_objects", "add_pack", "thin", "fetch"]


def _maint_significant(call, paths):
    dst = paths[-1] if paths else ""
    return (call == "listdir" and dst == "objects/pack") or _packer_significant(call, paths)


def _writer_significant(call, paths):
    dst = paths[-1] if paths else ""
    if call in ("rename", "replace") and (_PACKFILE.fullmatch(dst or "") or _LOOSEFILE.fullmatch(dst or "")
                                          or _REFFILE.fullmatch(dst or "")):
        return True
    return False


class WScenario:
    pass


def build_wscenario(ctx, idx, seed=None):
    """Template repository + a source repository (outside the watched root) that has the writer's new commit."""
    import random
    from dulwich.repo import Repo
    from dulwich.objects import Blob, Tree, Commit
    rng = _case_rng(ctx, "wr", idx) if seed is None else random.Random(f"C10:{seed}:wr:{idx}")
    sc = WScenario()
    sc.idx = idx
    sc.template = ctx.scratch / f"wr{idx}-tpl"
    sc.src = ctx.scratch / f"wr{idx}-src"
    for d in (sc.template, sc.src):
        shutil.rmtree(d, ignore_errors=True)
        d.mkdir(parents=True)
    salt = rng.getrandbits(30)

    def commit(tree, parents, n):
        c = Commit()
        c.tree = tree.id
        c.parents = [p.id for p in parents]
        c.author = c.committer = b"A U Thor <a@example.com>"
        c.author_time = c.commit_time = 1000 + n
        c.author_timezone = c.commit_timezone = 0
        c.message = b"w %d %d\n" % (salt, n)
        return c
    b = [Blob.from_string(b"base %d %d\n" % (salt, i) + b"y" * 50) for i in range(3)]
    t0 = Tree()
    for i, x in enumerate(b):
        t0.add(b"f%d" % i, 0o100644, x.id)
    c0 = commit(t0, [], 0)
    u_old = Blob.from_string(b"unreachable old %d\n" % salt)
    u_young = Blob.from_string(b"unreachable young %d\n" % salt)
    nb = Blob.from_string(b"base %d 0\n" % salt + b"y" * 50 + b"new line\n")   # delta-able against b[0]
    nt = Tree()
    nt.add(b"f0", 0o100644, b[0].id)
    nt.add(b"n", 0o100644, nb.id)
    nc = commit(nt, [c0], 1)
    base = b + [t0, c0]
    sc.base = {o.id.decode(): (o.type_num, o.as_raw_string()) for o in base}
    sc.new = {o.id.decode(): (o.type_num, o.as_raw_string()) for o in (nb, nt, nc)}
    sc.kids = {nc.id.decode(): [nt.id.decode(), c0.id.decode()], nt.id.decode(): [b[0].id.decode(), nb.id.decode()],
               c0.id.decode(): [t0.id.decode()], t0.id.decode(): [x.id.decode() for x in b]}
    sc.objs = dict(sc.base, **sc.new)
    sc.objs[u_old.id.decode()] = (u_old.type_num, u_old.as_raw_string())
    sc.objs[u_young.id.decode()] = (u_young.type_num, u_young.as_raw_string())
    sc.u_old, sc.u_young = u_old.id.decode(), u_young.id.decode()
    sc.c0, sc.nc, sc.b0 = c0.id.decode(), nc.id.decode(), b[0].id.decode()
    sc.writer_objs = (nb, nt, nc)
    repo = Repo.init_bare(str(sc.template))
    st = repo.object_store
    names = list(base)
    rng.shuffle(names)
    npacks = rng.choice([1, 1, 2])
    cut = sorted(rng.sample(range(len(names) + 1), npacks))
    groups, prev = [], 0
    for c_ in cut:
        groups.append(names[prev:c_])
        prev = c_
    rest = names[prev:]
    ages = {}
    for g_ in groups:
        if g_:
            pk = st.add_objects([(o, None) for o in g_])
            ages[pk._basename + ".pack"] = 7200
            ages[pk._basename + ".idx"] = 7200
    for o in rest:
        st.add_object(o)
    where_u = rng.choice(["loose", "pack"])
    if where_u == "loose":
        st.add_object(u_old)
    else:
        pk = st.add_objects([(u_old, None)])
        ages[pk._basename + ".pack"] = 7200
        ages[pk._basename + ".idx"] = 7200
    st.add_object(u_young)
    repo.refs[b"refs/heads/main"] = c0.id
    repo.close()
    now = time.time()
    for dp, _, fs in os.walk(sc.template / "objects"):
        for f in fs:
            pth = os.path.join(dp, f)
            age = 60 if f == u_young.id.decode()[2:] else 7200
            os.utime(pth, (now - age, now - age))
    core.sh(["git", "-C", str(sc.template), "config", "receive.unpackLimit", "1"], env=core.clean_env())
    core.sh(["git", "-C", str(sc.template), "config", "fetch.unpackLimit", "1"], env=core.clean_env())
    srepo = Repo.init_bare(str(sc.src))
    srepo.object_store.add_objects([(o, None) for o in base + [nb, nt, nc]])
    srepo.refs[b"refs/heads/new"] = nc.id
    srepo.refs[b"refs/heads/main"] = c0.id
    srepo.close()
    sc.maint = rng.choice(W_MAINT)
    sc.writer = rng.choice(W_WRITERS)
    sc.refmode = rng.choice(["new-ref", "move-main"])
    sc.layout = {"packs": [len(g_) for g_ in groups if g_], "loose": len(rest), "u_old": where_u}
    return sc


def _wdescribe(sc):
    return {"maint": sc.maint, "writer": sc.writer, "refmode": sc.refmode, "layout": sc.layout}


def _maint_fn(sc, work):
    def fn():
        from dulwich.repo import Repo
        from dulwich.gc import garbage_collect
        from dulwich import porcelain
        repo = Repo(str(work))
        try:
            m = sc.maint
            if m == "repack":
                repo.object_store.repack()
            elif m == "packloose":
                repo.object_store.pack_loose_objects()
            elif m == "gc0":
                garbage_collect(repo, grace_period=0)
            elif m == "gcNone":
                garbage_collect(repo, grace_period=None)
            elif m == "gc3600":
                garbage_collect(repo, grace_period=3600)
            else:
                porcelain.gc(repo)
        finally:
            repo.close()
    return fn


def _writer_fn(sc, work):
    def fn():
        from io import BytesIO
        from dulwich.repo import Repo
        from dulwich.pack import REF_DELTA, write_pack_objects
        from dulwich.tests.utils import build_pack
        repo = Repo(str(work))
        try:
            st = repo.object_store
            nb, nt, nc = sc.writer_objs
            if sc.writer == "add_objects":
                st.add_objects([(o, None) for o in (nb, nt, nc)])
            elif sc.writer == "add_pack":
                f, commit, abort = st.add_pack()
                try:
                    write_pack_objects(f.write, [(o, None) for o in (nb, nt, nc)], object_format=st.object_format)
                except BaseException:
                    abort()
                    raise
                commit()
            elif sc.writer == "thin":
                buf = BytesIO()
                build_pack(buf, [(REF_DELTA, (sc.b0.encode(), nb.as_raw_string())), (nt.type_num, nt.as_raw_string()),
                                 (nc.type_num, nc.as_raw_string())], st)
                st.add_thin_pack(buf.read, None)
            else:
                from dulwich.client import LocalGitClient
                LocalGitClient().fetch(str(sc.src), repo, determine_wants=lambda *a, **kw: [nc.id])
            if sc.refmode == "new-ref":
                return repo.refs.set_if_equals(b"refs/heads/new", None, nc.id)
            return repo.refs.set_if_equals(b"refs/heads/main", sc.c0.encode(), nc.id)
        finally:
            repo.close()
    return fn


def _run_writer_schedule(ctx, sc, work, schedule, external=None):
    """Both actors on a fresh copy following the block schedule.  Returns (scheduler, released sequence)."""
    from harness import sched as S
    shutil.rmtree(work, ignore_errors=True)
    shutil.copytree(sc.template, work, symlinks=True)
    s = S.Scheduler(str(work))
    s.spawn("M", _maint_fn(sc, work))
    if external is None:
        s.spawn("W", _writer_fn(sc, work))
    seq = list(schedule)
    state = {"cur": None, "done": True, "mblocks": 0}
    released = []

    def choose(pending, history):
        if state["cur"] is None or state["done"] or state["cur"] not in pending:
            a = None
            while seq:
                t = seq.pop(0)
                if t in pending:
                    a = t
                    break
            if a is None:
                a = sorted(pending)[0]
            state["cur"], state["done"] = a, False
        a = state["cur"]
        call, paths = pending[a]
        if (_maint_significant if a == "M" else _writer_significant)(call, paths):
            state["done"] = True
            if a == "M":
                if external is not None and state["mblocks"] == external[0]:
                    s.ext_at = len([e for e in history if e[1] != "start"])
                    external[1]()
                state["mblocks"] += 1
        released.append(a)
        return a
    s.run(choose)
    if external is not None and state["mblocks"] <= external[0]:
        s.ext_at = len([e for e in s.history if e[1] != "start"])
        external[1]()
    return s, released


def _wblock_lengths(ctx, sc, work):
    lens = {}
    for a, fn, sig in (("M", _maint_fn(sc, work), _maint_significant), ("W", _writer_fn(sc, work), _writer_significant)):
        from harness import sched as S
        shutil.rmtree(work, ignore_errors=True)
        shutil.copytree(sc.template, work, symlinks=True)
        s = S.Scheduler(str(work))
        s.spawn(a, fn)
        ev = s.run([])
        lens[a] = sum(1 for e in ev if sig(e[1], e[2])) + 1
    return lens


def _writer_oracle(ctx, stream, sc, work, s, released, schedule, bad_before, env, extra_case=None):
    """After both actors have finished: refs' closure readable (fresh store, git fsck --connectivity-only); what is gone
    was unreachable when maintenance started and older than the grace period."""
    hist = [e for e in s.history if e[1] != "start"]
    mexc = s.results["M"].exc
    wres = s.results.get("W")
    wexc = wres.exc if wres is not None else None
    case = dict({"kind": "writer", "scenario_idx": sc.idx, "seed": ctx.seed, "scenario": _wdescribe(sc),
                 "schedule": list(schedule), "released": _rle(released),
                 "maint_raised": None if mexc is None else f"{type(mexc).__name__}: {mexc}"[:120],
                 "writer_raised": None if wexc is None else f"{type(wexc).__name__}: {wexc}"[:120],
                 "pack_events": [(e[0], e[1], (e[2][-1] or "")[-52:]) for e in hist
                                 if e[3] == "ok" and (_packer_significant(e[1], e[2]) or
                                                      (e[1] == "listdir" and e[2][-1] == "objects/pack") or
                                                      (e[1] in ("rename", "replace") and _REFFILE.fullmatch(e[2][-1] or "")))][:80]},
                **(extra_case or {}))
    from dulwich.repo import Repo
    repo = Repo(str(work))
    try:
        refs = {}
        for k in repo.refs.allkeys():
            try:
                refs[k] = repo.refs[k].decode()
            except KeyError:
                pass
        roots = set(refs.values())
        clos, todo = set(), list(roots)
        while todo:
            h = todo.pop()
            if h not in clos:
                clos.add(h)
                todo.extend(sc.kids.get(h, []))
        bad = []
        for h in sorted(clos):
            try:
                got = repo.object_store.get_raw(h.encode())
            except KeyError:
                got = None
            if got != sc.objs.get(h):
                bad.append(h)
    finally:
        repo.close()
    tag = f"{sc.maint}:{sc.writer}:{'Wraised' if wexc else 'Wok'}:{'Mraised' if mexc else 'Mok'}"
    n_fail = 0
    grace = {"gc0": 0, "gcNone": None, "gc3600": 3600, "porcelain-gc": GIT_DEFAULT_GRACE}.get(sc.maint, "no-prune")
    # -- how the writer's pack fared, from the events
    w_packs = {_PACKFILE.fullmatch(e[2][-1]).group(1) for e in hist if e[0] == "W" and e[1] in ("rename", "replace")
               and e[3] == "ok" and _PACKFILE.fullmatch(e[2][-1] or "")}
    m_rm = [(_PACKFILE.fullmatch(e[2][-1]).group(1), _PACKFILE.fullmatch(e[2][-1]).group(2)) for e in hist
            if e[0] == "M" and e[1] in ("remove", "unlink") and e[3] == "ok" and _PACKFILE.fullmatch(e[2][-1] or "")]
    m_rm_w_data = any(n in w_packs and ext == "pack" for n, ext in m_rm)
    m_rm_w_idx = any(n in w_packs and ext == "idx" for n, ext in m_rm)
    # gc(grace_period=0) ends with object_store.prune(grace_period=0): a `.pack` whose `.idx` has not arrived yet counts
    # as an orphaned temporary file of age > 0 and is deleted — while its writer is still installing it
    tempfile_case = sc.maint == "gc0" and m_rm_w_data and not m_rm_w_idx
    # the one exemption: pruning with no grace period objects that were on disk but not yet referenced when the
    # reachability scan read the refs (a ref created between the scan and the deletion)
    t_ref = max([i for i, e in enumerate(hist) if e[0] == "W" and e[1] in ("rename", "replace")
                 and _REFFILE.fullmatch(e[2][-1] or "")] or [-1])
    t_pack = max([i for i, e in enumerate(hist) if e[0] == "W" and e[1] in ("rename", "replace")
                  and _PACKFILE.fullmatch(e[2][-1] or "")] or [10 ** 9])
    m_refread = min([i for i, e in enumerate(hist) if e[0] == "M" and _REFFILE.fullmatch((e[2][-1] if e[2] else "") or "")]
                    or [10 ** 9])
    m_first_rm = min([i for i, e in enumerate(hist) if e[0] == "M" and e[1] in ("remove", "unlink")
                      and (e[2][-1] or "").startswith("objects/")] or [10 ** 9])
    m_lists = [i for i, e in enumerate(hist) if e[0] == "M" and e[1] == "listdir" and e[2][-1] == "objects/pack"
               and i < m_first_rm]
    ext_at = getattr(s, "ext_at", None)
    if ext_at is not None:      # an external process landed the pack and the ref just before history[ext_at]
        t_ref = t_pack = ext_at - 0.5
    exempt = grace in (0, None) and t_ref > m_refread and bool(m_lists) and t_pack < max(m_lists)

    def new_objects_lost(what, lost):
        nonlocal n_fail, tag
        if tempfile_case:
            ctx.oracle_fail(stream, dict(case, lost=lost), what + " — gc(grace_period=0)'s temp-file prune deleted the pack "
                            "while its index was still being written", CLS_TMPPRUNE)
            n_fail += 1
        elif exempt:
            tag += ":exempt-scan-race"
        else:
            ctx.oracle_fail(stream, dict(case, lost=lost), what, None)
            n_fail += 1
    if bad:
        if set(bad) <= set(sc.new):
            new_objects_lost(f"after {sc.maint} and a concurrent {sc.writer} writer both finished, "
                             f"{[k.decode() for k, v in refs.items() if v == sc.nc][:2]} point at the writer's commit whose "
                             f"objects are gone: {bad[0]}", bad)
        else:
            ctx.oracle_fail(stream, dict(case, refs={k.decode(): v for k, v in refs.items()}, missing=bad),
                            f"after {sc.maint} and a concurrent {sc.writer} writer both finished a base object reachable from "
                            f"the refs is gone: {bad[0]}", None)
            n_fail += 1
    else:
        rc, out = core.sh(["git", "-C", str(work), "-c", "core.commitGraph=false", "-c", "core.multiPackIndex=false", "fsck",
                           "--connectivity-only", "--no-dangling", "--no-progress"], env=env, timeout=120)
        new_bad = {l for l in out.splitlines() if l.startswith(("missing", "broken link", "error", "fatal", "bad "))} - bad_before
        new_bad = _drop_reflog_only(ctx, new_bad, clos)
        if new_bad:
            ctx.oracle_fail(stream, dict(case, fsck=sorted(new_bad)[:5]),
                            f"git fsck --connectivity-only after {sc.maint} + concurrent {sc.writer}: {sorted(new_bad)[0]}", None)
            n_fail += 1
    # what is gone?
    lo, pk = observe(work / "objects")
    present = set(lo) | {h for ids, _ in pk.values() for h in ids}
    for h in sorted(set(sc.base) - present):
        ctx.oracle_fail(stream, dict(case, object=h), f"base object (reachable when {sc.maint} started) is gone: {h}", None)
        n_fail += 1
    for h, age in ((sc.u_old, 7200), (sc.u_young, 60)):
        if h not in present and (grace == "no-prune" or (grace is not None and age < grace)):
            ctx.oracle_fail(stream, dict(case, object=h, age=age, grace=grace),
                            f"unreachable object only {age} s old disappeared during {sc.maint} (grace {grace})", None)
            n_fail += 1
    if (wres is not None or ext_at is not None) and wexc is None and not bad:
        gone_new = sorted(set(sc.new) - present)
        if gone_new:
            new_objects_lost(f"objects the {sc.writer} writer stored while {sc.maint} ran are gone although the writer "
                             f"succeeded: {gone_new[0]}", gone_new)
    sc.last_tempfile_case = tempfile_case
    if wexc is not None or mexc is not None:
        d = ctx.extra_cov.setdefault("writer_stream_exceptions", {})
        for who, e in (("W", wexc), ("M", mexc)):
            if e is not None:
                k = f"{who}:{sc.maint}:{sc.writer}:{type(e).__name__}"
                d[k] = d.get(k, 0) + 1
    ctx.count(stream, (sc.idx, tuple(schedule), sc.maint, sc.writer), True, tag)
    return n_fail, hist, pk


def _mexec_line(sc, hist, pk_final):
    """Abstract the run for the Lean procedure model (repack-like maintenance only): initial packs, the writer's pack
    becoming complete relative to the repacker's steps, final packs."""
    names = {}

    def num(n):
        return names.setdefault(n, len(names) + 1)
    m_installs = [i for i, e in enumerate(hist) if e[0] == "M" and e[1] in ("rename", "replace") and e[3] == "ok"
                  and _PACKFILE.fullmatch(e[2][-1] or "")]
    if not m_installs:
        return None
    inst_idx = max(i for i in m_installs if hist[i][2][-1].endswith(".idx")) if any(hist[i][2][-1].endswith(".idx") for i in m_installs) else None
    inst_data = min(m_installs)
    if inst_idx is None:
        return None
    newp = _PACKFILE.fullmatch(hist[inst_idx][2][-1]).group(1)
    lists = [i for i, e in enumerate(hist) if e[0] == "M" and e[1] == "listdir" and e[2][-1] == "objects/pack" and i < inst_data]
    if len(lists) < 2:
        return None
    snap_t = lists[-2]          # `old_packs = {... for p in self.packs}`; lists[-1] is _complete_pack's own listing
    w_idx = [i for i, e in enumerate(hist) if e[0] == "W" and e[1] in ("rename", "replace") and e[3] == "ok"
             and (e[2][-1] or "").endswith(".idx") and _PACKFILE.fullmatch(e[2][-1] or "")]
    removes = [i for i, e in enumerate(hist) if e[0] == "M" and e[1] in ("remove", "unlink") and e[3] == "ok"
               and (e[2][-1] or "").endswith(".pack") and _PACKFILE.fullmatch(e[2][-1] or "")]
    lo, pk0 = observe(sc.template / "objects")
    init = sorted(pk0)
    toks = []
    wname = _PACKFILE.fullmatch(hist[w_idx[0]][2][-1]).group(1) if w_idx else None
    if wname == newp:
        return None
    wt = w_idx[0] if w_idx else None
    pending_w = wt is not None
    if pending_w and wt < snap_t:
        init.append(wname)
        pending_w = False
    marks = [snap_t, inst_idx, (removes[0] if removes else 10 ** 9)] + removes
    # model steps: start | install | fix targets | one per removed pack | finish
    steps = [snap_t, inst_idx, (removes[0] - 0.5 if removes else inst_idx + 0.5)] + removes + [10 ** 9]
    for t in steps:
        if pending_w and wt < t:
            toks.append(f"i{num(wname)}")
            pending_w = False
        toks.append("m")
    if pending_w:
        toks.append(f"i{num(wname)}")
    toks.append("m")
    init_nums = [num(n) for n in init]
    line = " ".join(["c10.mexec", "0", str(num(newp)), _enc_ids(init_nums)] + toks)
    want = _enc_ids(sorted(num(n) for n in pk_final if n in names or True)) + "|done"
    return line, want


def run_wscenario(ctx, sc, stream, max_pre, cap, nrandom, only=None):
    from harness import sched as S
    rng = _case_rng(ctx, "wrs", sc.idx)
    work = ctx.scratch / f"wr{sc.idx}-work"
    env = core.clean_env()
    rc, out = core.sh(["git", "-C", str(sc.template), "-c", "core.commitGraph=false", "fsck", "--connectivity-only",
                       "--no-dangling", "--no-progress"], env=env, timeout=120)
    bad_before = {l for l in out.splitlines() if l.startswith(("missing", "broken link", "error", "fatal", "bad "))}
    if only is not None:
        schedules = [list(x) for x in only]
    else:
        lens = _wblock_lengths(ctx, sc, work)
        schedules = _schedules_for(ctx, rng, lens, max_pre, cap) + [_random_schedule(rng, lens) for _ in range(nrandom)]
    lines, wants, metas = [], [], []
    seen = set()
    for schedule in schedules:
        if tuple(schedule) in seen:
            continue
        seen.add(tuple(schedule))
        s, released = _run_writer_schedule(ctx, sc, work, schedule)
        nf, hist, pk_final = _writer_oracle(ctx, stream, sc, work, s, released, schedule, bad_before, env)
        if sc.maint != "packloose" and s.results["M"].exc is None and s.results["W"].exc is None \
                and not sc.last_tempfile_case:
            ml = _mexec_line(sc, hist, pk_final)
            if ml is not None:
                lines.append(ml[0])
                # final packs in the model's numbering: recompute with the same naming
                wants.append((ml, hist, pk_final))
                metas.append({"kind": "writer", "scenario_idx": sc.idx, "seed": ctx.seed, "scenario": _wdescribe(sc),
                              "schedule": list(schedule)})
    shutil.rmtree(work, ignore_errors=True)
    if lines:
        outs = ctx.driver.batch(lines)
        for (ml, hist, pk_final), meta, o in zip(wants, metas, outs):
            ctx.count(stream + ".model", (sc.idx, ml[0]), True, sc.maint)
            # compare the NUMBER of complete packs and whether the writer's pack is among them (names are abstracted)
            model_n = 0 if o.split("|")[0] == "-" else len(o.split("|")[0].split(","))
            if not o.endswith("|done") or model_n != len(pk_final):
                ctx.disagree(stream + ".model", dict(meta, line=ml[0]), o, f"{len(pk_final)} packs at the end: {sorted(pk_final)}")
    return len(seen)


def _stream_writer(ctx, nscen, max_pre, cap, nrandom, stream="sched.writer", first_idx=0):
    total = 0
    for i in range(nscen):
        sc = build_wscenario(ctx, first_idx + i)
        if i < len(W_MAINT):          # every maintenance op at least once, against rotating writers
            sc.maint = sorted(set(W_MAINT))[i % len(set(W_MAINT))]
            sc.writer = W_WRITERS[i % len(W_WRITERS)]
        try:
            total += run_wscenario(ctx, sc, stream, max_pre, cap, nrandom)
        finally:
            shutil.rmtree(sc.template, ignore_errors=True)
            shutil.rmtree(sc.src, ignore_errors=True)
    ctx.extra_cov["writer_schedules"] = ctx.extra_cov.get("writer_schedules", 0) + total


def _stream_writer_git(ctx, nscen, stream="sched.writer.git", first_idx=400000):
    """thorough: a real `git fetch` / `git push` PROCESS lands the pack and the ref between two maintenance steps"""
    env = core.clean_env()
    total = 0
    for i in range(nscen):
        sc = build_wscenario(ctx, first_idx + i)
        sc.writer = "git-fetch" if i % 2 == 0 else "git-push"
        sc.refmode = "new-ref"
        work = ctx.scratch / f"wr{sc.idx}-work"
        try:
            rc, out = core.sh(["git", "-C", str(sc.template), "-c", "core.commitGraph=false", "fsck", "--connectivity-only",
                               "--no-dangling", "--no-progress"], env=env, timeout=120)
            bad_before = {l for l in out.splitlines() if l.startswith(("missing", "broken link", "error", "fatal", "bad "))}
            from harness import sched as S
            shutil.rmtree(work, ignore_errors=True)
            shutil.copytree(sc.template, work, symlinks=True)
            s0 = S.Scheduler(str(work))
            s0.spawn("M", _maint_fn(sc, work))
            nblocks = sum(1 for e in s0.run([]) if _maint_significant(e[1], e[2])) + 1
            for k in range(nblocks + 1):
                def ext(work=work):
                    if sc.writer == "git-fetch":
                        cmd = ["git", "-C", str(work), "fetch", "-q", str(sc.src), "refs/heads/new:refs/heads/new"]
                    else:
                        cmd = ["git", "-C", str(sc.src), "push", "-q", str(work), "refs/heads/new:refs/heads/new"]
                    rc, out = core.sh(cmd, env=env, timeout=120)
                    if rc != 0:
                        raise core.InfraError(f"{' '.join(cmd)} failed: {out[-300:]}")
                s, released = _run_writer_schedule(ctx, sc, work, [], external=(k, ext))
                _writer_oracle(ctx, stream, sc, work, s, released, [f"{sc.writer}-before-maintenance-block-{k}"], bad_before,
                               env, {"external_before_block": k})
                total += 1
        finally:
            for d in (sc.template, sc.src, work):
                shutil.rmtree(d, ignore_errors=True)
    ctx.extra_cov["writer_git_runs"] = ctx.extra_cov.get("writer_git_runs", 0) + total


# ------------------------------------------------------------------------------------------------
# sched.refs: the ROOT ENUMERATION of gc / prune races with a ref packer

CLS_REFS_NONE = None


def _refs_read(call, paths):
    p = (paths[-1] if paths else "") or ""
    return call in ("open-r", "listdir", "scandir", "stat", "lstat", "access") and \
        (p == "HEAD" or p == "packed-refs" or p == "refs" or p.startswith("refs/"))


def _refs_write(call, paths):
    p = (paths[-1] if paths else "") or ""
    return (call in ("rename", "replace") and p == "packed-refs") or \
        (call in ("remove", "unlink", "rmdir") and p.startswith("refs/"))


def build_rscenario(ctx, idx):
    """Refs with otherwise unreachable closures: some loose only, some packed only, some both; all objects old."""
    from dulwich.repo import Repo
    from dulwich.objects import Blob, Tree, Commit
    rng = _case_rng(ctx, "rf", idx)
    sc = WScenario()
    sc.idx = idx
    sc.template = ctx.scratch / f"rf{idx}-tpl"
    shutil.rmtree(sc.template, ignore_errors=True)
    sc.template.mkdir(parents=True)
    repo = Repo.init_bare(str(sc.template))
    st = repo.object_store
    salt = rng.getrandbits(30)
    sc.objs, sc.kids, sc.refs = {}, {}, {}
    names = [b"refs/heads/main", b"refs/heads/a", b"refs/heads/d/e", b"refs/tags/t1", b"refs/remotes/o/x", b"refs/notes/n"]
    rng.shuffle(names)
    names = names[: rng.randint(3, 6)]
    if b"refs/heads/main" not in names:
        names[0] = b"refs/heads/main"
    kinds = {}
    for i, n in enumerate(names):
        bl = Blob.from_string(b"ref %d %d\n" % (salt, i))
        tr = Tree()
        tr.add(b"f", 0o100644, bl.id)
        c = Commit()
        c.tree = tr.id
        c.author = c.committer = b"A U Thor <a@example.com>"
        c.author_time = c.commit_time = 1000 + i
        c.author_timezone = c.commit_timezone = 0
        c.message = b"r %d %d\n" % (salt, i)
        for o, ks in ((bl, []), (tr, [bl]), (c, [tr])):
            sc.objs[o.id.decode()] = (o.type_num, o.as_raw_string())
            sc.kids[o.id.decode()] = [k.id.decode() for k in ks]
        if rng.random() < 0.5:
            st.add_objects([(bl, None), (tr, None), (c, None)])
        else:
            for o in (bl, tr, c):
                st.add_object(o)
        sc.refs[n] = c.id.decode()
        kinds[n] = rng.choice(["loose", "loose", "packed", "both"])
        repo.refs[n] = c.id
    junk = Blob.from_string(b"unreachable %d\n" % salt)
    st.add_object(junk)
    sc.objs[junk.id.decode()] = (junk.type_num, junk.as_raw_string())
    repo.close()
    env = core.clean_env()
    # packed-only: pack them all with git, then re-create the loose files of the "loose"/"both" ones
    packed = [n for n in names if kinds[n] in ("packed", "both")]
    if packed:
        core.sh(["git", "-C", str(sc.template), "pack-refs", "--all", "--prune"], env=env)
        # drop the "loose"-only ones from packed-refs again
        keep = [l for l in (sc.template / "packed-refs").read_bytes().splitlines(True)
                if l.startswith(b"#") or l.split()[-1] in packed or l.startswith(b"^")]
        (sc.template / "packed-refs").write_bytes(b"".join(keep))
        for n in names:
            if kinds[n] in ("loose", "both"):
                pth = sc.template / n.decode()
                pth.parent.mkdir(parents=True, exist_ok=True)
                pth.write_bytes(sc.refs[n].encode() + b"\n")
    old = time.time() - 7200
    for dp, _, fs in os.walk(sc.template / "objects"):
        for f in fs:
            os.utime(os.path.join(dp, f), (old, old))
    sc.kinds = {k.decode(): v for k, v in kinds.items()}
    sc.maint = rng.choice(["prune-none", "prune-none", "prune-0", "gc0", "gcNone", "repack-exclude"])
    sc.packer = rng.choice(["dulwich", "dulwich", "git"])
    return sc


def _rmaint_fn(sc, work):
    def fn():
        from dulwich.repo import Repo
        from dulwich.gc import garbage_collect, prune_unreachable_objects, find_unreachable_objects
        repo = Repo(str(work))
        try:
            m = sc.maint
            if m == "prune-none":
                prune_unreachable_objects(repo.object_store, repo.refs, grace_period=None)
            elif m == "prune-0":
                prune_unreachable_objects(repo.object_store, repo.refs, grace_period=0)
            elif m == "gc0":
                garbage_collect(repo, grace_period=0)
            elif m == "gcNone":
                garbage_collect(repo, grace_period=None)
            else:
                repo.object_store.repack(exclude=find_unreachable_objects(repo.object_store, repo.refs))
        finally:
            repo.close()
    return fn


def _rpacker_fn(sc, work):
    def fn():
        from dulwich.repo import Repo
        repo = Repo(str(work))
        try:
            repo.refs.pack_refs(all=True)
        finally:
            repo.close()
    return fn


def _run_refs_schedule(ctx, sc, work, schedule, git_at=None):
    from harness import sched as S
    shutil.rmtree(work, ignore_errors=True)
    shutil.copytree(sc.template, work, symlinks=True)
    s = S.Scheduler(str(work))
    s.spawn("M", _rmaint_fn(sc, work))
    if git_at is None:
        s.spawn("P", _rpacker_fn(sc, work))
    seq = list(schedule)
    env = core.clean_env()
    state = {"cur": None, "done": True, "mblocks": 0}

    def choose(pending, history):
        if state["cur"] is None or state["done"] or state["cur"] not in pending:
            a = None
            while seq:
                t = seq.pop(0)
                if t in pending:
                    a = t
                    break
            if a is None:
                a = sorted(pending)[0]
            state["cur"], state["done"] = a, False
        a = state["cur"]
        call, paths = pending[a]
        if (a == "M" and _refs_read(call, paths)) or (a == "P" and _refs_write(call, paths)):
            state["done"] = True
            if a == "M":
                if git_at is not None and state["mblocks"] == git_at:
                    rc, out = core.sh(["git", "-C", str(work), "pack-refs", "--all", "--prune"], env=env, timeout=60)
                    if rc != 0 and ".lock" not in out:     # losing the race for packed-refs.lock is a clean failure
                        raise core.InfraError("git pack-refs failed: " + out[-300:])
                    state["git_failed"] = rc != 0
                state["mblocks"] += 1
        return a
    s.run(choose)
    return s


def _refs_oracle(ctx, stream, sc, work, s, schedule, extra=None):
    from dulwich.repo import Repo
    hist = [e for e in s.history if e[1] != "start"]
    mexc = s.results["M"].exc
    pexc = s.results["P"].exc if "P" in s.results else None
    case = dict({"kind": "refs", "scenario_idx": sc.idx, "seed": ctx.seed, "maint": sc.maint, "packer": sc.packer,
                 "ref_kinds": sc.kinds, "schedule": list(schedule),
                 "maint_raised": None if mexc is None else f"{type(mexc).__name__}: {mexc}"[:120],
                 "packer_raised": None if pexc is None else f"{type(pexc).__name__}: {pexc}"[:120],
                 "ref_events": [(e[0], e[1], (e[2][-1] or "")[-40:], e[3]) for e in hist
                                if _refs_read(e[1], e[2]) or _refs_write(e[1], e[2])][:120]}, **(extra or {}))
    repo = Repo(str(work))
    bad_refs, bad_objs = [], []
    try:
        for n, v in sc.refs.items():
            try:
                now_v = repo.refs[n].decode()
            except KeyError:
                now_v = None
            if now_v != v:
                bad_refs.append((n.decode(), now_v))
                continue
            todo = [v]
            while todo:
                h = todo.pop()
                try:
                    got = repo.object_store.get_raw(h.encode())
                except KeyError:
                    got = None
                if got != sc.objs[h]:
                    bad_objs.append((n.decode(), h))
                todo.extend(sc.kids.get(h, []))
    finally:
        repo.close()
    ctx.count(stream, (sc.idx, tuple(schedule), sc.maint, sc.packer), True,
              f"{sc.maint}:{sc.packer}:{'Mraised' if mexc else 'Mok'}:{'Praised' if pexc else 'Pok'}")
    if bad_refs:
        ctx.oracle_fail(stream, dict(case, refs=bad_refs), f"ref {bad_refs[0][0]} changed or vanished while {sc.packer} "
                        f"pack-refs and {sc.maint} ran (now {bad_refs[0][1]})", "ref-lost-by-packer")
    if bad_objs:
        ctx.oracle_fail(stream, dict(case, lost=bad_objs[:6]),
                        f"{bad_objs[0][0]} (stored {sc.kinds[bad_objs[0][0]]}, same value throughout) reaches {bad_objs[0][1][:10]} "
                        f"which is gone after {sc.maint} ran while {sc.packer} pack-refs packed the refs", None)
        return
    rc, out = core.sh(["git", "-C", str(work), "-c", "core.commitGraph=false", "fsck", "--connectivity-only", "--no-dangling",
                       "--no-progress"], env=core.clean_env(), timeout=120)
    bad = _drop_reflog_only(ctx, {l for l in out.splitlines() if l.startswith(("missing", "broken link", "error", "fatal", "bad "))},
                            set(sc.objs))
    if bad:
        ctx.oracle_fail(stream, dict(case, fsck=sorted(bad)[:5]), f"git fsck --connectivity-only after {sc.maint} + pack-refs: "
                        f"{sorted(bad)[0]}", None)


def _stream_refs(ctx, nscen, max_pre, cap, nrandom, stream="sched.refs", first_idx=0, only=None):
    from harness import sched as S
    total = 0
    lines, wants, metas = [], [], []
    for i in range(nscen):
        sc = build_rscenario(ctx, first_idx + i)
        rng = _case_rng(ctx, "rfs", sc.idx)
        work = ctx.scratch / f"rf{sc.idx}-work"
        try:
            # block counts
            lens = {}
            for a, fn, sig in (("M", _rmaint_fn(sc, work), _refs_read), ("P", _rpacker_fn(sc, work), _refs_write)):
                shutil.rmtree(work, ignore_errors=True)
                shutil.copytree(sc.template, work, symlinks=True)
                s0 = S.Scheduler(str(work))
                s0.spawn(a, fn)
                lens[a] = sum(1 for e in s0.run([]) if sig(e[1], e[2])) + 1
            if sc.packer == "git":
                for k in range(lens["M"] + 1):
                    s = _run_refs_schedule(ctx, sc, work, [], git_at=k)
                    _refs_oracle(ctx, stream, sc, work, s, [f"git-pack-refs-before-maintenance-ref-read-{k}"], {"git_at": k})
                    total += 1
            else:
                for schedule in _schedules_for(ctx, rng, lens, max_pre, cap) + [_random_schedule(rng, lens) for _ in range(nrandom)]:
                    s = _run_refs_schedule(ctx, sc, work, schedule)
                    _refs_oracle(ctx, stream, sc, work, s, schedule)
                    total += 1
                    # model vs real, per ref: was it a root?  abstract the run to (state of the ref when M read the loose tree
                    # entry / packed-refs for the LAST time during allkeys) -- done on the event history
                    hist = [e for e in s.history if e[1] != "start"]
                    for n, v in sc.refs.items():
                        nm = n.decode()
                        p_write = next((k for k, e in enumerate(hist) if e[0] == "P" and e[1] in ("rename", "replace")
                                        and e[2][-1] == "packed-refs" and e[3] == "ok"), None)
                        p_unlink = next((k for k, e in enumerate(hist) if e[0] == "P" and e[1] in ("remove", "unlink")
                                         and e[2][-1] == nm and e[3] == "ok"), None)
                        m_loose = next((k for k, e in enumerate(hist) if e[0] == "M" and e[1] in ("scandir", "listdir")
                                        and e[2][-1] == os.path.dirname(nm)), None)
                        m_packed = next((k for k, e in enumerate(hist) if e[0] == "M" and e[1] == "open-r"
                                         and e[2][-1] == "packed-refs"), None)
                        if m_loose is None or (m_packed is None and sc.kinds[nm] != "loose"):
                            continue
                        if m_packed is None:
                            m_packed = len(hist)
                        prog, pos = [], {}
                        evs = sorted([(k, a) for k, a in ((p_write, 0), (p_unlink, 1)) if k is not None])
                        prog = [a for _, a in evs]

                        def state_index(t):
                            return sum(1 for k, _ in evs if k < t)
                        init = {"loose": "l", "packed": "p", "both": "b"}[sc.kinds[nm]]
                        lines.append(f"c10.roots {init} {_enc_ids(prog)} {state_index(m_loose)} {state_index(m_packed)}")
                        metas.append({"kind": "refs", "scenario_idx": sc.idx, "ref": nm, "schedule": list(schedule)})
        finally:
            shutil.rmtree(sc.template, ignore_errors=True)
            shutil.rmtree(work, ignore_errors=True)
    if lines:
        outs = ctx.driver.batch(lines)
        for line, meta, o in zip(lines, metas, outs):
            ctx.count(stream + ".model", (meta["scenario_idx"], meta["ref"], line), True)
            # on the unchanged read order the model must say "seen" for every ref of every run (the oracle checked the
            # consequence on the real code); a "not seen" means the abstraction found the loose tree read after packed-refs
            if o != "1":
                ctx.disagree(stream + ".model", dict(meta, line=line), o, "1 (ref existed throughout and its closure survived)")
    ctx.extra_cov["refs_schedules"] = ctx.extra_cov.get("refs_schedules", 0) + total


# ------------------------------------------------------------------------------------------------
# gc.config: the grace period AS CONFIGURED (gc.pruneExpire), through porcelain.gc / the CLI / get_prune_grace_period

CONFIG_AGES = [30, 1800, 7200, 13 * 86400, 15 * 86400, 400 * 86400]
CLS_MONTH = "pruneExpire-month-counted-as-30-days"
CLS_NEGATIVE = "pruneExpire-negative-relative-time-means-no-grace"
CLS_GLOBAL = "pruneExpire-in-global-config-ignored"


def _config_values(now):
    import datetime
    d20 = datetime.datetime.fromtimestamp(now - 20 * 86400).strftime("%Y-%m-%d")
    dt3h = datetime.datetime.fromtimestamp(now - 3 * 3600).strftime("%Y-%m-%d %H:%M:%S")
    vals = [("unset", None), ("local", "now"), ("local", "never"), ("local", "2.weeks.ago"), ("local", "1.hour.ago"),
            ("local", "0"), ("local", "90.seconds.ago"), ("local", "5400 seconds ago"), ("local", "3.days.ago"),
            ("local", "yesterday"), ("local", d20), ("local", dt3h), ("local", "garbage"), ("local", "1 hour"),
            ("local", "all"), ("local", "false"), ("local", "1.month.ago"), ("local", "-1.hour.ago"),
            ("include", "never"), ("include", "1.hour.ago"), ("global", "never"), ("global", "1.hour.ago"), ("local", " now ")]
    return vals


def _classify_value(v, now):
    """(kind, arg) for the driver's c10.grace: the value's SHAPE, by the harness's own rules"""
    import datetime
    if v is None:
        return "unset", "-"
    t = v.strip()
    # the code's units (a month is 30 days, a year 365 days there)
    units = {"second": 1, "minute": 60, "hour": 3600, "day": 86400, "week": 604800, "month": 2592000, "year": 31536000}
    m = _re.fullmatch(r"(-?)(\d+)[ .]([a-z]+?)s?[ .]ago", t)
    if m and m.group(3) in units:
        secs = int(m.group(2)) * units[m.group(3)]
        if m.group(1):          # "-1.hour.ago": the code computes a time in the FUTURE, i.e. an absolute instant now + secs
            return "abs", str(int(now) + secs)
        return "ago", str(secs)
    if _re.fullmatch(r"\d+", t):     # a bare integer is taken as a Unix timestamp by the code
        return "abs", t
    if t == "yesterday":
        return "ago", "86400"
    for fmt in ("%Y-%m-%d %H:%M:%S", "%Y-%m-%d"):
        try:
            return "abs", str(int(datetime.datetime.strptime(t, fmt).timestamp()))
        except ValueError:
            pass
    if _re.fullmatch(r"[A-Za-z]+", t):
        return "kw", t
    return "other", "-"


def config_case(ctx, idx, where, value, path, stream="gc.config"):
    from dulwich.repo import Repo
    from dulwich.objects import Blob, Tree, Commit
    from dulwich.gc import garbage_collect, get_prune_grace_period
    from dulwich import porcelain
    root = ctx.scratch / f"cf{idx}"
    home = ctx.scratch / f"cf{idx}-home"
    for d in (root, home):
        shutil.rmtree(d, ignore_errors=True)
        d.mkdir(parents=True)
    repo = Repo.init_bare(str(root))
    st = repo.object_store
    bl = Blob.from_string(b"reachable %d\n" % idx)
    tr = Tree()
    tr.add(b"f", 0o100644, bl.id)
    c = Commit()
    c.tree = tr.id
    c.author = c.committer = b"A U Thor <a@example.com>"
    c.author_time = c.commit_time = 1000
    c.author_timezone = c.commit_timezone = 0
    c.message = b"c\n"
    st.add_objects([(bl, None), (tr, None), (c, None)])
    repo.refs[b"refs/heads/main"] = c.id
    now = time.time()
    ages = {}
    extra_ages = list(CONFIG_AGES)
    env = core.clean_env({"HOME": str(home), "XDG_CONFIG_HOME": str(home / "xdg")})

    def git(*a):
        return core.sh(["git", "-C", str(root)] + list(a), env=env, timeout=60)
    if where == "local":
        git("config", "gc.pruneExpire", value)
    elif where == "include":
        (root / "inc.cfg").write_text(f"[gc]\n\tpruneExpire = {value}\n")
        git("config", "include.path", "inc.cfg")
    elif where == "global":
        (home / ".gitconfig").write_text(f"[gc]\n\tpruneExpire = {value}\n")
    # git's reading of the configured expiry
    rc, out = git("config", "--type=expiry-date", "gc.pruneExpire")
    out = out.strip().splitlines()[-1] if out.strip() else ""
    if where == "unset" or (rc != 0 and not out):
        git_expiry, git_says = now - GIT_DEFAULT_GRACE, "default"
    elif rc != 0:
        git_expiry, git_says = now - GIT_DEFAULT_GRACE, "unparsable"     # must not be worse than the default
    else:
        n = int(out)
        git_expiry, git_says = (now if n >= 2 ** 62 else n), out
    if value in ("1.month.ago",) and git_says.isdigit():
        mid = (now - int(git_says) + 30 * 86400) / 2
        if abs((now - int(git_says)) - 30 * 86400) > 7200:
            extra_ages.append(int(mid))
    for i, age in enumerate(extra_ages):
        u = Blob.from_string(b"unreachable %d age %d\n" % (idx, age))
        st.add_object(u)
        ages[u.id.decode()] = age
    up = Blob.from_string(b"unreachable packed old %d\n" % idx)
    pk = st.add_objects([(up, None)])
    ages[up.id.decode()] = 500 * 86400
    repo.close()
    for h, age in ages.items():
        pth = root / "objects" / h[:2] / h[2:]
        if pth.exists():
            os.utime(pth, (now - age, now - age))
    for ext in (".pack", ".idx"):
        os.utime(pk._basename + ext, (now - 500 * 86400, now - 500 * 86400))
    # the model's and the code's idea of the grace period
    kind, arg = _classify_value(value, now)
    saved_home, saved_xdg, saved_cwd = os.environ.get("HOME"), os.environ.get("XDG_CONFIG_HOME"), os.getcwd()
    os.environ["HOME"], os.environ["XDG_CONFIG_HOME"] = str(home), str(home / "xdg")
    outcome, real_grace = "ok", None
    try:
        r2 = Repo(str(root))
        try:
            try:
                real_grace = get_prune_grace_period(r2.get_config())
            except Exception as e:
                real_grace = "refuse:" + type(e).__name__
        finally:
            r2.close()
        try:
            if path == "porcelain":
                porcelain.gc(str(root))
            elif path == "cli":
                from dulwich.cli import cmd_gc
                os.chdir(root)
                rc_ = cmd_gc().run(["-q"])
                if rc_:
                    outcome = f"cli-exit-{rc_}"
            else:
                r3 = Repo(str(root))
                try:
                    garbage_collect(r3, grace_period=get_prune_grace_period(r3.get_config()))
                finally:
                    r3.close()
        except Exception as e:
            outcome = "raised:" + type(e).__name__
    finally:
        os.chdir(saved_cwd)
        for k, v in (("HOME", saved_home), ("XDG_CONFIG_HOME", saved_xdg)):
            if v is None:
                os.environ.pop(k, None)
            else:
                os.environ[k] = v
    lo, pks = observe(root / "objects")
    present = set(lo) | {h for ids, _ in pks.values() for h in ids}
    case = {"kind": "config", "case": idx, "where": where, "value": value, "path": path, "git_expiry": git_says,
            "dulwich_grace": real_grace, "outcome": outcome}
    ctx.count(stream, (where, value, path), True, f"{where}:{value}:{path}:{outcome.split(':')[0]}")
    for h in (bl.id.decode(), tr.id.decode(), c.id.decode()):
        if h not in present:
            ctx.oracle_fail(stream, dict(case, object=h), f"reachable object gone after gc with gc.pruneExpire={value!r}", None)
    for h, age in sorted(ages.items(), key=lambda x: x[1]):
        if h in present:
            continue
        if outcome != "ok":
            ctx.oracle_fail(stream, dict(case, object=h, age=age), f"gc reported {outcome} for gc.pruneExpire={value!r} and "
                            f"still removed an object ({age} s old)", None)
            break
        if now - age > git_expiry + 10:
            cls = None
            if value == "1.month.ago":
                cls = CLS_MONTH
            elif value.strip().startswith("-"):
                cls = CLS_NEGATIVE
            elif where == "global":
                cls = CLS_GLOBAL
            what = {"default": "is unset (two weeks)", "unparsable": "cannot be parsed (the default of two weeks must hold)"}.get(
                git_says, f"means 'expire before {git_says}' ({int(now - git_expiry)} s ago) to git")
            ctx.oracle_fail(stream, dict(case, object=h, age=age),
                            f"gc via {path} removed an unreachable object only {age} s old although gc.pruneExpire={value!r} "
                            f"({where}) {what}; dulwich derived grace {real_grace}", cls)
            break
    shutil.rmtree(root, ignore_errors=True)
    shutil.rmtree(home, ignore_errors=True)
    return f"c10.grace {int(now)} {kind} {arg if kind != 'kw' else arg}", real_grace, case, int(now), where


def _stream_config(ctx, stream="gc.config"):
    rng = _case_rng(ctx, "cf", 0)
    now = time.time()
    recs = []
    vals = _config_values(now)
    for i, (where, value) in enumerate(vals):
        paths = ["porcelain", "cli", "api"] if ctx.thorough else [["porcelain", "cli", "api"][(i + ctx.seed) % 3]]
        if where in ("global", "include") and not ctx.thorough:
            paths = ["porcelain"]
        for path in paths:
            recs.append(config_case(ctx, i * 10 + ["porcelain", "cli", "api"].index(path), where, value, path, stream))
    outs = ctx.driver.batch([r[0] for r in recs])
    for (line, real, case, now_i, where), o in zip(recs, outs):
        ctx.count(stream + ".model", (case["where"], case["value"], case["path"]), True)
        if where == "global":
            continue      # the code reads the repository's own configuration only (see the known finding)
        mg = o.split("|")[0]
        if mg == "refuse":
            ok = isinstance(real, str) and real.startswith("refuse")
        elif mg == "none":
            ok = real is None
        else:
            ok = isinstance(real, int) and abs(int(mg.split(":")[1]) - real) <= 5
        if not ok:
            ctx.disagree(stream + ".model", dict(case, line=line), o, repr(real))


# ------------------------------------------------------------------------------------------------
# corpus (negation witnesses of the known findings + regression cases), run first

def _run_corpus(ctx):
    d = core.VERIF / "corpus" / "C10"
    if not d.exists():
        return
    recs = []
    for k, f in enumerate(sorted(d.glob("*.json"))):
        c = json.loads(f.read_text())
        if c.get("kind") == "logical":
            out = logical_case(ctx, 800000 + k, spec=c["spec"], stream="corpus.logical")
            if out:
                recs.extend(out)
            shutil.rmtree(ctx.scratch / f"lg{800000 + k}", ignore_errors=True)
        elif c.get("kind") == "writer":
            sc = build_wscenario(ctx, c["scenario_idx"], seed=c.get("scenario_seed", 0))
            sc.maint, sc.writer, sc.refmode = c["maint"], c["writer"], c["refmode"]
            try:
                run_wscenario(ctx, sc, "corpus.writer", 0, 0, 0, only=[c["schedule"]])
            finally:
                shutil.rmtree(sc.template, ignore_errors=True)
                shutil.rmtree(sc.src, ignore_errors=True)
        elif c.get("kind") == "sched":
            spec = dict(c["spec"])
            spec["readers"] = [[tuple(x) for x in ops] for ops in spec["readers"]]
            sc = _scenario(ctx, 800000 + k, spec)
            try:
                run_scenario(ctx, sc, 800000 + k, "corpus.sched", 0, 0, 0, _consts(ctx), only=[c["schedule"]])
            finally:
                shutil.rmtree(sc.template, ignore_errors=True)
    _compare_logical(ctx, recs, "corpus.logical")


# ------------------------------------------------------------------------------------------------

def run(ctx: core.Ctx):
    c = _consts(ctx)
    ctx.assumptions += [
        "object content is a function of the object id (C01); the logical model tracks ids, the oracle compares type+bytes",
        "mtimes and the clock are inputs of the model (read from the file system before each step); generated ages stay "
        ">= 600 s away from every grace period used",
        "refs do not change while a maintenance operation runs (a ref created between the reachability scan and the "
        "deletion is outside the property's quantifier)",
        "scheduler: interleaving at system-call granularity of Python threads with separate store objects; one "
        "directory listing is atomic; no multi-pack-index; alternates static",
        "the order in which a directory scan inserts new packs into the reader's cache (Python set order) is observed "
        "from the real cache and given to the model as the listing order",
        "git fsck lines `invalid reflog entry <sha>` are ignored only when <sha> was not reachable from refs + HEAD when the "
        "operation ran (reflogs are roots neither in the property nor in dulwich's gc); the count is in "
        "coverage.fsck_reflog_lines_ignored",
    ]
    ctx.extra_cov["translated_constants"] = c
    _run_corpus(ctx)
    _stream_logical(ctx, ctx.budget(100, mult=12))
    _stream_stale(ctx, ctx.budget(40, mult=8))
    _stream_config(ctx)
    if ctx.thorough:
        _stream_refs(ctx, 14, 2, 100, 12)
    else:
        _stream_refs(ctx, ctx.budget(4), 2, 24, 4)
    if ctx.thorough:
        _stream_writer(ctx, 16, 2, 100, 16)
        _stream_writer_git(ctx, 8)
    else:
        _stream_writer(ctx, ctx.budget(6), 2, 32, 5)
    if ctx.thorough:
        _stream_sched(ctx, 60, 2, 250, 30)
        _stream_sched(ctx, 16, 3, 400, 50, first_idx=100000)
        _stream_retry_bound(ctx)
        _stream_git_repack(ctx, 20)
    else:
        _stream_sched(ctx, ctx.budget(8), 2, 110, 10)
        _stream_retry_bound(ctx)
        _stream_git_repack(ctx, 2)


def search(ctx: core.Ctx):
    """Failing-input search after a broken obligation / correspondence: the direct oracle with a boosted budget on
    fresh repositories and on scenarios with more pre-emptions (cold and warm readers against every packer)."""
    _stream_logical(ctx, 300, stream="search.logical", first_idx=200000)
    if ctx.oracle_failures:
        return
    _stream_stale(ctx, 150, stream="search.stale", first_idx=200000)
    if ctx.oracle_failures:
        return
    _stream_config(ctx, stream="search.config")
    if ctx.oracle_failures:
        return
    _stream_refs(ctx, 20, 3, 300, 40, stream="search.refs", first_idx=200000)
    if ctx.oracle_failures:
        return
    _stream_writer(ctx, 20, 3, 300, 40, stream="search.writer", first_idx=200000)
    if ctx.oracle_failures:
        return
    _stream_sched(ctx, 16, 3, 500, 60, stream="search.sched", first_idx=300000)
    if ctx.oracle_failures:
        return
    _stream_retry_bound(ctx, stream="search.retry")
    _stream_git_repack(ctx, 4, stream="search.git", first_idx=600000)


def replay(ctx: core.Ctx, data: dict) -> int:
    c = data.get("case", {})
    ctx.seed = c.get("seed", data.get("seed", ctx.seed))
    if c.get("kind") == "logical":
        recs = logical_case(ctx, c["case"], spec=c.get("spec"), stream="replay")
        if recs:
            _compare_logical(ctx, recs, "replay")
    elif c.get("kind") == "config":
        rec = config_case(ctx, c["case"], c["where"], c["value"], c["path"], "replay")
    elif c.get("kind") == "refs":
        sc = build_rscenario(ctx, c["scenario_idx"])
        sc.maint, sc.packer = c["maint"], c["packer"]
        work = ctx.scratch / "rf-replay"
        try:
            s_ = _run_refs_schedule(ctx, sc, work, c["schedule"] if "git_at" not in c else [], git_at=c.get("git_at"))
            _refs_oracle(ctx, "replay", sc, work, s_, c["schedule"])
        finally:
            shutil.rmtree(sc.template, ignore_errors=True)
    elif c.get("kind") == "writer":
        if "external_before_block" in c:
            print("replay of git fetch/push runs: re-run ./check C10 --tier thorough with the same seed")
            return 0
        sc = build_wscenario(ctx, c["scenario_idx"])
        sc.maint, sc.writer, sc.refmode = c["scenario"]["maint"], c["scenario"]["writer"], c["scenario"]["refmode"]
        run_wscenario(ctx, sc, "replay", 0, 0, 0, only=[c["schedule"]])
    elif c.get("kind") == "stale":
        t = c.get("targeted")
        if t is not None:
            t = (t[0], t[1], t[2], [tuple(o) for o in t[3]])
        recs = stale_case(ctx, c["case"], "replay", t)
        _compare_stale(ctx, recs, "replay")
    elif c.get("kind") == "sched":
        spec = c.get("spec")
        if spec:
            spec = dict(spec)
            spec["readers"] = [[tuple(x) for x in ops] for ops in spec["readers"]]
        sc = _scenario(ctx, c.get("scenario_idx") or 0, spec)
        if c["scenario"]["packer"] == "git-repack-ad":
            print("replay of git-repack runs: re-run ./check C10 --tier thorough with the same seed")
            return 0
        run_scenario(ctx, sc, c.get("scenario_idx") or 0, "replay", 0, 0, 0, _consts(ctx), only=[c["schedule"]])
    else:
        print("replay: nothing to replay in this file (broken obligation: re-run ./check C10)")
        return 0
    for f in ctx.oracle_failures:
        print("replay:", f["what"], "| class:", f["class"])
    for k, n in ctx.known_hit.items():
        print(f"replay: known finding {k} reproduced ({n}x)")
    for dgr in ctx.disagreements[:3]:
        print("replay: model/implementation disagreement:", dgr["stream"], dgr["model"], "vs", dgr["impl"])
    if ctx.oracle_failures:
        print(f"VIOLATION property=C10 replay={data.get('_path', '<replayed>')}")
        return 1
    print("replay: property holds on this case" + (" (known finding reproduced)" if ctx.known_hit else ""))
    return 0
