"""C08 — ref updates are atomic compare-and-swap; concurrent commits are never lost.

Model: lean/DulwichModel/Model/RefsFS.lean (DiskRefsContainer as programs of system calls over a small
file-system state; any number of actors); theorems: Props/C08.lean.
Tie: translate() regenerates Gen/RefsFS.lean (ordering flags + the call/compare skeleton of every modelled
method, pinned by a theorem); run() drives the real DiskRefsContainer / WorkTree.commit / MemoryRepo.do_commit
under the deterministic system-call scheduler (harness/sched.py) along explicit schedules and compares every
step with the Lean transition system; the direct oracle is an exact Wing-Gong linearizability check of each real
history against the map specification, plus "every commit reported successful is an ancestor of the final tip".
"""
from __future__ import annotations

import ast
import json
import os
import re
import shutil
from pathlib import Path

from .. import core, translate as T

MOD = "c08"

# ------------------------------------------------------------------------------------------------
# translator

_PRIMS = {"follow", "get_packed_refs", "read_loose_ref", "read_ref", "GitFile", "abort", "close", "write", "remove",
          "exists", "lexists", "_remove_packed_ref", "write_packed_refs", "add_packed_refs", "allkeys",
          "_invalidate_packed_refs_cache", "set_if_equals", "add_if_new", "remove_if_equals", "copy", "pop",
          "_prune_loose_ref", "_check_packed_conflict", "_remove_empty_directories", "isdir", "islink"}
_REF_SUBSCRIPTS = ("self[ref]", "self._repo.refs[ref]", "self.refs[ref]", "self[name]")


def _skeleton(fn: ast.AST, only_refs: bool = False) -> list[str]:
    """Lexically ordered list of the calls to the primitives the model knows, every comparison, every
    return/raise.  `only_refs`: keep only the ref traffic (for the long commit functions)."""
    items = []
    for n in ast.walk(fn):
        if isinstance(n, ast.Call):
            f = n.func
            name = f.attr if isinstance(f, ast.Attribute) else (f.id if isinstance(f, ast.Name) else None)
            if name in _PRIMS:
                txt = "call:" + name
                if name in ("set_if_equals", "add_if_new", "remove_if_equals"):
                    txt += "(" + ", ".join(ast.unparse(a) for a in n.args[:3]) + ")"
                elif name == "add_packed_refs":
                    txt += "(" + ", ".join([ast.unparse(a) for a in n.args] +
                                           [f"{k.arg}={ast.unparse(k.value)}" for k in n.keywords]) + ")"
                if only_refs and name not in ("set_if_equals", "add_if_new", "remove_if_equals"):
                    continue
                items.append((n.lineno, n.col_offset, txt))
        elif isinstance(n, ast.Compare) and not only_refs:
            items.append((n.lineno, n.col_offset, "cmp:" + ast.unparse(n)))
        elif isinstance(n, ast.Return) and not only_refs:
            items.append((n.lineno, n.col_offset, "return:" + (ast.unparse(n.value) if n.value is not None else "")))
        elif isinstance(n, ast.Raise) and not only_refs:
            items.append((n.lineno, n.col_offset, "raise:" + (ast.unparse(n.exc)[:40] if n.exc else "")))
        elif isinstance(n, ast.Assign) and isinstance(n.value, ast.Subscript) and ast.unparse(n.value) in _REF_SUBSCRIPTS:
            items.append((n.lineno, n.col_offset, "assign:" + ast.unparse(n)))
        elif isinstance(n, ast.Assign) and only_refs and len(n.targets) == 1 and \
                isinstance(n.targets[0], ast.Subscript) and ".refs[" in ast.unparse(n.targets[0]):
            items.append((n.lineno, n.col_offset, "setitem:" + ast.unparse(n)))   # refs[ref] = …  (unconditional)
        elif isinstance(n, ast.Subscript) and isinstance(n.ctx, ast.Load) and ast.unparse(n) in _REF_SUBSCRIPTS:
            items.append((n.lineno, n.col_offset + 1, "getitem:" + ast.unparse(n)))
    return [x for _, _, x in sorted(items)]


def _lean_str(s: str) -> str:
    return '"' + s.replace("\\", "\\\\").replace('"', '\\"') + '"'


SKELETONS = [
    ("refs.py", "RefsContainer.follow", "follow", False),
    ("refs.py", "RefsContainer.read_ref", "readRef", False),
    ("refs.py", "DiskRefsContainer.get_packed_refs", "getPackedRefs", False),
    ("refs.py", "DiskRefsContainer.set_if_equals", "setIfEquals", False),
    ("refs.py", "DiskRefsContainer.add_if_new", "addIfNew", False),
    ("refs.py", "DiskRefsContainer.remove_if_equals", "removeIfEquals", False),
    ("refs.py", "DiskRefsContainer._remove_packed_ref", "removePackedRef", False),
    ("refs.py", "DiskRefsContainer.add_packed_refs", "addPackedRefs", False),
    ("refs.py", "DiskRefsContainer.pack_refs", "packRefs", False),
    ("refs.py", "DiskRefsContainer._prune_loose_ref", "pruneLooseRef", None),     # optional: [] when absent
    ("refs.py", "DiskRefsContainer._check_packed_conflict", "checkPackedConflict", None),
    ("refs.py", "DiskRefsContainer.set_symbolic_ref", "setSymbolicRef", False),
    ("refs.py", "DiskRefsContainer.allkeys", "allKeys", False),
    ("refs.py", "DictRefsContainer.set_if_equals", "dictSetIfEquals", False),
    ("refs.py", "DictRefsContainer.add_if_new", "dictAddIfNew", False),
    ("file.py", "_GitFile.close", "gitFileClose", False),
    ("file.py", "_GitFile.abort", "gitFileAbort", False),
    ("worktree.py", "WorkTree.commit", "worktreeCommit", True),
    ("repo.py", "MemoryRepo.do_commit", "memoryDoCommit", True),
]


def translate(repo: Path) -> dict:
    trees = {f: T.module_ast(repo / "dulwich" / f) for f in {s[0] for s in SKELETONS}}
    sk = {}
    for f, q, lean, only in SKELETONS:
        if only is None:
            try:
                sk[lean] = _skeleton(T.find_def(trees[f], q), False)
            except T.TranslateError:
                sk[lean] = []
        else:
            sk[lean] = _skeleton(T.find_def(trees[f], q), only)

    # symref depth bound in follow(): `if depth > N: raise SymrefLoop`
    fol = T.find_def(trees["refs.py"], "RefsContainer.follow")
    depth = None
    for n in ast.walk(fol):
        if isinstance(n, ast.If) and isinstance(n.test, ast.Compare) and isinstance(n.test.left, ast.Name) \
                and n.test.left.id == "depth" and isinstance(n.test.ops[0], ast.Gt) \
                and any(isinstance(b, ast.Raise) for b in n.body):
            depth = T.eval_literal(n.test.comparators[0])
    if depth is None:
        raise T.TranslateError("follow(): `if depth > N: raise SymrefLoop` not found")

    def pos(name, item, what):
        try:
            return sk[name].index(item)
        except ValueError:
            raise T.TranslateError(f"{what}: `{item}` not found in {name} skeleton {sk[name]}")

    # remove_if_equals: os.remove(loose) vs _remove_packed_ref
    rm_loose_first = pos("removeIfEquals", "call:remove", "remove_if_equals") < \
        pos("removeIfEquals", "call:_remove_packed_ref", "remove_if_equals")
    # add_packed_refs: os.remove(loose) inside the lock, before write_packed_refs / the rename at with-exit
    pack_loose_first = pos("addPackedRefs", "call:remove", "add_packed_refs") < \
        pos("addPackedRefs", "call:write_packed_refs", "add_packed_refs")
    # add_if_new: which variable is looked up in packed refs under the lock
    cands = [s for s in sk["addIfNew"] if s.startswith("cmp:") and s.endswith("in self.get_packed_refs()")]
    if len(cands) != 1:
        raise T.TranslateError(f"add_if_new: packed-refs membership test not found: {sk['addIfNew']}")
    var = cands[0][4:].split(" in ")[0].strip()
    if var not in ("name", "realname"):
        raise T.TranslateError(f"add_if_new: unexpected variable {var!r} in the packed-refs test")
    # pack_refs: does it ask add_packed_refs to prune a loose file only under the ref lock and if unchanged?
    pcalls = [x for x in sk["packRefs"] if x.startswith("call:add_packed_refs(")]
    if len(pcalls) != 1:
        raise T.TranslateError(f"pack_refs: call of add_packed_refs not found: {sk['packRefs']}")
    pack_recheck = "prune_only_if_unchanged=True" in pcalls[0]
    if pack_recheck and not sk["pruneLooseRef"]:
        raise T.TranslateError("pack_refs asks for pruning under the ref lock but _prune_loose_ref was not found")
    if pack_recheck and pack_loose_first:
        raise T.TranslateError("add_packed_refs: re-checked pruning before the rename is not a modelled combination")
    # WorkTree.commit: how often the head is read before the swap; MemoryRepo.do_commit likewise
    wt_reads = sum(1 for s in sk["worktreeCommit"] if s.startswith("getitem:"))
    mem_reads = sum(1 for s in sk["memoryDoCommit"] if s.startswith("getitem:"))
    if wt_reads < 1 or mem_reads < 1:
        raise T.TranslateError("commit: no read of the branch head found")

    lines = [T.lean_header("dulwich/refs.py, file.py, worktree.py, repo.py: ordering flags and the call/compare "
                           "skeleton of every method modelled in Model/RefsFS.lean"),
             "namespace Dulwich.Gen.RefsFS",
             "/-- `if depth > N: raise SymrefLoop` in `RefsContainer.follow` -/",
             f"def symrefMaxDepth : Nat := {depth}",
             "/-- `remove_if_equals`: `os.remove(filename)` precedes `self._remove_packed_ref(name)` -/",
             f"def rmLooseBeforePacked : Bool := {str(rm_loose_first).lower()}",
             "/-- `add_packed_refs`: `os.remove(self.refpath(ref))` precedes `write_packed_refs` and the rename -/",
             f"def packRemovesLooseBeforeReplace : Bool := {str(pack_loose_first).lower()}",
             "/-- `add_if_new`: the packed-refs test under the lock looks up `name` (true) or `realname` (false) -/",
             f"def addIfNewChecksName : Bool := {str(var == 'name').lower()}",
             "/-- `pack_refs` passes `prune_only_if_unchanged=True`: loose files pruned under the ref lock, if unchanged -/",
             f"def packPrunesUnderRefLock : Bool := {str(pack_recheck).lower()}",
             "/-- number of reads of the branch head in `WorkTree.commit` / `MemoryRepo.do_commit` -/",
             f"def worktreeCommitHeadReads : Nat := {wt_reads}",
             f"def memoryCommitHeadReads : Nat := {mem_reads}",
             ""]
    for _, q, lean, _ in SKELETONS:
        lines.append(f"/-- skeleton of `{q}` (calls to modelled primitives, comparisons, returns, raises; source order) -/")
        lines.append(f"def skel_{lean} : List String := [")
        lines += ["  " + _lean_str(s) + ("," if i + 1 < len(sk[lean]) else "") for i, s in enumerate(sk[lean])]
        lines.append("]")
    lines.append("end Dulwich.Gen.RefsFS")
    return {"RefsFS": "\n".join(lines) + "\n"}


# ------------------------------------------------------------------------------------------------
# shared vocabulary (host and worker side)

REF_NAMES = [b"HEAD", b"refs/heads/x", b"refs/heads/y"]      # model ref ids 0, 1, 2
PATH2REF = {n.decode(): i for i, n in enumerate(REF_NAMES)}
ZERO = b"0" * 40
_RELEVANT = re.compile(r"^(HEAD|packed-refs|refs/heads/[^/.][^/]*?)(\.lock)?$")
_SKIP_CALLS = {"mkdir", "makedirs", "rmdir"}
LOSER_ERRORS = {"FileLocked", "CommitError"}     # plus any OSError: a race lost on the file system


def _val_bytes(v, shas=None):
    """symbolic value -> bytes: "7" object id number 7, "@2" symref to ref 2, "Z" ZERO_SHA, None."""
    if v is None:
        return None
    if v == "Z":
        return ZERO
    if v.startswith("@"):
        return b"ref: " + REF_NAMES[int(v[1:])]
    if shas and v in shas:
        return shas[v]
    return b"%040x" % int(v)


def _val_sym(b, names=None):
    if b is None:
        return None
    if b == ZERO:
        return "Z"
    if b.startswith(b"ref: "):
        n = b[5:].decode(errors="replace")
        return "@%s" % PATH2REF.get(n, "?" + n)
    if names and b in names:
        return names[b]
    try:
        return str(int(b, 16)) if len(b) == 40 else "?" + b.decode(errors="replace")
    except ValueError:
        return "?" + b.decode(errors="replace")


# ------------------------------------------------------------------------------------------------
# worker side: the real code under the deterministic scheduler

def _sched_class():
    from .. import sched

    class RefSched(sched.Scheduler):
        """Yield only at calls that touch ref files, their locks, packed-refs or list refs/heads; every other
        interposed call (objects, config, reflog, directory creation/removal) runs through without a context
        switch, i.e. is merged into the preceding step of the same actor."""

        def _handle(self, who, name, paths, do):
            if name not in ("start", "mem"):
                if name in _SKIP_CALLS:
                    return do()
                if name == "scandir":
                    if paths != ("refs/heads",):
                        return do()
                elif not paths or not all(isinstance(p, str) and _RELEVANT.match(p) for p in paths):
                    return do()
            return super()._handle(who, name, paths, do)
    return RefSched


def _canon_event(e, idx):
    who, call, paths, out = e
    a = idx[who]
    o = {"ok": "ok", "FileNotFoundError": "enoent", "FileExistsError": "eexist"}.get(out, out)
    if call == "mem":
        return f"{a}:{paths[0]}::{o}"
    if call == "scandir":
        return f"{a}:scan::{o}"
    p = paths[0]
    lock = p.endswith(".lock")
    base = p[:-5] if lock else p
    if base == "packed-refs":
        nm = {("open-r", False): "openrp", ("stat", False): "statp", ("open-x", True): "openxp",
              ("fsync", True): "fsyncp", ("replace", True): "replacep", ("remove", True): "rmlockp"}.get((call, lock))
        return f"{a}:{nm or call + ('L' if lock else '')}::{o}"
    r = PATH2REF.get(base, base)
    nm = {("open-r", False): "openr", ("stat", False): "stat", ("lstat", False): "lstat", ("open-x", True): "openx",
          ("fsync", True): "fsync", ("replace", True): "replace", ("remove", True): "rmlock",
          ("remove", False): "rm"}.get((call, lock))
    return f"{a}:{nm or call + ('L' if lock else '')}:{r}:{o}"


def _mk_refs_dir(root, init):
    shutil.rmtree(root, ignore_errors=True)
    os.makedirs(os.path.join(root, "refs", "heads"))
    os.makedirs(os.path.join(root, "refs", "tags"))
    # keeps refs/heads alive (remove_if_equals rmdir's empty parents); not a valid ref name, never listed
    open(os.path.join(root, "refs", "heads", ".keep"), "wb").close()
    packed = {}
    for r, (loose, pk) in init["refs"].items():
        r = int(r)
        if loose is not None:
            with open(os.path.join(root, REF_NAMES[r].decode()), "wb") as f:
                f.write(_val_bytes(loose) + b"\n")
        if pk is not None:
            packed[REF_NAMES[r]] = _val_bytes(pk)
    if packed or init.get("pf"):
        with open(os.path.join(root, "packed-refs"), "wb") as f:
            f.write(b"# pack-refs with: peeled fully-peeled sorted \n")
            for n in sorted(packed):
                f.write(packed[n] + b" " + n + b"\n")


def _exc_res(e):
    """An operation that raised: class name + whether it is an OS-level error (a race lost on the file system)."""
    return ["exc", type(e).__name__, "os" if isinstance(e, OSError) else "app"]


def _do_ref_op(refs, op, names=None, shas=None):
    k = op[0]
    vb = lambda v: _val_bytes(v, shas)  # noqa: E731
    vs = lambda b: _val_sym(b, names)   # noqa: E731
    if k == "read":
        return ["val", vs(refs.read_ref(REF_NAMES[op[1]]))]
    if k == "get":
        try:
            return ["val", vs(refs[REF_NAMES[op[1]]])]
        except KeyError:
            return ["val", None]
    if k == "cas":
        return ["bool", bool(refs.set_if_equals(REF_NAMES[op[1]], vb(op[2]), vb(op[3])))]
    if k == "set":
        refs[REF_NAMES[op[1]]] = vb(op[2])
        return ["bool", True]
    if k == "add":
        return ["bool", bool(refs.add_if_new(REF_NAMES[op[1]], vb(op[2])))]
    if k == "rm":
        return ["bool", bool(refs.remove_if_equals(REF_NAMES[op[1]], vb(op[2])))]
    if k == "del":
        del refs[REF_NAMES[op[1]]]
        return ["bool", True]
    if k == "lcas":
        # compare-and-swap built from the public `locked_ref` context manager ("Z": must not exist)
        from dulwich.refs import locked_ref
        want = None if op[2] == "Z" else vb(op[2])
        with locked_ref(refs, REF_NAMES[op[1]]) as lr:
            if lr.ensure_equals(want):
                lr.set(vb(op[3]))
                return ["bool", True]
            return ["bool", False]
    if k == "symref":
        refs.set_symbolic_ref(REF_NAMES[op[1]], REF_NAMES[op[2]])
        return ["none"]
    if k == "pack":
        refs.pack_refs(all=True)
        return ["none"]
    if k == "unpack":
        refs.add_packed_refs({REF_NAMES[op[1]]: None})
        return ["none"]
    if k == "list":
        d = refs.as_dict()
        return ["dict", sorted([PATH2REF.get(n.decode(), n.decode()), vs(v)] for n, v in d.items())]
    if k == "keys":
        return ["keys", sorted(PATH2REF.get(n.decode(), n.decode()) for n in refs.allkeys())]
    raise ValueError(f"unknown op {op}")


def _final_refs(root, names=None):
    try:
        return _final_refs_raw(root, names)
    except Exception as e:  # noqa: BLE001 - e.g. an empty/truncated packed-refs cannot be read back at all
        bad = "!" + type(e).__name__
        return {str(i): [bad, bad] for i in range(len(REF_NAMES))}, [], os.path.exists(os.path.join(root, "packed-refs"))


def _final_refs_raw(root, names=None):
    from dulwich.refs import DiskRefsContainer
    r = DiskRefsContainer(root)
    packed = r.get_packed_refs()
    out = {}
    for i, n in enumerate(REF_NAMES):
        out[str(i)] = [_val_sym(r.read_loose_ref(n), names), _val_sym(packed.get(n), names)]
    locks = []
    for dp, _dn, fn in os.walk(root):
        for f in fn:
            if f.endswith(".lock") and (dp == root or "refs" in os.path.relpath(dp, root).split(os.sep)[:1]):
                locks.append(os.path.relpath(os.path.join(dp, f), root))
    return out, sorted(locks), os.path.exists(os.path.join(root, "packed-refs"))


class _Run:
    pass


def _run_once(setup, make_actors, root, prefix, rng=None):
    """One execution of the real code: `prefix` is followed, then (rng None) the current actor keeps running
    while it can, else the lowest-numbered pending actor — or (rng given) a random pending actor at every step.
    Returns the complete list of choices, the pending sets, events, history."""
    RefSched = _sched_class()
    ctx = setup()
    s = RefSched(root, timeout=30)
    actors = make_actors(ctx, s)            # {name: fn}; fn appends to ctx["hist"]
    names = sorted(actors)
    idx = {n: i for i, n in enumerate(names)}
    for n in names:
        s.spawn(n, actors[n])
    choices, pend = [], []
    pre = list(prefix)
    # assumption monitor: successive packed-refs files have pairwise distinct stat identities (the cache of
    # get_packed_refs relies on it); checked between steps, when every actor is parked
    pr_path = os.path.join(root, "packed-refs")
    seen_keys, last_key, aba = {}, [None], [False]

    def watch_packed_refs():
        try:
            st = os.stat(pr_path)
        except OSError:
            return
        key = (st.st_ino, st.st_dev, st.st_size, st.st_mtime_ns, st.st_ctime_ns)
        if key != last_key[0]:
            last_key[0] = key
            with open(pr_path, "rb") as f:
                data = f.read()
            if key in seen_keys and seen_keys[key] != data:
                aba[0] = True
            seen_keys[key] = data

    def choose(pending, history):
        watch_packed_refs()
        ps = sorted(pending)
        pend.append([idx[p] for p in ps])
        k = len(choices)
        if k < len(pre) and names[pre[k]] in pending:
            c = names[pre[k]]
        elif rng is not None:
            c = rng.choice(ps)
        elif choices and names[choices[-1]] in pending:
            c = names[choices[-1]]
        else:
            c = ps[0]
        choices.append(idx[c])
        return c
    ev = s.run(choose)
    r = _Run()
    r.choices, r.pend = choices, pend
    r.ev = [_canon_event(e, idx) for e in ev]
    r.ctx = ctx
    r.errors = {n: repr(s.results[n].exc) for n in names if s.results[n].exc is not None}
    r.aba = aba[0]
    return r


def _preemptions(sched, pend):
    n = 0
    for i in range(1, len(sched)):
        if sched[i] != sched[i - 1] and sched[i - 1] in pend[i]:
            n += 1
    return n


def _explore(run_prefix, mode, pack_result):
    """mode: {"dfs": bound, "max": N, "seed": s} | {"random": n, "seed": s} | {"explicit": [sched, ...]}"""
    import random
    out = []
    if "explicit" in mode:
        for sc in mode["explicit"]:
            out.append(pack_result(run_prefix(sc, None)))
        return out, False
    if "random" in mode:
        rng = random.Random(mode.get("seed", 0))
        for _ in range(mode["random"]):
            out.append(pack_result(run_prefix([], rng)))
        return out, False
    bound, mx = mode["dfs"], mode.get("max", 100000)
    rng = random.Random(mode.get("seed", 0))
    stack = [[]]
    truncated = False
    while stack:
        if len(out) >= mx:
            truncated = True
            break
        # random pop order so that a truncated exploration is a spread sample
        prefix = stack.pop(rng.randrange(len(stack)) if len(stack) > 64 else -1)
        r = run_prefix(prefix, None)
        out.append(pack_result(r))
        for i in range(len(prefix), len(r.choices)):
            for b in r.pend[i]:
                if b != r.choices[i]:
                    newp = r.choices[:i] + [b]
                    if _preemptions(newp, r.pend) <= bound:
                        stack.append(newp)
    return out, truncated


def impl_hashorder(a):
    """Iteration order of a small Python set of the ref names in this process (PYTHONHASHSEED is fixed for
    workers): with pairwise distinct first probe slots it is the slot order whatever the insertion order."""
    slots = [hash(n) & 7 for n in REF_NAMES]
    if len(set(slots)) != len(slots):
        raise RuntimeError(f"ref names collide in an 8-slot set table: {slots}")
    order = sorted(range(len(REF_NAMES)), key=lambda i: slots[i])
    probe = set()
    probe.add(REF_NAMES[0])
    probe.update(REF_NAMES[1:])
    if [REF_NAMES.index(n) for n in probe] != order:
        raise RuntimeError("set iteration order is not the slot order")
    return order


def impl_explore(a):
    """Ref-operation scenario on a bare refs directory: each actor has its own DiskRefsContainer."""
    from dulwich.refs import DiskRefsContainer
    root, sc = a["root"], a["scenario"]

    def setup():
        _mk_refs_dir(root, sc["init"])
        return {"hist": []}

    def make_actors(ctx, s):
        acts = {}
        for i, ops in enumerate(sc["actors"]):
            def body(i=i, ops=ops):
                refs = DiskRefsContainer(root)
                for j, op in enumerate(ops):
                    t0 = len(s.history)
                    try:
                        res = _do_ref_op(refs, op)
                    except Exception as e:  # noqa: BLE001 - the outcome of the operation
                        res = _exc_res(e)
                    ctx["hist"].append([i, j, t0, len(s.history), res])
            acts["%02d" % i] = body
        return acts

    def pack(r):
        fin, locks, pf = _final_refs(root)
        return {"sched": r.choices, "ev": r.ev, "hist": sorted(r.ctx["hist"]), "final": fin, "locks": locks,
                "pf": pf, "errors": r.errors, "aba": r.aba}
    runs, trunc = _explore(lambda p, rng: _run_once(setup, make_actors, root, p, rng), a["mode"], pack)
    return {"runs": runs, "truncated": trunc}


# -- commits ---------------------------------------------------------------------------------------

_IDENT = b"verif <verif@example.com>"


def _commit_template(root):
    """A non-bare repository with HEAD -> refs/heads/x, an empty tree, and two pre-made commits c1 <- c2
    (objects only; no ref points at them yet).  Returns (tree id, c1, c2)."""
    from dulwich.repo import Repo
    from dulwich.objects import Tree, Commit
    shutil.rmtree(root, ignore_errors=True)
    os.makedirs(root)
    r = Repo.init(root)
    r.refs.set_symbolic_ref(b"HEAD", REF_NAMES[1])
    t = Tree()
    r.object_store.add_object(t)
    ids = []
    parent = None
    for k in (1, 2):
        c = Commit()
        c.tree = t.id
        c.parents = [parent] if parent else []
        c.author = c.committer = _IDENT
        c.author_time = c.commit_time = 1000000000 + k
        c.author_timezone = c.commit_timezone = 0
        c.message = b"c%d" % k
        r.object_store.add_object(c)
        ids.append(c.id)
        parent = c.id
    open(os.path.join(r.controldir(), "refs", "heads", ".keep"), "wb").close()
    r.close()
    return t.id, ids[0], ids[1]


def _ancestors(store, tip):
    seen, todo = set(), [tip]
    while todo:
        c = todo.pop()
        if c in seen or c is None:
            continue
        seen.add(c)
        todo.extend(store[c].parents)
    return seen


def impl_commit_explore(a):
    """Actors committing (WorkTree.commit) and/or doing ref operations on one branch of a disk repository."""
    from dulwich.repo import Repo
    root, sc = a["root"], a["scenario"]
    tmpl = root + "-tmpl"
    tree, c1, c2 = _commit_template(tmpl)
    shas = {"1": c1, "2": c2}
    git = os.path.join(root, ".git")

    def setup():
        shutil.rmtree(root, ignore_errors=True)
        shutil.copytree(tmpl, root, symlinks=True)
        ini = {"pf": sc["init"].get("pf"), "refs": {}}
        # write the initial refs by hand (values are real commit ids)
        packed = {}
        for r, (loose, pk) in sc["init"]["refs"].items():
            r = int(r)
            if r == 0:
                continue
            if loose is not None:
                with open(os.path.join(git, REF_NAMES[r].decode()), "wb") as f:
                    f.write(_val_bytes(loose, shas) + b"\n")
            if pk is not None:
                packed[REF_NAMES[r]] = _val_bytes(pk, shas)
        if packed or ini["pf"]:
            with open(os.path.join(git, "packed-refs"), "wb") as f:
                f.write(b"# pack-refs with: peeled fully-peeled sorted \n")
                for n in sorted(packed):
                    f.write(packed[n] + b" " + n + b"\n")
        return {"hist": [], "names": {c1: "1", c2: "2"}, "made": {}}

    def make_actors(ctx, s):
        acts = {}
        for i, ops in enumerate(sc["actors"]):
            def body(i=i, ops=ops):
                repo = Repo(root)
                try:
                    for j, op in enumerate(ops):
                        t0 = len(s.history)
                        try:
                            if op[0] == "commit":
                                cid = repo.get_worktree().commit(
                                    message=b"actor %d op %d" % (i, j), tree=tree, ref=REF_NAMES[op[1]],
                                    committer=_IDENT, author=_IDENT, commit_timestamp=1000000100 + i,
                                    commit_timezone=0, no_verify=True)
                                ctx["names"][cid] = str(op[2])
                                ctx["made"][str(op[2])] = cid
                                par = repo.object_store[cid].parents
                                res = ["commit", str(op[2]), ctx["names"].get(par[0], "?" + par[0].decode()) if par else None]
                            else:
                                res = _do_ref_op(repo.refs, op, ctx["names"], {**shas, **ctx["made"]})
                        except Exception as e:  # noqa: BLE001
                            res = _exc_res(e)
                        ctx["hist"].append([i, j, t0, len(s.history), res])
                finally:
                    repo.close()
            acts["%02d" % i] = body
        return acts

    def pack(r):
        names = r.ctx["names"]
        fin, locks, pf = _final_refs(git, names)
        # the property's own words: every commit reported successful is an ancestor of the final branch tip
        repo = Repo(root)
        try:
            try:
                tip = repo.refs[REF_NAMES[1]]
            except KeyError:
                tip = None
            anc = _ancestors(repo.object_store, tip) if tip else set()
            reach = sorted(names[c] for c in anc if c in names)
        finally:
            repo.close()
        return {"sched": r.choices, "ev": r.ev, "hist": sorted(r.ctx["hist"]), "final": fin, "locks": locks,
                "pf": pf, "errors": r.errors, "tip": names.get(tip, tip and "?" + tip.decode()), "reach": reach,
                "aba": r.aba}
    try:
        runs, trunc = _explore(lambda p, rng: _run_once(setup, make_actors, git, p, rng), a["mode"], pack)
    finally:
        shutil.rmtree(tmpl, ignore_errors=True)
    return {"runs": runs, "truncated": trunc}


def impl_mem_commit_explore(a):
    """Actors calling MemoryRepo.do_commit on one branch of one MemoryRepo.  DictRefsContainer makes no
    system call, so its methods are the atomic steps: each call of read_loose_ref / set_if_equals / add_if_new /
    remove_if_equals is a yield point (the class is documented as not thread-safe below that granularity)."""
    from dulwich.repo import MemoryRepo
    from dulwich.objects import Tree, Commit
    from dulwich.refs import DictRefsContainer
    sc = a["scenario"]
    root = a["root"]
    os.makedirs(root, exist_ok=True)
    branch = REF_NAMES[1]

    def setup():
        repo = MemoryRepo()
        t = Tree()
        repo.object_store.add_object(t)
        names = {}
        init = sc["init"]["refs"].get("1", [None, None])[0]
        if init is not None:
            parent = None
            for k in range(1, int(init) + 1):
                c = Commit()
                c.tree = t.id
                c.parents = [parent] if parent else []
                c.author = c.committer = _IDENT
                c.author_time = c.commit_time = 1000000000 + k
                c.author_timezone = c.commit_timezone = 0
                c.message = b"c%d" % k
                repo.object_store.add_object(c)
                names[c.id] = str(k)
                parent = c.id
            repo.refs._refs[branch] = parent
        return {"hist": [], "repo": repo, "tree": t.id, "names": names}

    def make_actors(ctx, s):
        repo = ctx["repo"]
        refs = repo.refs
        assert isinstance(refs, DictRefsContainer)

        def wrap(name, label):
            orig = getattr(refs, name)

            def w(*args, **kw):
                who = s.ip.actor()
                if who is None:
                    return orig(*args, **kw)
                return s._handle(who, "mem", (label,), lambda: orig(*args, **kw))
            setattr(refs, name, w)
        wrap("read_loose_ref", "mread")
        wrap("set_if_equals", "mcas")
        wrap("add_if_new", "madd")
        wrap("remove_if_equals", "mrm")
        acts = {}
        for i, ops in enumerate(sc["actors"]):
            def body(i=i, ops=ops):
                for j, op in enumerate(ops):
                    t0 = len(s.history)
                    try:
                        if op[0] == "commit":
                            cid = repo.do_commit(message=b"actor %d op %d" % (i, j), tree=ctx["tree"], ref=branch,
                                                 committer=_IDENT, author=_IDENT, commit_timestamp=1000000100 + i,
                                                 commit_timezone=0)
                            ctx["names"][cid] = str(op[2])
                            par = repo.object_store[cid].parents
                            res = ["commit", str(op[2]), ctx["names"].get(par[0], "?") if par else None]
                        elif op[0] == "get":
                            try:
                                res = ["val", _val_sym(refs[branch], ctx["names"])]
                            except KeyError:
                                res = ["val", None]
                        else:
                            raise ValueError(op)
                    except Exception as e:  # noqa: BLE001
                        res = _exc_res(e)
                    ctx["hist"].append([i, j, t0, len(s.history), res])
            acts["%02d" % i] = body
        return acts

    def pack(r):
        repo, names = r.ctx["repo"], r.ctx["names"]
        tip = repo.refs._refs.get(branch)
        anc = _ancestors(repo.object_store, tip) if tip else set()
        return {"sched": r.choices, "ev": r.ev, "hist": sorted(r.ctx["hist"]), "errors": r.errors,
                "tip": names.get(tip), "reach": sorted(names[c] for c in anc if c in names)}
    runs, trunc = _explore(lambda p, rng: _run_once(setup, make_actors, root, p, rng), a["mode"], pack)
    return {"runs": runs, "truncated": trunc}


# ------------------------------------------------------------------------------------------------
# host side: model encoding

def _mv(x):
    return "-" if x is None else (x if x.startswith("@") else "s" + x)


def _mold(o):
    return "*" if o is None else ("Z" if o == "Z" else _mv(o))


def _mop(op):
    k = op[0]
    if k == "cas":
        return f"cas:{op[1]}:{_mold(op[2])}:{_mv(op[3])}"
    if k == "set":
        return f"cas:{op[1]}:*:{_mv(op[2])}"
    if k == "add":
        return f"add:{op[1]}:{_mv(op[2])}"
    if k == "rm":
        return f"rm:{op[1]}:{_mold(op[2])}"
    if k == "del":
        return f"rm:{op[1]}:*"
    if k in ("read", "get"):
        return f"{k}:{op[1]}"
    if k == "symref":
        return f"symref:{op[1]}:{op[2]}"
    if k in ("pack", "list", "keys"):
        return k
    if k == "unpack":
        return f"unpack:{op[1]}"
    if k == "commit":
        return f"commit:{op[1]}:{op[2]}"
    raise ValueError(op)


def model_line(sc, sched, order, variant="coded"):
    init = sc["init"]
    ini = ("pf1" if init.get("pf") else "pf0") + "".join(
        f"|{r}={_mv(l)}/{_mv(p)}" for r, (l, p) in sorted(init["refs"].items()))
    actors = "/".join("+".join(_mop(op) for op in ops) for ops in sc["actors"])
    return (f"c08.run {variant} {','.join(map(str, order))} 1,2 {len(REF_NAMES)} {ini} {actors} "
            f"{','.join(map(str, sched)) or '-'}")


_EXC = {"FileLocked": "locked", "KeyError": "key", "SymrefLoop": "symloop", "CommitError": "commit",
        "FileNotFoundError": "notfound"}


def _res_str(res):
    k = res[0]
    if k == "val":
        return "v:" + _mv(res[1])
    if k == "bool":
        return "T" if res[1] else "F"
    if k == "none":
        return "none"
    if k == "dict":
        return "dict:" + ",".join(f"{r}={_mv(v)}" for r, v in res[1])
    if k == "keys":
        return "keys:" + ",".join(str(r) for r in res[1])
    if k == "exc":
        return "exc:" + _EXC.get(res[1], res[1])
    if k == "commit":
        return f"commit:{res[1]}:{res[2] if res[2] is not None else '-'}"
    return repr(res)


def impl_line(sc, run):
    """The real run rendered in the driver's output format."""
    outs = []
    for a in range(len(sc["actors"])):
        outs.append("+".join(_res_str(h[4]) for h in run["hist"] if h[0] == a))
    fin = "|".join(f"{r}={_mv(run['final'][str(r)][0])}/{_mv(run['final'][str(r)][1])}" for r in range(len(REF_NAMES)))
    locks, pl = [], False
    for l in run["locks"]:
        base = l[:-5]
        if base == "packed-refs":
            pl = True
        else:
            locks.append(str(PATH2REF.get(base, base)))
    fin += " locks=" + ",".join(sorted(locks)) + (",P" if pl else "") + (" pf1" if run["pf"] else " pf0")
    return ";".join(run["ev"]) + " # " + "/".join(outs) + " # " + fin


# ------------------------------------------------------------------------------------------------
# the oracle: exact (Wing-Gong) linearizability check against the map specification

UNIVERSE = tuple(range(len(REF_NAMES)))


def _resolve(m, name):
    contents = m.get(name)
    depth = 0
    while contents is not None and contents.startswith("@"):
        name = int(contents[1:])
        contents = m.get(name)
        if contents is None:
            break
        depth += 1
        if depth > 5:
            raise LookupError("symref loop")
    return name, contents


def spec_apply(m, op):
    """The simple map specification: (new map, the result the operation must return)."""
    k = op[0]
    if k == "read":
        return m, ("val", m.get(op[1]))
    if k == "get":
        return m, ("val", _resolve(m, op[1])[1])
    if k in ("cas", "set", "lcas"):
        name, old, new = (op[1], op[2], op[3]) if k != "set" else (op[1], None, op[2])
        real, _ = _resolve(m, name)
        if old is not None and (m.get(real) or "Z") != old:
            return m, ("bool", False)
        m2 = dict(m)
        m2[real] = new
        return m2, ("bool", True)
    if k == "add":
        real, c = _resolve(m, op[1])
        if c is not None:
            return m, ("bool", False)
        m2 = dict(m)
        m2[real] = op[2]
        return m2, ("bool", True)
    if k in ("rm", "del"):
        name, old = op[1], (op[2] if k == "rm" else None)
        if old is not None and (m.get(name) or "Z") != old:
            return m, ("bool", False)
        m2 = dict(m)
        m2.pop(name, None)
        return m2, ("bool", True)
    if k == "symref":
        m2 = dict(m)
        m2[op[1]] = "@%d" % op[2]
        return m2, ("none",)
    if k == "pack":
        return m, ("none",)
    if k == "unpack":      # add_packed_refs({name: None}): "if a target is None that means remove the ref"
        m2 = dict(m)
        m2.pop(op[1], None)
        return m2, ("none",)
    if k == "commit":      # atomically: parent = current head, head := the new commit
        real, c = _resolve(m, op[1])
        m2 = dict(m)
        m2[real] = str(op[2])
        return m2, ("commit", str(op[2]), c)
    if k == "has":
        return m, ("val", m.get(op[1]) is not None)
    if k == "final":
        return m, ("map", tuple(sorted(m.items())))
    raise ValueError(k)


def _tup(x):
    return tuple(_tup(y) for y in x) if isinstance(x, (list, tuple)) else x


def history_ops(sc, run):
    """(id, op, t_inv, t_ret, result) for the WG search.  Operations that raised are dropped (an error must mean
    no effect, which the final-state pseudo-operation checks); list/keys are decomposed per name."""
    ops, tmax = [], 0
    for a, j, t0, t1, res in run["hist"]:
        op = sc["actors"][a][j]
        tmax = max(tmax, t1)
        if res[0] == "exc":
            continue
        if op[0] == "list":
            d = {r: v for r, v in res[1]}
            for k in UNIVERSE:
                ops.append(((a, j, k), ["get", k], t0, t1, ("val", d.get(k))))
        elif op[0] == "keys":
            for k in UNIVERSE:
                ops.append(((a, j, k), ["has", k], t0, t1, ("val", k in res[1])))
        else:
            ops.append(((a, j), op, t0, t1, _tup(res)))
    fm = {}
    for r in UNIVERSE:
        l, p = run["final"][str(r)]
        if (l if l is not None else p) is not None:
            fm[r] = l if l is not None else p
    ops.append((("final",), ["final"], tmax + 1, tmax + 2, ("map", tuple(sorted(fm.items())))))
    return ops


def linearizable(m0, ops):
    """Exact search for a linearization (histories are tiny).  Returns the witness order or None."""
    seen = set()

    def rec(m, remaining, order):
        if not remaining:
            return order
        key = (tuple(sorted(m.items())), remaining)
        if key in seen:
            return None
        seen.add(key)
        for j in remaining:
            _, op, t0, _t1, res = ops[j]
            if any(ops[k][3] <= t0 for k in remaining if k != j):
                continue
            try:
                m2, exp = spec_apply(m, op)
            except LookupError:
                continue
            if exp != res:
                continue
            r = rec(m2, tuple(x for x in remaining if x != j), order + [ops[j][0]])
            if r is not None:
                return r
        return None
    return rec(dict(m0), tuple(range(len(ops))), [])


def abs_init(init):
    m = {}
    for r, (l, p) in init["refs"].items():
        v = l if l is not None else p
        if v is not None:
            m[int(r)] = v
    return m


# -- narrow classification of a failing run by the interleaving pattern that is present in its own trace -----

KNOWN_CLASSES = {
    "RL": "remove-if-equals-packed-refs-lock-busy-leaves-half-deleted-ref",
    "UL": "add-packed-refs-none-deletes-without-ref-lock",
    "PSD": "pack-refs-resurrects-deleted-ref",
    "PSU": "pack-refs-overwrites-concurrent-update",
    "RR": "remove-if-equals-loose+packed-resurrects",
    "PW": "reader-during-pack-refs-sees-missing",
    "SR": "symref-retargeted-between-follow-and-lock",
    "AN": "add-if-new-via-symref-rechecks-packed-under-wrong-name",
}
_READISH = {"openr", "stat", "lstat", "openrp", "statp", "scan"}
_DELETES = ("rm", "del", "unpack")


def _holder_at(ev, r, t):
    """who holds `<r>.lock` just before event index t"""
    holder = None
    for i in range(t):
        e = ev[i]
        if e[2] == r and e[1] == "openx" and e[3] == "ok":
            holder = int(e[0])
        elif e[2] == r and e[1] in ("rmlock", "replace") and holder == int(e[0]):
            holder = None
    return holder


def patterns(sc, run):
    """The known interleaving patterns present in this very run (from its own event trace)."""
    ev = [e.split(":") for e in run["ev"]]
    pats = set()
    n = len(ev)

    def kind_of(b, r):
        ks = {op[0] for op in sc["actors"][b] if len(op) > 1 and op[1] in (int(r), 0)}
        return "delete" if ks & set(_DELETES) else "update"
    for a, alist in enumerate(sc["actors"]):
        mine = [i for i, e in enumerate(ev) if int(e[0]) == a]
        kinds = {op[0] for op in alist}
        if "pack" in kinds:
            t_scan = next((i for i in mine if ev[i][1] == "scan"), None)
            t_rep = next((i for i in mine if ev[i][1] == "replacep" and t_scan is not None and i > t_scan), None)
            for r in ("1", "2"):
                t_read = next((i for i in mine if t_scan is not None and i > t_scan and ev[i][1] == "openr" and ev[i][2] == r), None)
                t_rm = next((i for i in mine if ev[i][1] == "rm" and ev[i][2] == r), None)
                if t_read is not None:
                    ends = [x for x in (t_rm, t_rep) if x is not None]
                    t_end = max(ends) if ends else n
                    # a deletion of r by somebody else overlaps [pack read the value, pack renamed packed-refs]:
                    # the stale value goes into packed-refs although the ref is (being) deleted
                    for b, blist in enumerate(sc["actors"]):
                        if b == a or not any(op[0] in _DELETES and op[1] == int(r) for op in blist):
                            continue
                        theirs = [i for i, e in enumerate(ev) if int(e[0]) == b and e[2] in (r, "")]
                        if theirs and theirs[-1] > t_read and theirs[0] < (t_rep if t_rep is not None else n):
                            pats.add("PSD")
                    # an update of r lands between the read and pack's unlink of the loose file
                    for i in range(t_read + 1, t_end):
                        e = ev[i]
                        if int(e[0]) != a and ((e[1] == "replace" and e[2] == r) or
                                               (e[1] == "replacep" and kind_of(int(e[0]), r) == "update")):
                            pats.add("PSU")
                if t_rm is not None and ev[t_rm][3] == "ok":
                    # ... or pack_refs unlinks the loose file while somebody else HOLDS that ref's lock
                    holder = _holder_at(ev, r, t_rm)
                    if holder is not None and holder != a:
                        pats.add("PSD" if kind_of(holder, r) == "delete" else "PSU")
                    if t_rep is not None and t_rm < t_rep:       # old order only: unlink before the rename
                        for i in range(t_rm + 1, t_rep):
                            e = ev[i]
                            if int(e[0]) != a and e[1] in _READISH and e[2] in (r, ""):
                                pats.add("PW")
        for op in alist:
            if op[0] == "unpack":
                # add_packed_refs({r: None}) drops the packed entry and unlinks the loose file without the ref lock
                r = str(op[1])
                t0 = next((i for i in mine if ev[i][1] == "openxp"), None)
                t_rm = next((i for i in mine if ev[i][1] == "rm" and ev[i][2] == r), None)
                t_rep = next((i for i in mine if ev[i][1] == "replacep"), None)
                if t0 is not None:
                    end = t_rm if t_rm is not None else (t_rep if t_rep is not None else n)
                    for i in range(t0, end + 1 if end < n else n):
                        e = ev[i]
                        if int(e[0]) != a and e[2] == r and e[1] in ("replace", "rm", "openx", "rmlock"):
                            pats.add("UL")
                    for t in (t_rep, t_rm):
                        if t is not None:
                            h = _holder_at(ev, r, t)
                            if h is not None and h != a:
                                pats.add("UL")
            if op[0] in ("rm", "del"):
                r = str(op[1])
                t_rm = next((i for i in mine if ev[i][1] == "rm" and ev[i][2] == r and ev[i][3] == "ok"), None)
                if t_rm is None:
                    continue
                t_xp = next((i for i in mine if i > t_rm and ev[i][1] == "openxp"), None)
                if t_xp is None:
                    continue
                if ev[t_xp][3] == "eexist":
                    pats.add("RL")
                    continue
                end = next((i for i in mine if i > t_xp and ev[i][1] in ("replacep", "rmlockp")), n)
                for i in range(t_rm + 1, end):
                    e = ev[i]
                    if int(e[0]) != a and e[1] in _READISH and e[2] in (r, ""):
                        pats.add("RR")
            if op[0] in ("cas", "set", "add", "get", "commit") and op[1] == 0 or op[0] == "list":
                # a symref is followed outside any lock: HEAD re-pointed between the read of HEAD and the
                # moment the operation takes effect
                reads0 = [i for i in mine if ev[i][1] == "openr" and ev[i][2] == "0"]
                if reads0:
                    t_f = reads0[0]
                    t_end = next((i for i in reversed(mine) if ev[i][1] in ("replace", "rmlock", "openr")), n)
                    for i in range(t_f + 1, t_end):
                        e = ev[i]
                        if int(e[0]) != a and e[1] == "replace" and e[2] == "0":
                            pats.add("SR")
            if op[0] == "add" and op[1] == 0:
                # add_if_new(HEAD): the packed-refs re-check under the lock looks up "HEAD"; the target got
                # packed between the follow and the lock
                t_x = next((i for i in mine if ev[i][1] == "openx"), None)
                reads0 = [i for i in mine if ev[i][1] == "openr" and ev[i][2] == "0"]
                won = any(h[0] == a and sc["actors"][a][h[1]] == op and h[4] == ["bool", True] for h in run["hist"])
                if t_x is not None and reads0 and won:
                    for i in range(reads0[0] + 1, t_x):
                        e = ev[i]
                        if int(e[0]) != a and e[1] == "replacep" and \
                                any(o[0] == "pack" for o in sc["actors"][int(e[0])]):
                            pats.add("AN")
    return pats


def classify(sc, run, model_agrees):
    """Known class only when one of the known interleaving patterns occurs in this very run AND the Lean model of
    the code as written predicts exactly this run; anything else stays unclassified (= reported)."""
    if not model_agrees:
        return None
    pats = patterns(sc, run)
    for p in ("RL", "UL", "PSD", "PSU", "RR", "PW", "AN", "SR"):
        if p in pats:
            return KNOWN_CLASSES[p]
    return None


# ------------------------------------------------------------------------------------------------
# scenarios

def _init(x=(None, None), y=(None, None), pf=False, head="@1"):
    return {"pf": pf, "refs": {"0": [head, None], "1": list(x), "2": list(y)}}


INITS = {
    "absent": _init(),
    "loose": _init(("1", None)),
    "packed": _init((None, "1")),
    "both": _init(("2", "1")),
    "bothsame": _init(("1", "1")),
    "absent-pf": _init(pf=True),
    # a second ref lives in packed-refs only: every rewrite of packed-refs must carry it along
    "packed+ypacked": _init((None, "1"), (None, "3")),
    "both+ypacked": _init(("2", "1"), (None, "3")),
}
# symref scenarios: a second branch exists
INITS_SYM = {
    "loose+y": _init(("1", None), ("3", None)),
    "packed+y": _init((None, "1"), ("3", None)),
    "both+y": _init(("2", "1"), (None, "3")),
}


def _cur(init):
    return abs_init(init).get(1, "Z")


def ops_for(init, w):
    """Every kind of operation, phrased against the current value of refs/heads/x, writing value `w`."""
    cur, wrong = _cur(init), "9"
    out = []
    for n in (1, 0):
        out += [["cas", n, cur, w], ["cas", n, wrong, w], ["set", n, w], ["add", n, w], ["get", n]]
    out += [["cas", 1, "Z", w], ["rm", 1, cur], ["rm", 1, wrong], ["del", 1], ["read", 1], ["pack"], ["list"], ["keys"],
            ["unpack", 1]]
    return out


def core_pairs(init):
    cur = _cur(init)
    return [
        ([["cas", 1, cur, "5"]], [["cas", 1, cur, "6"]]),
        ([["cas", 0, cur, "5"]], [["cas", 1, cur, "6"]]),
        ([["cas", 1, cur, "5"]], [["set", 1, "6"]]),
        ([["cas", 1, cur, "5"]], [["rm", 1, cur]]),
        ([["cas", 1, cur, "5"]], [["del", 1]]),
        ([["add", 1, "5"]], [["add", 1, "6"]]),
        ([["add", 0, "5"]], [["cas", 1, "Z", "6"]]),
        ([["rm", 1, cur]], [["rm", 1, cur]]),
        ([["rm", 1, cur]], [["add", 1, "6"]]),
        ([["cas", 1, cur, "5"]], [["read", 1]]),
        ([["set", 1, "5"]], [["get", 0]]),
        ([["rm", 1, cur]], [["read", 1]]),
        ([["del", 1]], [["list"]]),
        ([["pack"]], [["read", 1]]),
        ([["pack"]], [["cas", 1, cur, "6"]]),
        ([["pack"]], [["keys"]]),
        ([["read", 2], ["cas", 1, cur, "5"]], [["read", 2], ["cas", 1, cur, "6"]]),   # warm packed-refs caches
        ([["read", 2], ["read", 1]], [["pack"]]),
        # holders of packed-refs.lock that may find nothing (left) to do must abort, not rewrite
        ([["rm", 1, cur]], [["unpack", 1]]),
        ([["del", 1]], [["unpack", 1]]),
        ([["del", 1]], [["pack"]]),
        ([["unpack", 1]], [["unpack", 1]]),
        ([["unpack", 1]], [["pack"]]),
        ([["del", 1]], [["del", 2]]),
    ]


def _kinds(sc):
    return "|".join("+".join(op[0] + ("@" if len(op) > 1 and op[1] == 0 else "") for op in ops) for ops in sc["actors"])


# ------------------------------------------------------------------------------------------------
# run

class _Pool:
    """A few worker children (real code, fixed hash seed), each with its own scratch directory."""

    def __init__(self, ctx, n):
        self.ws = [core.Worker("default", mem_mb=4096, cpu_s=3600) for _ in range(n)]
        self.roots = [str(ctx.scratch / f"w{i}") for i in range(n)]

    def map(self, jobs, timeout=1500):
        """jobs: list of (op, args-without-root); returns the replies in order."""
        from concurrent.futures import ThreadPoolExecutor
        import queue
        q = queue.Queue()
        for i in range(len(self.ws)):
            q.put(i)
        out = [None] * len(jobs)

        def one(k):
            i = q.get()
            try:
                op, args = jobs[k]
                out[k] = self.ws[i].ask({"mod": MOD, "op": op, "args": dict(args, root=self.roots[i])}, timeout=timeout)
            finally:
                q.put(i)
        with ThreadPoolExecutor(len(self.ws)) as ex:
            list(ex.map(one, range(len(jobs))))
        return out

    def close(self):
        for w in self.ws:
            w.close()


def _check_runs(ctx, stream, kind, sc, runs, order, variant="coded"):
    """Correspondence (model vs real, every step) and the direct oracle for the runs of one scenario."""
    nomodel = any(op[0] == "lcas" for ops in sc["actors"] for op in ops)   # locked_ref is not in the Lean model
    if nomodel:
        lines = []
    elif kind == "mem":
        init = sc["init"]["refs"].get("1", [None, None])[0]
        cids = ",".join(str(ops[0][2]) for ops in sc["actors"])
        lines = [f"c08.mem coded {_mv(init)} {cids} {','.join(map(str, r['sched'])) or '-'}" for r in runs]
    else:
        lines = [model_line(sc, r["sched"], order, variant) for r in runs]
    outs = ctx.driver.batch(lines) if lines else [None] * len(runs)
    m0 = abs_init(sc["init"])
    if kind == "mem":
        m0 = {k: v for k, v in m0.items() if k == 1}      # a MemoryRepo has just the branch
    tag = _kinds(sc)
    nfail = 0
    for r, mo in zip(runs, outs):
        case = {"kind": kind, "scenario": sc, "sched": r["sched"]}
        if r.get("aba"):
            # two different packed-refs files of this run had the same (ino, size, mtime, ctime): the environment
            # assumption of the model is violated for this run; it is counted, not judged
            ctx.extra_cov["stat_identity_collisions"] = ctx.extra_cov.get("stat_identity_collisions", 0) + 1
            ctx.count(stream + ".excluded", (json.dumps(sc, sort_keys=True), tuple(r["sched"])), False, "stat-identity-collision")
            continue
        if kind == "mem":
            il = ";".join(r["ev"]) + " # " + "/".join(
                "+".join(_res_str(h[4]) for h in r["hist"] if h[0] == a) for a in range(len(sc["actors"]))) + \
                " # " + _mv(r["tip"])
        else:
            il = impl_line(sc, r)
        agrees = nomodel or (il == mo)
        ctx.count(stream, (json.dumps(sc, sort_keys=True), tuple(r["sched"])), True, tag)
        if not agrees:
            ctx.disagree(stream, case, mo, il, kind)
        if r.get("errors"):
            ctx.oracle_fail(stream, dict(case, errors=r["errors"]), f"actor thread died: {r['errors']}", "actor-crash")
        # ---- direct oracle, independent of the model
        bad = None
        for a, j, _t0, _t1, res in r["hist"]:
            if res[0] == "exc":
                ctx.hist.setdefault(stream + ".errors", {})
                ctx.hist[stream + ".errors"][res[1]] = ctx.hist[stream + ".errors"].get(res[1], 0) + 1
            if res[0] == "exc" and res[1] not in LOSER_ERRORS and (len(res) < 3 or res[2] != "os"):
                bad = (f"operation {sc['actors'][a][j]} raised {res[1]} (a loser may get FileLocked, CommitError or an "
                       f"OS error, nothing else)", "exc-" + res[1])
        if bad is None:
            if kind == "mem":
                fin = {str(k): [None, None] for k in UNIVERSE}
                fin["1"] = [r["tip"], None]
                r = dict(r, final=fin)
            ops = history_ops(sc, r)
            if linearizable(m0, ops) is None:
                bad = ("history is not linearizable w.r.t. the ref-map specification: " +
                       "; ".join(f"{sc['actors'][a][j]}->{res}" for a, j, _x, _y, res in r["hist"]) +
                       f"; final {r['final']}", None)
        if bad is None and kind in ("commit", "mem") and all(op[0] in ("commit", "get", "read") for ops in sc["actors"] for op in ops):
            for a, j, _t0, _t1, res in r["hist"]:
                if res[0] == "commit" and res[1] not in r["reach"]:
                    bad = (f"commit {res[1]} was reported successful but is not an ancestor of the final tip {r['tip']}", None)
        if bad is not None:
            what, cls = bad
            if cls is None:
                if kind in ("commit", "mem") and any(op[0] == "commit" for ops in sc["actors"] for op in ops) and agrees \
                        and _two_reads_pattern(sc, r):
                    cls = "worktree-commit-two-reads-lost-commit"
                elif nomodel:
                    # locked_ref.__exit__ renames the (empty) lock file over the ref when nothing was written
                    if any(sc["actors"][a][j][0] == "lcas" and res == ["bool", False] for a, j, _x, _y, res in r["hist"]):
                        cls = "locked-ref-exit-without-write-truncates-ref"
                else:
                    cls = classify(sc, r, agrees)
            nfail += 1
            ctx.oracle_fail(stream, dict(case, ev=r["ev"], hist=r["hist"], final=r.get("final"), model=mo), what, cls)
    return nfail


def _two_reads_pattern(sc, r):
    """F9's own interleaving: another actor's successful write to the branch lies between a committing actor's
    first read of the branch and its second read (the one the swap is conditioned on)."""
    ev = [e.split(":") for e in r["ev"]]
    for a, ops in enumerate(sc["actors"]):
        if not any(op[0] == "commit" for op in ops):
            continue
        mine = [i for i, e in enumerate(ev) if int(e[0]) == a]
        reads = [i for i in mine if ev[i][1] == "openr" and ev[i][2] == "1"]
        t_x = next((i for i in mine if ev[i][1] == "openx"), None)
        if len(reads) < 2:
            continue
        first = reads[0]
        # the last read of the branch before set_if_equals' own follow(): reads come in the order
        # [read#1] [read#2] [follow inside set_if_equals] [re-reads under the lock]
        before_lock = [i for i in reads if t_x is None or i < t_x]
        if len(before_lock) < 2:
            continue
        second = before_lock[1]
        for i in range(first + 1, second):
            e = ev[i]
            if int(e[0]) != a and e[1] in ("replace", "rm", "replacep") and e[2] in ("1", ""):
                return True
    return False


def _refs_jobs(ctx, thorough):
    """(stream, kind, scenario, mode) list for the ref-operation streams."""
    rng = ctx.rng
    jobs = []
    # 1. core pairs on every initial state: exhaustive up to 2 pre-emptions
    for iname, init in INITS.items():
        for a, b in core_pairs(init):
            jobs.append(("pairs.core", "refs", {"init": init, "actors": [a, b]}, {"dfs": 2, "max": 4000}))
    # 2. the full pair matrix: a seeded sample in quick, everything in thorough
    combos = []
    for iname, init in INITS.items():
        if iname in ("absent-pf", "both+ypacked"):
            continue
        for a in ops_for(init, "5"):
            for b in ops_for(init, "6"):
                combos.append((init, a, b))
    rng.shuffle(combos)
    n = len(combos) if thorough else ctx.budget(36, mult=1)
    for init, a, b in combos[:n]:
        jobs.append(("pairs.matrix", "refs", {"init": init, "actors": [[a], [b]]}, {"dfs": 2, "max": 1500}))
    # 3. symbolic refs: HEAD re-pointed while others update through it (3 actors)
    for iname, init in INITS_SYM.items():
        cur = _cur(init)
        trip = [
            [[["cas", 0, cur, "5"]], [["symref", 0, 2]], [["read", 1]]],
            [[["set", 0, "5"]], [["symref", 0, 2]], [["get", 0]]],
            [[["add", 0, "5"]], [["symref", 0, 2]], [["del", 1]]],
            [[["get", 0]], [["symref", 0, 2]], [["set", 2, "6"]]],
        ]
        for t in (trip if thorough else trip[:2]):
            jobs.append(("triples.symref", "refs", {"init": init, "actors": t}, {"dfs": 1, "max": 600}))
            jobs.append(("triples.symref", "refs", {"init": init, "actors": t},
                         {"random": ctx.budget(40), "seed": rng.randrange(1 << 30)}))
    # 3b. add_if_new through HEAD while the target is created and packed by someone else
    for sc in ({"init": INITS["absent"], "actors": [[["add", 0, "5"]], [["set", 1, "6"], ["pack"]]]},
               {"init": INITS["absent"], "actors": [[["add", 0, "5"]], [["set", 1, "6"]], [["pack"]]]},
               # packed-refs.lock busy (another delete) while remove_if_equals is half way
               {"init": _init(("2", "1"), (None, "3")), "actors": [[["rm", 1, "2"]], [["del", 2]]]}):
        jobs.append(("triples.symref", "refs", sc, {"dfs": 2 if len(sc["actors"]) == 2 else 1, "max": 800}))
    # 3c. compare-and-swap through the public locked_ref context manager (direct oracle only: not in the model)
    for iname in ("absent", "loose", "packed", "both"):
        init = INITS[iname]
        cur = _cur(init)
        for acts in ([[["lcas", 1, "9", "5"]]], [[["lcas", 1, cur, "5"]], [["cas", 1, cur, "6"]]],
                     [[["lcas", 1, cur, "5"]], [["lcas", 1, cur, "6"]]], [[["lcas", 0, cur, "5"]], [["read", 1]]]):
            jobs.append(("lockedref", "refs", {"init": init, "actors": acts}, {"dfs": 2, "max": 600}))
    # 4. triples: random op triples, one pre-emption exhaustively + random schedules beyond
    inits = [i for k, i in INITS.items() if k not in ("absent-pf", "both+ypacked")]
    for _ in range(ctx.budget(8, mult=12)):
        init = rng.choice(inits)
        t = [[rng.choice(ops_for(init, w))] for w in ("5", "6", "7")]
        jobs.append(("triples.random", "refs", {"init": init, "actors": t}, {"dfs": 1, "max": 500}))
        jobs.append(("triples.random", "refs", {"init": init, "actors": t},
                     {"random": ctx.budget(60), "seed": rng.randrange(1 << 30)}))
    # 5. beyond two pre-emptions: random schedules for pairs
    for _ in range(ctx.budget(15, mult=13)):
        init = rng.choice(inits)
        a, b = rng.choice(ops_for(init, "5")), rng.choice(ops_for(init, "6"))
        jobs.append(("pairs.random", "refs", {"init": init, "actors": [[a], [b]]},
                     {"random": ctx.budget(40), "seed": rng.randrange(1 << 30)}))
    return jobs


def _commit_jobs(ctx, thorough):
    rng = ctx.rng
    jobs = []
    inits = {"absent": _init(), "loose": _init(("1", None)), "packed": _init((None, "1")), "both": _init(("2", "1"))}
    for iname, init in inits.items():
        for ref in (0, 1):
            if ref == 1 and not thorough and iname in ("packed", "both"):
                continue
            sc = {"init": init, "actors": [[["commit", ref, 100]], [["commit", ref, 101]]]}
            jobs.append(("commit.disk", "commit", sc, {"dfs": 2 if (thorough or iname in ("loose", "absent")) else 1,
                                                        "max": 3000 if thorough else 260}))
            jobs.append(("commit.disk", "commit", sc, {"random": ctx.budget(15), "seed": rng.randrange(1 << 30)}))
    cur = "1"
    extra = [
        {"init": inits["loose"], "actors": [[["commit", 0, 100]], [["cas", 1, cur, "2"]]]},
        {"init": inits["loose"], "actors": [[["commit", 0, 100]], [["del", 1]]]},
        {"init": inits["loose"], "actors": [[["commit", 0, 100]], [["pack"]]]},
        {"init": inits["loose"], "actors": [[["commit", 0, 100]], [["commit", 0, 101]], [["commit", 0, 102]]]},
    ]
    for sc in extra:
        jobs.append(("commit.disk", "commit", sc, {"dfs": 1, "max": 400 if thorough else 120}))
    for init in ("absent", "loose"):
        for n in (2, 3):
            sc = {"init": inits[init], "actors": [[["commit", 1, 100 + i]] for i in range(n)]}
            jobs.append(("commit.memory", "mem", sc, {"dfs": 4, "max": 2000}))
    return jobs


_OPS = {"refs": "explore", "commit": "commit_explore", "mem": "mem_commit_explore"}


def _run_jobs(ctx, pool, jobs, order):
    reps = pool.map([(_OPS[kind], {"scenario": sc, "mode": mode}) for _s, kind, sc, mode in jobs])
    total = 0
    for (stream, kind, sc, mode), rep in zip(jobs, reps):
        if "r" not in rep:
            raise core.InfraError(f"worker failed on {stream} {sc}: {rep}")
        runs = rep["r"]["runs"]
        if rep["r"]["truncated"]:
            ctx.extra_cov["truncated_explorations"] = ctx.extra_cov.get("truncated_explorations", 0) + 1
        total += len(runs)
        _check_runs(ctx, stream, kind, sc, runs, order)
        if len(ctx.samples) < 3 and runs:
            ctx.sample({"stream": stream, "scenario": sc, "schedule": runs[-1]["sched"], "events": runs[-1]["ev"],
                        "history": runs[-1]["hist"]})
    return total


def _corpus(ctx, pool, order):
    d = core.VERIF / "corpus" / "C08"
    if not d.exists():
        return
    jobs = []
    for f in sorted(d.glob("*.json")):
        c = json.loads(f.read_text())
        jobs.append(("corpus", c["kind"], c["scenario"], {"explicit": [c["sched"]]}))
    _run_jobs(ctx, pool, jobs, order)


def run(ctx: core.Ctx):
    ctx.assumptions += [
        "interleaving semantics at system-call granularity (harness/sched.py): one actor runs between two calls on a "
        "ref file, its lock, packed-refs or the refs/heads listing; all other calls (objects, reflog, config, "
        "mkdir/rmdir) are merged into the preceding step; reading a file after open() is atomic with the open",
        "each actor owns its DiskRefsContainer (models separate processes); the stat identity of successive "
        "packed-refs files is pairwise distinct (true here: ns timestamps); refs/heads is kept non-empty by a "
        "non-ref sentinel file so the rmdir clean-up of remove_if_equals never fires",
        "DictRefsContainer methods are atomic steps for the in-memory commit stream (the class makes no system call "
        "and documents itself as not thread-safe below that granularity)",
        "an operation that raises FileLocked, CommitError or an OSError is a 'loser': it must have had no effect "
        "(checked through the final state and every other result); any other exception is a violation",
    ]
    pool = _Pool(ctx, int(os.environ.get("VERIF_C08_WORKERS", "4")))
    try:
        rep = pool.ws[0].ask({"mod": MOD, "op": "hashorder", "args": {}})
        if "r" not in rep:
            raise core.InfraError(f"hash order probe failed: {rep}")
        order = rep["r"]
        ctx.extra_cov["set_iteration_order"] = order
        _corpus(ctx, pool, order)
        n1 = _run_jobs(ctx, pool, _refs_jobs(ctx, ctx.thorough), order)
        n2 = _run_jobs(ctx, pool, _commit_jobs(ctx, ctx.thorough), order)
        ctx.extra_cov["schedules_replayed"] = {"refs": n1, "commit": n2}
    finally:
        pool.close()


def search(ctx: core.Ctx):
    """A proof, the translator or the correspondence broke and the oracle has not failed yet: hit the direct oracle
    harder — the whole pair matrix on every initial state plus the commit streams with deeper exploration."""
    pool = _Pool(ctx, int(os.environ.get("VERIF_C08_WORKERS", "4")))
    try:
        order = pool.ws[0].ask({"mod": MOD, "op": "hashorder", "args": {}})["r"]
        jobs = [j for j in _refs_jobs(ctx, True) if j[0] in ("pairs.matrix", "triples.symref")]
        # scenarios that disagreed first
        seen = set()
        pri = []
        for d in ctx.disagreements:
            key = json.dumps(d["case"].get("scenario"), sort_keys=True)
            if key not in seen and d["case"].get("scenario"):
                seen.add(key)
                pri.append(("search", d["case"]["kind"], d["case"]["scenario"], {"dfs": 3, "max": 3000}))
        import time
        step = 100
        allj = pri[:20] + [("search." + s, k, sc, m) for s, k, sc, m in _commit_jobs(ctx, True)] + \
            [("search." + s, k, sc, m) for s, k, sc, m in jobs]
        deadline = time.time() + (1500 if ctx.thorough else 600)
        for i in range(0, len(allj), step):
            _run_jobs(ctx, pool, allj[i:i + step], order)
            if ctx.oracle_failures:
                return
            if time.time() > deadline:
                ctx.notes.append(f"search stopped at its time budget after {i + step} of {len(allj)} scenarios")
                return
    finally:
        pool.close()


def replay(ctx: core.Ctx, data: dict) -> int:
    c = data.get("case", data)
    pool = _Pool(ctx, 1)
    try:
        order = pool.ws[0].ask({"mod": MOD, "op": "hashorder", "args": {}})["r"]
        rep = pool.map([(_OPS[c["kind"]], {"scenario": c["scenario"], "mode": {"explicit": [c["sched"]]}})])[0]
        if "r" not in rep:
            print("replay: worker failed:", rep)
            return 2
        r = rep["r"]["runs"][0]
        print("replay events :", " ".join(r["ev"]))
        print("replay history:", r["hist"])
        print("replay final  :", r.get("final"), r.get("tip"))
        ctx.known = []     # a replay reports the bare verdict of the oracle
        _check_runs(ctx, "replay", c["kind"], c["scenario"], [r], order)
        for f in ctx.oracle_failures:
            print("oracle:", f["what"])
        if ctx.oracle_failures:
            print(f"VIOLATION property=C08 replay={data.get('_path', '<replayed>')}")
            return 1
        print("replay: property holds on this case")
        return 0
    finally:
        pool.close()
