"""C20 — configuration files round-trip and mean the same to dulwich and git.

Model: lean/DulwichModel/Model/Config.lean; theorems: Props/C20.lean (lemmas in Lemmas/Config.lean).
Tie: translate() regenerates Gen/Config.lean (escape tables, comment/whitespace characters, quoting
triggers, replace chains, header/line syntax bytes, CPython's strip()/isalnum()/lower() byte classes);
run() drives the correspondence streams (model vs the real functions, model bytes vs real bytes, model
read vs real read) and the direct oracle (real write->read, C git as third party in both directions).
"""
from __future__ import annotations

import ast
import itertools
import json
import os
import subprocess
from io import BytesIO
from pathlib import Path

from .. import core, translate as T
from ..core import hx, unhx

MOD = "c20"
PROP = "C20"


# ------------------------------------------------------------------------------------------------
# translator

class Hole:
    def __init__(self, name):
        self.name = name


def _consts(fn: ast.AST) -> list:
    out = []
    for x in ast.walk(fn):
        if isinstance(x, ast.Constant) and isinstance(x.value, (bytes, int)) and not isinstance(x.value, bool):
            out.append((x.lineno, x.col_offset, x.value))
    return [v for _, _, v in sorted(out)]


def _shape(fn: ast.AST, name: str, template: list) -> dict:
    """Match the ordered bytes/int constants of `fn` against `template` (literals must be equal, Holes
    are captured; a Hole used twice must capture equal values).  The model was written against this shape:
    anything else means the hand-written model may no longer describe the function."""
    got = _consts(fn)
    if len(got) != len(template):
        raise T.TranslateError(f"{name}: constant shape changed: {got!r}")
    env: dict = {}
    for i, (g, t) in enumerate(zip(got, template)):
        if isinstance(t, Hole):
            if t.name in env and env[t.name] != g:
                raise T.TranslateError(f"{name}: constant #{i} {g!r} differs from earlier use of {t.name} ({env[t.name]!r})")
            env[t.name] = g
        elif g != t or type(g) is not type(t):
            raise T.TranslateError(f"{name}: constant #{i} is {g!r}, model was written for {t!r}")
    return env


def _ev(node: ast.AST, tree: ast.Module):
    """literal evaluator that also understands ord(b'x')"""
    if isinstance(node, ast.Call) and isinstance(node.func, ast.Name) and node.func.id == "ord" and len(node.args) == 1:
        v = _ev(node.args[0], tree)
        if not isinstance(v, bytes) or len(v) != 1:
            raise T.TranslateError(f"ord() of {v!r}")
        return v[0]
    if isinstance(node, ast.Dict):
        d = {}
        for k, v in zip(node.keys, node.values):
            d[_ev(k, tree)] = _ev(v, tree)
        return d
    if isinstance(node, (ast.List, ast.Tuple, ast.Set)):
        vals = [_ev(e, tree) for e in node.elts]
        return vals
    return T.eval_literal(node, tree)


def _module_const(tree: ast.Module, name: str):
    for st in tree.body:
        if isinstance(st, ast.Assign) and any(isinstance(t, ast.Name) and t.id == name for t in st.targets):
            return _ev(st.value, tree)
        if isinstance(st, ast.AnnAssign) and isinstance(st.target, ast.Name) and st.target.id == name and st.value:
            return _ev(st.value, tree)
    raise T.TranslateError(f"constant {name!r} not found")


def _one_byte(b, what) -> int:
    if not isinstance(b, bytes) or len(b) != 1:
        raise T.TranslateError(f"{what}: expected a single byte, got {b!r}")
    return b[0]


def _replace_chain(fn: ast.FunctionDef, var: str) -> list:
    """[(from_byte, to_bytes)] for `var = var.replace(a, b)` statements and/or a chained
    `return var.replace(a,b).replace(c,d)`; any other statement touching the value is an error."""
    chain = []

    def unwind(call):
        # returns list in application order
        if isinstance(call, ast.Name) and call.id == var:
            return []
        if isinstance(call, ast.Call) and isinstance(call.func, ast.Attribute) and call.func.attr == "replace" \
                and len(call.args) == 2 and not call.keywords:
            inner = unwind(call.func.value)
            a, b = ast.literal_eval(call.args[0]), ast.literal_eval(call.args[1])
            return inner + [(_one_byte(a, f"{fn.name}.replace"), b)]
        raise T.TranslateError(f"{fn.name}: unexpected expression {ast.dump(call)[:100]}")

    returned = False
    for st in fn.body:
        if isinstance(st, ast.Expr) and isinstance(st.value, ast.Constant) and isinstance(st.value.value, str):
            continue  # docstring
        if isinstance(st, ast.If):
            continue  # guard (handled by the caller)
        if isinstance(st, ast.Assign) and len(st.targets) == 1 and isinstance(st.targets[0], ast.Name) \
                and st.targets[0].id == var:
            chain += unwind(st.value)
            continue
        if isinstance(st, ast.Return):
            chain += unwind(st.value)
            returned = True
            continue
        raise T.TranslateError(f"{fn.name}: unexpected statement {ast.dump(st)[:100]}")
    if not returned or not chain:
        raise T.TranslateError(f"{fn.name}: no replace chain found")
    return chain


def _format_string_rule(fn: ast.FunctionDef):
    body = [s for s in fn.body if not (isinstance(s, ast.Expr) and isinstance(s.value, ast.Constant))]
    if len(body) != 1 or not isinstance(body[0], ast.If):
        raise T.TranslateError("_format_string: expected a single if/else")
    iff = body[0]
    tests = iff.test.values if isinstance(iff.test, ast.BoolOp) and isinstance(iff.test.op, ast.Or) else [iff.test]
    starts, ends, contains = [], [], []
    strip_changes = False
    for t in tests:
        if isinstance(t, ast.Call) and isinstance(t.func, ast.Attribute) and t.func.attr in ("startswith", "endswith") \
                and isinstance(t.func.value, ast.Name) and t.func.value.id == "value" and len(t.args) == 1:
            arg = ast.literal_eval(t.args[0])
            arg = list(arg) if isinstance(arg, tuple) else [arg]
            lst = starts if t.func.attr == "startswith" else ends
            lst += [_one_byte(a, "_format_string." + t.func.attr) for a in arg]
        elif isinstance(t, ast.Compare) and len(t.ops) == 1 and isinstance(t.ops[0], ast.In) \
                and isinstance(t.comparators[0], ast.Name) and t.comparators[0].id == "value":
            contains.append(_one_byte(ast.literal_eval(t.left), "_format_string.in"))
        elif isinstance(t, ast.Compare) and len(t.ops) == 1 and isinstance(t.ops[0], ast.NotEq) \
                and isinstance(t.left, ast.Name) and t.left.id == "value" \
                and isinstance(t.comparators[0], ast.Call) and isinstance(t.comparators[0].func, ast.Attribute) \
                and t.comparators[0].func.attr == "strip" and not t.comparators[0].args \
                and isinstance(t.comparators[0].func.value, ast.Name) and t.comparators[0].func.value.id == "value":
            strip_changes = True   # value != value.strip()
        else:
            raise T.TranslateError(f"_format_string: unknown quoting trigger {ast.dump(t)[:120]}")

    def is_escape_call(n):
        return isinstance(n, ast.Call) and isinstance(n.func, ast.Name) and n.func.id == "_escape_value" \
            and len(n.args) == 1 and isinstance(n.args[0], ast.Name) and n.args[0].id == "value"
    if len(iff.body) != 1 or not isinstance(iff.body[0], ast.Return) or len(iff.orelse) != 1 \
            or not isinstance(iff.orelse[0], ast.Return):
        raise T.TranslateError("_format_string: expected return in both branches")
    q = iff.body[0].value
    if not (isinstance(q, ast.BinOp) and isinstance(q.op, ast.Add) and isinstance(q.left, ast.BinOp)
            and isinstance(q.left.op, ast.Add) and is_escape_call(q.left.right)):
        raise T.TranslateError("_format_string: quoted branch is not  q + _escape_value(value) + q")
    qo, qc = ast.literal_eval(q.left.left), ast.literal_eval(q.right)
    if not is_escape_call(iff.orelse[0].value):
        raise T.TranslateError("_format_string: unquoted branch is not _escape_value(value)")
    return strip_changes, starts, ends, contains, qo, qc


def _forbidden_in(fn: ast.FunctionDef, var: str) -> list:
    for st in fn.body:
        if isinstance(st, ast.If) and any(isinstance(b, ast.Raise) for b in st.body):
            tests = st.test.values if isinstance(st.test, ast.BoolOp) and isinstance(st.test.op, ast.Or) else [st.test]
            out = []
            for t in tests:
                if isinstance(t, ast.Compare) and isinstance(t.ops[0], ast.In) and isinstance(t.comparators[0], ast.Name) \
                        and t.comparators[0].id == var:
                    out.append(_one_byte(ast.literal_eval(t.left), fn.name))
                else:
                    raise T.TranslateError(f"{fn.name}: unknown guard {ast.dump(t)[:100]}")
            return out
    return []


def _names_used(fn: ast.AST) -> set:
    return {n.id for n in ast.walk(fn) if isinstance(n, ast.Name)}


MODELLED = ["_format_string", "_escape_value", "_parse_string", "_escape_subsection", "_unescape_subsection",
            "_check_variable_name", "_check_section_name", "_strip_comments", "_is_line_continuation",
            "_parse_section_header_line", "ConfigFile.from_file", "ConfigFile.write_to_file", "lower_key",
            "CaseInsensitiveOrderedMultiDict.__setitem__", "CaseInsensitiveOrderedMultiDict.set",
            "CaseInsensitiveOrderedMultiDict.__delitem__", "CaseInsensitiveOrderedMultiDict.__getitem__",
            "CaseInsensitiveOrderedMultiDict.get_all", "CaseInsensitiveOrderedMultiDict.setdefault",
            "ConfigDict.set", "ConfigDict.add", "ConfigDict.remove", "ConfigDict.get", "ConfigDict.get_multivar"]



def fingerprints(repo: Path) -> dict:
    tree = T.module_ast(repo / "dulwich" / "config.py")
    out = {}
    for q in MODELLED:
        try:
            out[q] = T.fingerprint(T.find_def(tree, q))
        except T.TranslateError:
            out[q] = "missing"
    return out


def lb(b) -> str:
    return "[" + ", ".join(str(x) for x in b) + "]"


def translate(repo: Path) -> dict:
    tree = T.module_ast(repo / "dulwich" / "config.py")
    H = Hole
    esc_table = _module_const(tree, "_ESCAPE_TABLE")
    if not isinstance(esc_table, dict) or not all(isinstance(k, int) and isinstance(v, int) and 0 <= k < 256 and 0 <= v < 256
                                                  for k, v in esc_table.items()):
        raise T.TranslateError(f"_ESCAPE_TABLE is not a byte->byte dict: {esc_table!r}")
    comment = list(_module_const(tree, "_COMMENT_CHARS"))
    white = list(_module_const(tree, "_WHITESPACE_CHARS"))
    strip_changes, starts, ends, contains, qo, qc = _format_string_rule(T.find_def(tree, "_format_string"))
    esc_writes = _replace_chain(T.find_def(tree, "_escape_value"), "value")
    sub_fn = T.find_def(tree, "_escape_subsection")
    sub_writes = _replace_chain(sub_fn, "name")
    sub_forbidden = _forbidden_in(sub_fn, "name")

    ps = T.find_def(tree, "_parse_string")
    used = _names_used(ps)
    for nm in ("_ESCAPE_TABLE", "_COMMENT_CHARS", "_WHITESPACE_CHARS"):
        if nm not in used:
            raise T.TranslateError(f"_parse_string no longer uses {nm}")
    strips = [n for n in ast.walk(ps) if isinstance(n, ast.Call) and isinstance(n.func, ast.Attribute)
              and n.func.attr == "strip" and isinstance(n.func.value, ast.Name) and n.func.value.id == "value"]
    if len(strips) != 1 or len(strips[0].args) > 1 or strips[0].keywords:
        raise T.TranslateError("_parse_string: expected exactly one value.strip(...) call")
    if strips[0].args:
        # value.strip(b"...") : the explicit set of insignificant bytes
        strip_arg = ast.literal_eval(strips[0].args[0])
        if not isinstance(strip_arg, bytes):
            raise T.TranslateError(f"_parse_string: strip argument {strip_arg!r}")
        parse_strip = sorted(set(strip_arg))
        e = _shape(ps, "_parse_string", [H("striparg"), 0, H("esc"), 1, H("esc"), H("esc"), 1, H("quote"), 1])
    else:
        # argument-less bytes.strip(): CPython's whitespace class
        parse_strip = [c for c in range(256) if bytes([c]).strip() == b""]
        e = _shape(ps, "_parse_string", [0, H("esc"), 1, H("esc"), H("esc"), 1, H("quote"), 1])
    p_esc, p_quote = _one_byte(e["esc"], "_parse_string"), _one_byte(e["quote"], "_parse_string")

    e = _shape(T.find_def(tree, "_unescape_subsection"), "_unescape_subsection", [0, 1, H("esc"), 1, 1, 2, 2, 1])
    un_esc = _one_byte(e["esc"], "_unescape_subsection")
    e = _shape(T.find_def(tree, "_check_variable_name"), "_check_variable_name", [1, H("a")])
    var_extra = [_one_byte(e["a"], "_check_variable_name")]
    e = _shape(T.find_def(tree, "_check_section_name"), "_check_section_name", [1, H("a"), H("b")])
    sec_extra = [_one_byte(e["a"], "_check_section_name"), _one_byte(e["b"], "_check_section_name")]
    e = _shape(T.find_def(tree, "_strip_comments"), "_strip_comments", [H("c1"), H("c2"), H("q"), H("bs")])
    sc_chars = [_one_byte(e["c1"], "_strip_comments"), _one_byte(e["c2"], "_strip_comments")]
    sc_quote = _one_byte(e["q"], "_strip_comments")
    sc_escape = _one_byte(e["bs"], "_strip_comments")
    e = _shape(T.find_def(tree, "_is_line_continuation"), "_is_line_continuation",
               [H("lf"), H("crlf"), H("crlf"), 2, 1, H("bs"), 0, 1, 1, 1, 1, H("bs"), 1, 2, 1])
    cont_lf, cont_crlf, cont_bs = e["lf"], e["crlf"], _one_byte(e["bs"], "_is_line_continuation")
    if not (cont_crlf[:1] == cont_lf[:1] == bytes([cont_bs]) and len(cont_lf) == 2 and len(cont_crlf) == 3):
        raise T.TranslateError(f"_is_line_continuation: suffixes {cont_lf!r} {cont_crlf!r} not of the modelled form")
    e = _shape(T.find_def(tree, "_parse_section_header_line"), "_parse_section_header_line",
               [H("q"), H("esc"), H("close"), 1, H("sp"), 1, 1, 2, 1, 1, H("q"), 1, 1, H("q"), 1, 1, 1, 1, 0, H("incif"),
                1, 1, 1, 1, H("q"), 1, 1, H("q"), 1, 1, 1, 1, 1, 0, 0, 0, 1, 0, 0, 0, H("dot"), 1, 2, 0, 1, 0])
    h_q, h_esc, h_close = (_one_byte(e[k], "_parse_section_header_line") for k in ("q", "esc", "close"))
    h_sp, h_dot, h_incif = _one_byte(e["sp"], "hdr"), _one_byte(e["dot"], "hdr"), e["incif"]
    e = _shape(T.find_def(tree, "ConfigFile.from_file"), "ConfigFile.from_file",
               [0, 0, H("bom"), H("bomlen"), 0, 1, H("open"), b"", H("eq"), 1, H("true"), H("crlf"), H("d3"), H("d2"),
                H("crlf"), H("d3"), H("d2")])
    if e["bomlen"] != len(e["bom"]):
        raise T.TranslateError("from_file: BOM length and slice differ")
    if e["crlf"] != cont_crlf or e["d3"] != len(cont_crlf) or e["d2"] != len(cont_lf):
        raise T.TranslateError("from_file: continuation slices do not match _is_line_continuation suffixes")
    f_bom, f_open, f_eq, f_true = e["bom"], _one_byte(e["open"], "from_file"), _one_byte(e["eq"], "from_file"), e["true"]
    e = _shape(T.find_def(tree, "ConfigFile.write_to_file"), "ConfigFile.write_to_file",
               [H("o"), H("c1"), H("o"), H("so"), H("sc"), H("ind"), H("sep"), H("end")])
    w = e
    e = _shape(T.find_def(tree, "lower_key"), "lower_key", [0, 0, 1])

    # CPython byte classes used by the modelled code (bytes.strip(), bytes.isalnum(), bytes.lower())
    py_ws = [c for c in range(256) if bytes([c]).strip() == b""]
    py_alnum = [c for c in range(256) if bytes([c]).isalnum()]
    py_upper = [c for c in range(256) if bytes([c]).lower() != bytes([c])]
    if any(bytes([c]).lower() != bytes([c + 32]) for c in py_upper):
        raise T.TranslateError("bytes.lower() is not +32 on the bytes it changes")
    for c in range(256):
        b = bytes([c])
        if (b.lstrip() == b"") != (c in py_ws) or (b.rstrip() == b"") != (c in py_ws):
            raise T.TranslateError("lstrip/rstrip/strip whitespace sets differ")

    def pairs(tbl):
        return "[" + ", ".join(f"({a}, {lb(b)})" for a, b in tbl) + "]"
    fps = fingerprints(repo)
    src = T.lean_header("dulwich/config.py: _ESCAPE_TABLE, _COMMENT_CHARS, _WHITESPACE_CHARS, _format_string, "
                        "_escape_value, _escape_subsection, _unescape_subsection, _parse_string, _strip_comments, "
                        "_is_line_continuation, _parse_section_header_line, _check_*_name, ConfigFile.from_file, "
                        "ConfigFile.write_to_file; CPython bytes.strip/isalnum/lower byte classes") + f"""
namespace Dulwich.Gen.Config
/-- `_ESCAPE_TABLE` (escape letter ↦ byte) -/
def escapeTable : List (UInt8 × UInt8) := [{", ".join(f"({k}, {v})" for k, v in esc_table.items())}]
/-- `_COMMENT_CHARS` -/
def commentChars : List UInt8 := {lb(comment)}
/-- `_WHITESPACE_CHARS` -/
def whitespaceChars : List UInt8 := {lb(white)}
/-- `_parse_string`: bytes removed around the value by `value.strip(...)` before the loop -/
def parseStripSet : List UInt8 := {lb(parse_strip)}
/-- `_parse_string`: `c == ord(b"\\\\")` -/
def parseEscapeChar : UInt8 := {p_esc}
/-- `_parse_string`: `c == ord(b'"')` -/
def parseQuoteChar : UInt8 := {p_quote}
/-- `_format_string`: `value != value.strip()` is one of the quoting triggers -/
def quoteIfStripChanges : Bool := {"true" if strip_changes else "false"}
/-- `_format_string`: `value.startswith((...))` -/
def quoteIfStartsWith : List UInt8 := {lb(starts)}
/-- `_format_string`: `value.endswith((...))` -/
def quoteIfEndsWith : List UInt8 := {lb(ends)}
/-- `_format_string`: `b"#" in value` -/
def quoteIfContains : List UInt8 := {lb(contains)}
/-- `_format_string`: opening / closing quote -/
def formatQuoteOpen : List UInt8 := {lb(qo)}
def formatQuoteClose : List UInt8 := {lb(qc)}
/-- `_escape_value`: the `.replace(a, b)` chain, in order -/
def escapeWrites : List (UInt8 × List UInt8) := {pairs(esc_writes)}
/-- `_escape_subsection`: forbidden bytes (ValueError) and the `.replace` chain -/
def subsectionForbidden : List UInt8 := {lb(sub_forbidden)}
def subsectionWrites : List (UInt8 × List UInt8) := {pairs(sub_writes)}
/-- `_unescape_subsection`: escape byte -/
def unescapeChar : UInt8 := {un_esc}
/-- `_check_variable_name` / `_check_section_name`: bytes allowed besides `isalnum()` -/
def varNameExtra : List UInt8 := {lb(var_extra)}
def sectionNameExtra : List UInt8 := {lb(sec_extra)}
/-- `_strip_comments` -/
def stripCommentChars : List UInt8 := {lb(sc_chars)}
def stripCommentQuote : UInt8 := {sc_quote}
def stripCommentEscape : UInt8 := {sc_escape}
/-- `_is_line_continuation` / `from_file` continuation handling -/
def contSuffixLF : List UInt8 := {lb(cont_lf)}
def contSuffixCRLF : List UInt8 := {lb(cont_crlf)}
def contBackslash : UInt8 := {cont_bs}
/-- `_parse_section_header_line` -/
def hdrQuote : UInt8 := {h_q}
def hdrEscape : UInt8 := {h_esc}
def hdrClose : UInt8 := {h_close}
def hdrSplit : UInt8 := {h_sp}
def hdrDot : UInt8 := {h_dot}
def includeIfName : List UInt8 := {lb(h_incif)}
/-- `ConfigFile.from_file` -/
def bom : List UInt8 := {lb(f_bom)}
def lineHeaderStart : UInt8 := {f_open}
def settingSep : UInt8 := {f_eq}
def impliedValue : List UInt8 := {lb(f_true)}
/-- `ConfigFile.write_to_file` -/
def wHdrOpen : List UInt8 := {lb(w["o"])}
def wHdrClose : List UInt8 := {lb(w["c1"])}
def wSubOpen : List UInt8 := {lb(w["so"])}
def wSubClose : List UInt8 := {lb(w["sc"])}
def wIndent : List UInt8 := {lb(w["ind"])}
def wSep : List UInt8 := {lb(w["sep"])}
def wEnd : List UInt8 := {lb(w["end"])}
/-- CPython: bytes stripped by `bytes.strip()`; bytes with `isalnum()`; bytes changed (by +32) by `lower()` -/
def pyStripSet : List UInt8 := {lb(py_ws)}
def pyAlnum : List UInt8 := {lb(py_alnum)}
def pyUpper : List UInt8 := {lb(py_upper)}
end Dulwich.Gen.Config
"""
    return {"Config": src}


# ------------------------------------------------------------------------------------------------
# canonical renderings shared by model and implementation sides

def opt(b) -> str:
    return "~" if b is None else hx(b)


def sec_pair(sec: tuple):
    """dulwich section tuple -> (name, sub|None)"""
    if len(sec) == 1:
        return sec[0], None
    if len(sec) == 2:
        return sec[0], sec[1]
    raise ValueError(f"section tuple of length {len(sec)}")


def render_cfg(struct) -> str:
    """struct: [((name, sub|None), [(k, v), ...]), ...] -> the driver's showCfg format"""
    toks = []
    for (name, sub), ents in struct:
        toks.append(f"{hx(name)}:{opt(sub)}:" + ",".join(f"{hx(k)}={hx(v)}" for k, v in ents))
    return "ok" + ("" if not toks else " " + " ".join(toks))


def cfg_tokens(struct) -> str:
    toks = []
    for (name, sub), ents in struct:
        toks.append(f"S:{hx(name)}:{opt(sub)}")
        toks += [f"E:{hx(k)}:{hx(v)}" for k, v in ents]
    return " ".join(toks)


def real_struct(cf):
    """exact `_values` content of a ConfigFile (the thing the model describes)"""
    return [(sec_pair(sec), [(k, v) for k, v in d._real]) for sec, d in cf._values._real]


def public_struct(cf):
    """what a caller sees through sections()/items()"""
    return [(sec_pair(sec), [(k, v) for k, v in cf.items(sec)]) for sec in cf.sections()]


def listing(struct):
    """git's view (`git config --list`): ordered (section.lower, subsection, key.lower, value)"""
    return [(name.lower(), sub, k.lower(), v) for (name, sub), ents in struct for k, v in ents]


def exc_str(e: Exception) -> str:
    if isinstance(e, ValueError):
        return "err format"
    if isinstance(e, KeyError):
        return "err key"
    return "exc:" + type(e).__name__


def real_write(struct) -> bytes:
    from dulwich.config import ConfigFile
    cf = ConfigFile()
    for (name, sub), ents in struct:
        sec = (name,) if sub is None else (name, sub)
        cf._values.setdefault(sec)
        for k, v in ents:
            cf.add(sec, k, v)
    f = BytesIO()
    cf.write_to_file(f)
    return f.getvalue()


def real_read(data: bytes):
    from dulwich.config import ConfigFile
    return ConfigFile.from_file(BytesIO(data))


# ------------------------------------------------------------------------------------------------
# failing-input classes (plain predicates on the *input*, independent of the model)

def value_class(v: bytes):
    """label of the formerly failing value classes (repaired by 6d569a0).  Used as histogram tag and as the class of an
    oracle failure; no *known* finding matches these any more, so a failure of such a value is a violation."""
    if b"\r" in v:
        return "value:cr"
    if b";" in v and b"#" not in v and v == v.strip(b" \t"):
        return "value:semicolon-unquoted"
    if v[:1] in (b"\x0b", b"\x0c") or v[-1:] in (b"\x0b", b"\x0c"):
        return "value:edge-vt-ff"
    return None


def sub_class(sub):
    if sub is None:
        return None
    odd = False
    for c in sub:
        if c == 0x22:
            odd = not odd
        elif odd and c in (0x23, 0x3B):
            return "subsection:comment-char-after-odd-quotes"
    return None


def struct_class(struct):
    """class of a whole configuration: the first hazardous subsection, else the first bad value"""
    for (name, sub), ents in struct:
        c = sub_class(sub)
        if c:
            return c
    for (name, sub), ents in struct:
        for k, v in ents:
            c = value_class(v)
            if c:
                return c
    return None


# ------------------------------------------------------------------------------------------------
# direct oracle: the property's words on the real code

def oracle_value(ctx, stream, v: bytes) -> bool:
    """write a one-value configuration, read it back: same value?  returns True when it holds"""
    from dulwich.config import ConfigFile
    case = {"kind": "value", "value": hx(v)}
    try:
        cf = ConfigFile()
        cf.set((b"s",), b"k", v)
        f = BytesIO()
        cf.write_to_file(f)
        data = f.getvalue()
        back = ConfigFile.from_file(BytesIO(data))
        got = list(back.get_multivar((b"s",), b"k"))
    except Exception as e:
        ctx.oracle_fail(stream, case, f"write->read of value {v!r} raised {type(e).__name__}: {e}", value_class(v))
        return False
    if got != [v] or public_struct(back) != [((b"s", None), [(b"k", v)])]:
        ctx.oracle_fail(stream, dict(case, file=hx(data)), f"value {v!r} read back as {got!r} from {data!r}", value_class(v))
        return False
    return True


def oracle_subsection(ctx, stream, name: bytes, sub: bytes) -> bool:
    from dulwich.config import ConfigFile
    case = {"kind": "subsection", "name": hx(name), "sub": hx(sub)}
    try:
        cf = ConfigFile()
        cf.set((name, sub), b"k", b"v")
        f = BytesIO()
        cf.write_to_file(f)
        data = f.getvalue()
        back = ConfigFile.from_file(BytesIO(data))
        got = public_struct(back)
    except Exception as e:
        ctx.oracle_fail(stream, case, f"write->read of subsection {sub!r} raised {type(e).__name__}: {e}", sub_class(sub))
        return False
    if listing(got) != [(name.lower(), sub, b"k", b"v")]:
        ctx.oracle_fail(stream, dict(case, file=hx(data)), f"subsection {sub!r} read back as {got!r}", sub_class(sub))
        return False
    return True


def oracle_struct(ctx, stream, struct, data: bytes | None = None) -> bool:
    """whole configuration: written by the real writer, read by the real reader, compared under git's
    case rules (section and key case-insensitive, subsection and value exact, order kept)."""
    case = {"kind": "cfg", "cfg": cfg_tokens(struct)}
    try:
        if data is None:
            data = real_write(struct)
        back = public_struct(real_read(data))
    except Exception as e:
        # the only known way to an unreadable file is a hazardous subsection
        ctx.oracle_fail(stream, case, f"write->read raised {type(e).__name__}: {e}", sub_class_any(struct))
        return False
    want = listing(struct)
    got = listing(back)
    if want == got:
        return True
    case = dict(case, file=hx(data))
    if len(want) == len(got) and all(w[:3] == g[:3] for w, g in zip(want, got)):
        # same keys in the same order, some values differ: one report per differing entry, each with the
        # class of *its* value (None = not a known class = violation)
        for w, g in zip(want, got):
            if w != g:
                ctx.oracle_fail(stream, dict(case, value=hx(w[3])),
                                f"value {w[3]!r} of {w[:3]!r} read back as {g[3]!r}", value_class(w[3]))
    else:
        ctx.oracle_fail(stream, case, f"read back {got!r}, wanted {want!r}"[:600], None)
    return False


def sub_class_any(struct):
    for (name, sub), ents in struct:
        c = sub_class(sub)
        if c:
            return c
    return None


# ------------------------------------------------------------------------------------------------
# C git as a third party

class Git:
    def __init__(self, ctx):
        self.dir = ctx.scratch / "git"
        self.dir.mkdir(parents=True, exist_ok=True)
        self.env = core.clean_env({"GIT_CONFIG_GLOBAL": "/dev/null"})
        self.calls = 0
        self.n = 0

    def path(self) -> Path:
        self.n += 1
        return self.dir / f"f{self.n}"

    def list(self, path: Path):
        """-> list of (key, value) or ('error', message)"""
        self.calls += 1
        p = subprocess.run(["git", "config", "--file", str(path), "--list", "-z"], capture_output=True, env=self.env)
        if p.returncode != 0:
            return ("error", p.stderr.decode(errors="replace").strip()[:200])
        out = []
        for rec in p.stdout.split(b"\0"):
            if rec == b"":
                continue
            k, sep, v = rec.partition(b"\n")
            out.append((k, v if sep else None))
        return out

    def add(self, path: Path, key: bytes, value: bytes):
        self.calls += 1
        p = subprocess.run([b"git", b"config", b"--file", os.fsencode(str(path)), b"--add", key, value],
                           capture_output=True, env=self.env)
        return p.returncode, p.stderr.decode(errors="replace").strip()[:200]


def git_key(name: bytes, sub, k: bytes) -> bytes:
    return name.lower() + (b"" if sub is None else b"." + sub) + b"." + k.lower()


# ------------------------------------------------------------------------------------------------
# generators

SP, TAB, DQ, BS, HASH, SEMI, LF, CR = 0x20, 0x09, 0x22, 0x5C, 0x23, 0x3B, 0x0A, 0x0D
#: the 11-symbol alphabet named in the property's quantifier
ALPHA11 = [SP, TAB, DQ, BS, HASH, SEMI, LF, CR, ord("n"), ord("t"), ord("b")]
#: plus the other bytes the code treats specially (VT, FF stripped by bytes.strip(); backspace is an escape target)
ALPHA15 = ALPHA11 + [0x0B, 0x0C, ord("a"), 0x08]
PARSE_ALPHA = [SP, TAB, DQ, BS, HASH, SEMI, ord("n"), ord("a"), LF, 0x0B, CR]
SUB_ALPHA = [DQ, BS, ord("."), SP, HASH, SEMI, ord("]"), ord("a"), ord("A")]
CONT_ALPHA = [BS, CR, LF, ord("a"), DQ]


def exhaustive(alpha, maxlen):
    for ln in range(maxlen + 1):
        for tup in itertools.product(alpha, repeat=ln):
            yield bytes(tup)


def gen_value(rng) -> bytes:
    """random longer value over the full byte alphabet minus NUL, dense in special characters"""
    n = rng.choice([5, 6, 7, 8, 10, 12, 16, 24, 40, 80])
    kind = rng.random()
    out = bytearray()
    for _ in range(n):
        r = rng.random()
        if r < 0.45:
            out.append(rng.choice(ALPHA15))
        elif r < 0.8:
            out.append(rng.choice(b"abcxyzABC019 =[]-./:@"))
        else:
            out.append(rng.randrange(1, 256))
    return bytes(out)


SEC_NAMES = [b"core", b"Core", b"CORE", b"remote", b"Remote", b"branch", b"a-b", b"x1", b"user", b"s"]
KEY_NAMES = [b"k", b"K", b"url", b"URL", b"Url", b"fetch", b"a-b", b"x1", b"name", b"Name", b"pushurl"]


def gen_sub(rng):
    r = rng.random()
    if r < 0.25:
        return None
    if r < 0.5:
        return rng.choice([b"origin", b"Origin", b"main", b"a.b", b"a b", b"", b"x/y", b"UP"])
    n = rng.randint(1, 8)
    s = bytes(rng.choice(SUB_ALPHA + [ord("x"), ord("Z"), TAB, 0x80, 0xFF, ord("=")]) for _ in range(n))
    return s


NAME_CHARS = b"abcxyzABCXYZ0189-"


def gen_name(rng, allow_empty=False) -> bytes:
    n = rng.choice([0] if allow_empty and rng.random() < 0.3 else [1, 1, 2, 3, 6])
    return bytes(rng.choice(NAME_CHARS) for _ in range(n))


def gen_struct(rng, odd_names=0.15):
    """a configuration as ConfigDict.add/set would build it: sections distinct under lower_key.
    odd_names: share of names outside git's grammar but inside dulwich's (leading digit/hyphen, empty key or
    section name, '.' in a section that has a subsection) -- exercised against the model only, git skips them."""
    struct, seen = [], set()
    for _ in range(rng.randint(0, 5)):
        name, sub = rng.choice(SEC_NAMES), gen_sub(rng)
        if rng.random() < odd_names:
            name = gen_name(rng, allow_empty=True)
            if sub is not None and rng.random() < 0.3:
                name += b"." + gen_name(rng)
        if (name.lower(), sub) in seen:
            continue
        seen.add((name.lower(), sub))
        ents = []
        for _ in range(rng.choice([0, 1, 2, 3, 3, 5])):
            k = rng.choice(KEY_NAMES) if rng.random() > odd_names else gen_name(rng, allow_empty=True)
            r = rng.random()
            if r < 0.3:
                v = bytes(rng.choice(ALPHA15) for _ in range(rng.randint(0, 4)))
            elif r < 0.6:
                v = rng.choice([b"true", b"", b"https://example.com/x.git", b"+refs/heads/*:refs/remotes/origin/*",
                                b" lead", b"trail ", b"\ttab", b"a\\b", b'say "hi"', b"x # y", b"multi\nline", b"0",
                                b"a;b", b"cr\rlf\n", b"\x0bvt", b"ff\x0c", b"\r", b";"])
            else:
                v = gen_value(rng)
            ents.append((k, v))
        struct.append(((name, sub), ents))
    return struct


# ------------------------------------------------------------------------------------------------
# streams

def _real_fmt_parse(v: bytes):
    import dulwich.config as C
    try:
        fmt = C._format_string(v)
    except Exception as e:
        return None, exc_str(e)
    try:
        return fmt, "ok " + hx(C._parse_string(fmt))
    except Exception as e:
        return fmt, exc_str(e)


def _stream_values(ctx, stream, values):
    """model vs real: formatted bytes, parse of the formatted bytes; oracle: real write->read of the value.
    (The model side is a theorem: parseString (formatString v) = v for every v; the driver output is still compared
    so that a model that no longer describes the code is seen.)"""
    values = list(values)
    outs = ctx.driver.batch([f"c20.rt {hx(v)}" for v in values])
    for v, o in zip(values, outs):
        mfmt, mparse = o.split(" ", 1)
        fmt, rparse = _real_fmt_parse(v)
        quoted = fmt is not None and fmt[:1] == b'"'
        ctx.count(stream, v, True, ("quoted" if quoted else "plain") + ":" + str(value_class(v) or "other"))
        if fmt is None or hx(fmt) != mfmt:
            ctx.disagree(stream + ".format", {"kind": "value", "value": hx(v)}, mfmt, rparse if fmt is None else hx(fmt))
        elif rparse != mparse:
            ctx.disagree(stream + ".parse", {"kind": "value", "value": hx(v), "formatted": hx(fmt)}, mparse, rparse)
        oracle_value(ctx, stream, v)
    if values:
        v = values[len(values) // 2]
        ctx.sample({"stream": stream, "value": hx(v), "model": outs[len(values) // 2]})


def _stream_parse(ctx, stream, strings):
    """reader on arbitrary strings (not only writer output): model parseString vs real _parse_string"""
    import dulwich.config as C
    strings = list(strings)
    outs = ctx.driver.batch([f"c20.parse {hx(s)}" for s in strings])
    for s, o in zip(strings, outs):
        try:
            r = "ok " + hx(C._parse_string(s))
        except Exception as e:
            r = exc_str(e)
        ctx.count(stream, s, True, r[:3])
        if r != o:
            ctx.disagree(stream, {"kind": "parse", "string": hx(s)}, o, r)


def _stream_subsections(ctx, stream, subs):
    import dulwich.config as C
    subs = list(subs)
    lines = []
    for s in subs:
        lines += [f"c20.escsub {hx(s)}", f"c20.wfsub {hx(s)}", f"c20.unescsub {hx(s)}"]
    outs = ctx.driver.batch(lines)
    hdr_lines, hdr_meta = [], []
    for i, s in enumerate(subs):
        mesc, mwf, munesc = outs[3 * i: 3 * i + 3]
        try:
            resc = "ok " + hx(C._escape_subsection(s))
        except Exception as e:
            resc = exc_str(e)
        if resc != mesc:
            ctx.disagree(stream + ".escape", {"kind": "subsection", "sub": hx(s)}, mesc, resc)
        r = hx(C._unescape_subsection(s))
        if r != munesc:
            ctx.disagree(stream + ".unescape", {"kind": "subsection", "sub": hx(s)}, munesc, r)
        if not resc.startswith("ok"):
            ctx.count(stream, s, True, "refused")
            continue
        ok = oracle_subsection(ctx, stream, b"Sec", s)
        ctx.count(stream, s, True, "accepted:" + str(sub_class(s) or "other"))
        if ok != (mwf == "1"):
            ctx.disagree(stream + ".wf-exact", {"kind": "subsection", "sub": hx(s)}, f"wfSubsection={mwf}",
                         f"real round trip {'holds' if ok else 'fails'}")
        line = b'[Sec "' + unhx(resc[3:]) + b'"]\n'
        hdr_lines.append(f"c20.header {hx(line)}")
        hdr_meta.append(line)
    _compare_headers(ctx, stream + ".header", hdr_meta, ctx.driver.batch(hdr_lines))


def _compare_headers(ctx, stream, lines, outs):
    import dulwich.config as C
    for line, o in zip(lines, outs):
        try:
            sec, rest = C._parse_section_header_line(line)
            name, sub = sec_pair(sec)
            r = f"ok {hx(name)} {opt(sub)} {hx(rest)}"
        except Exception as e:
            r = exc_str(e)
        ctx.count(stream, line, True, r[:3])
        if r != o:
            ctx.disagree(stream, {"kind": "header", "line": hx(line)}, o, r)


def gen_header_line(rng) -> bytes:
    name = rng.choice([b"core", b"a.b", b"a.b.c", b"includeIf", b"includeif", b"x-1", b"", b"bad name", b"b@d", b"A"])
    r = rng.random()
    if r < 0.2:
        mid = b""
    elif r < 0.6:
        body = bytes(rng.choice(SUB_ALPHA + [TAB]) for _ in range(rng.randint(0, 6)))
        mid = b' "' + body + b'"'
    elif r < 0.8:
        mid = b" " + bytes(rng.choice(SUB_ALPHA) for _ in range(rng.randint(0, 5)))
    else:
        mid = b'  "gitdir:' + bytes(rng.choice(b'a/~*\\" ') for _ in range(rng.randint(0, 5))) + b'" '
    tail = rng.choice([b"", b"", b"\n", b"\r\n", b" \n", b" # c\n", b" ; c\n", b" k = v\n", b"]\n", b' "\n'])
    close = b"]" if rng.random() < 0.9 else b""
    return b"[" + name + mid + close + tail


def _stream_headers(ctx, n):
    lines = [gen_header_line(ctx.rng) for _ in range(n)]
    _compare_headers(ctx, "header.random", lines, ctx.driver.batch([f"c20.header {hx(l)}" for l in lines]))


def _stream_cont(ctx, maxlen):
    import dulwich.config as C
    ss = list(exhaustive(CONT_ALPHA, maxlen))
    outs = ctx.driver.batch([f"c20.cont {hx(s)}" for s in ss])
    for s, o in zip(ss, outs):
        r = "1" if C._is_line_continuation(s) else "0"
        ctx.count("continuation", s, True, r)
        if r != o:
            ctx.disagree("continuation", {"kind": "cont", "line": hx(s)}, o, r)


def _compare_read(ctx, stream, datas, tags=None):
    """model readFile vs real ConfigFile.from_file on arbitrary bytes"""
    outs = ctx.driver.batch([f"c20.read {hx(d)}" for d in datas])
    for i, (d, o) in enumerate(zip(datas, outs)):
        try:
            r = render_cfg(real_struct(real_read(d)))
        except Exception as e:
            r = exc_str(e)
        ctx.count(stream, d, True, (tags[i] + ":" if tags else "") + r[:3])
        if r != o:
            ctx.disagree(stream, {"kind": "read", "data": hx(d)}, o[:400], r[:400])


def _stream_files(ctx, n):
    """random configurations: model bytes vs real bytes, model read vs real read, oracle on the real code"""
    rng = ctx.rng
    structs = [gen_struct(rng) for _ in range(n)]
    structs += [[], [((b"s", None), [])], [((b"S", b"Sub"), [(b"Key", b"v1"), (b"key", b"v2"), (b"KEY", b"v3")])],
                [((b"a", None), [(b"k", b"1")]), ((b"a", b"x"), [(b"k", b"2")]), ((b"a", b"X"), [(b"k", b"3")])]]
    outs = ctx.driver.batch([f"c20.write {cfg_tokens(s)}" for s in structs])
    datas = []
    for s, o in zip(structs, outs):
        wf, mbytes = o.split(" ", 1)
        try:
            data = real_write(s)
            r = "ok " + hx(data)
        except Exception as e:
            data, r = None, exc_str(e)
        nvals = sum(len(e) for _, e in s)
        ctx.count("file.write", cfg_tokens(s), True, f"{len(s)}sec:{'wf' if wf == '1' else str(struct_class(s))}")
        if r != mbytes:
            ctx.disagree("file.write", {"kind": "cfg", "cfg": cfg_tokens(s)}, mbytes[:400], r[:400])
        if data is None:
            continue
        datas.append(data)
        ok = oracle_struct(ctx, "file.roundtrip", s, data)
        ctx.count("file.roundtrip", cfg_tokens(s), True, f"{min(nvals, 9)}vals")
        if wf == "1" and not ok:
            ctx.disagree("file.wf", {"kind": "cfg", "cfg": cfg_tokens(s)}, "wfCfg=1", "real round trip fails")
    _compare_read(ctx, "file.read", datas)
    if structs:
        ctx.sample({"stream": "file", "cfg": cfg_tokens(structs[0])[:300], "bytes": hx(datas[0])[:300] if datas else None})
    return structs, datas


def mutate_file(rng, data: bytes) -> tuple[str, bytes]:
    """hand-written-file features the writer never produces"""
    lines = data.split(b"\n")
    kind = rng.choice(["comment", "blank", "crlf", "bom", "cont", "noeq", "dupsec", "indent", "inline-comment", "junk",
                       "nosection", "cont-eof", "legacy-dot", "trunc"])
    pos = rng.randrange(len(lines)) if lines else 0
    if kind == "comment":
        lines.insert(pos, rng.choice([b"# c", b"; c", b"  # [x]", b'# "']))
    elif kind == "blank":
        lines.insert(pos, rng.choice([b"", b"  ", b"\t", b"\x0c"]))
    elif kind == "crlf":
        return kind, data.replace(b"\n", b"\r\n")
    elif kind == "bom":
        return kind, b"\xef\xbb\xbf" + data
    elif kind == "cont":
        out = []
        for l in lines:
            if b" = " in l and rng.random() < 0.5 and len(l) > 6:
                p = rng.randrange(l.index(b" = ") + 3, len(l) + 1)
                out += [l[:p] + rng.choice([b"\\", b"\\\r", b"\\\\"]), rng.choice([b"", b"  "]) + l[p:]]
            else:
                out.append(l)
        lines = out
    elif kind == "noeq":
        lines.insert(max(pos, 1), rng.choice([b"\tflag", b"flag  ", b"flag ; c", b"fl ag"]))
    elif kind == "dupsec":
        hdrs = [l for l in lines if l.startswith(b"[")]
        if hdrs:
            h = rng.choice(hdrs)
            lines.append(rng.choice([h, h.upper(), h.lower()]))
            lines.append(b"\textra = 1")
    elif kind == "indent":
        lines = [rng.choice([b"", b" ", b"\t\t", b"\x0b"]) + l for l in lines]
    elif kind == "inline-comment":
        lines = [l + rng.choice([b"", b" # c", b" ; c", b'# "', b" "]) for l in lines]
    elif kind == "junk":
        lines.insert(pos, rng.choice([b"= v", b"k = \"open", b"[bad", b"[a b]", b"k==v", b"k = a\\qb", b"k = \\", b'[x "y"] k = v',
                                      b"[x] k", b"k.k = v", b"k_k = v"]))
    elif kind == "nosection":
        lines.insert(0, rng.choice([b"k = v", b"# c", b"", b"[", b"]"]))
    elif kind == "cont-eof":
        return kind, data.rstrip(b"\n") + b"\\\n"
    elif kind == "legacy-dot":
        lines.insert(pos, rng.choice([b"[a.b]", b"[A.B.c]", b"[a.]", b"[.b]"]))
    elif kind == "trunc":
        return kind, data[: rng.randrange(len(data) + 1)]
    return kind, b"\n".join(lines)


def _stream_mutated(ctx, datas, n):
    rng = ctx.rng
    if not datas:
        return
    out, tags = [], []
    for _ in range(n):
        d = rng.choice(datas)
        k, m = mutate_file(rng, d)
        if rng.random() < 0.3:
            k2, m = mutate_file(rng, m)
            k = k + "+" + k2
        out.append(m)
        tags.append(k.split("+")[0])
    _compare_read(ctx, "file.read.mutated", out, tags)


# -- set/unset/rewrite sequences ------------------------------------------------------------------

def gen_ops(rng):
    secs = [(rng.choice([b"core", b"Core", b"remote", b"REMOTE"]), rng.choice([None, None, b"o", b"O", b"a b"])) for _ in range(3)]
    keys = [b"k", b"K", b"url", b"Url", b"x-y"]
    ops = []
    for _ in range(rng.randint(1, 14)):
        name, sub = rng.choice(secs)
        k = rng.choice(keys)
        r = rng.random()
        if r < 0.3:
            ops.append(("set", name, sub, k, gen_small_value(rng)))
        elif r < 0.6:
            ops.append(("add", name, sub, k, gen_small_value(rng)))
        elif r < 0.75:
            ops.append(("rm", name, sub, k))
        elif r < 0.9:
            ops.append(("get", name, sub, k))
        else:
            ops.append(("all", name, sub, k))
    return ops


def gen_small_value(rng):
    v = bytes(rng.choice(ALPHA15 + [ord("z")]) for _ in range(rng.randint(0, 4)))
    return v


def ops_tokens(ops) -> str:
    toks = []
    for op in ops:
        toks.append(":".join([op[0], hx(op[1]), opt(op[2])] + [hx(x) for x in op[3:]]))
    return " ".join(toks)


def run_ops_real(ops):
    """-> (per-op results, ConfigFile)"""
    from dulwich.config import ConfigFile
    cf = ConfigFile()
    res = []
    for op in ops:
        sec = (op[1],) if op[2] is None else (op[1], op[2])
        try:
            if op[0] == "set":
                cf.set(sec, op[3], op[4])
                res.append(".")
            elif op[0] == "add":
                cf.add(sec, op[3], op[4])
                res.append(".")
            elif op[0] == "rm":
                cf.remove(sec, op[3])
                res.append(".")
            elif op[0] == "get":
                res.append(hx(cf.get(sec, op[3])))
            else:
                res.append("[" + ",".join(hx(v) for v in cf.get_multivar(sec, op[3])) + "]")
        except KeyError:
            res.append("KeyError")
    return res, cf


def spec_ops(ops):
    """the two-line abstract spec of git's multi-valued configuration (independent of model and code):
    (section.lower, subsection, key.lower) -> ordered list of values; set replaces, add appends, rm deletes."""
    d: dict = {}
    for op in ops:
        key = (op[1].lower(), op[2], op[3].lower())
        if op[0] == "set":
            d[key] = [op[4]]
        elif op[0] == "add":
            d.setdefault(key, []).append(op[4])
        elif op[0] == "rm":
            d.pop(key, None)
    return {k: v for k, v in d.items() if v}


def _stream_ops(ctx, n):
    rng = ctx.rng
    seqs = [gen_ops(rng) for _ in range(n)]
    outs = ctx.driver.batch([f"c20.ops {ops_tokens(o)}" for o in seqs])
    for ops, o in zip(seqs, outs):
        case = {"kind": "ops", "ops": ops_tokens(ops)}
        try:
            res, cf = run_ops_real(ops)
            r = "|".join(res) + " ; " + render_cfg(real_struct(cf))
        except Exception as e:
            r = exc_str(e)
            cf = None
        ctx.count("ops", ops_tokens(ops), True, f"{min(len(ops), 15)}ops")
        if r != o:
            ctx.disagree("ops", case, o[:400], r[:400])
        if cf is None:
            continue
        # oracle: after the sequence, write -> read, and every key answers as the abstract spec says
        spec = spec_ops(ops)
        try:
            f = BytesIO()
            cf.write_to_file(f)
            back = real_read(f.getvalue())
            got: dict = {}
            for (name, sub), ents in public_struct(back):
                for k, v in ents:
                    got.setdefault((name.lower(), sub, k.lower()), []).append(v)
        except Exception as e:
            ctx.oracle_fail("ops", case, f"write->read after op sequence raised {type(e).__name__}: {e}", None)
            continue
        if got != spec:
            _report_spec_diff(ctx, "ops", dict(case, file=hx(f.getvalue())), got, spec)


def _report_spec_diff(ctx, stream, case, got: dict, spec: dict):
    """one report per differing value, each classified by *its own* stored value; a structural difference
    (missing/extra key, different number of values) is never a known class"""
    for k in sorted(set(got) | set(spec), key=repr):
        g, s = got.get(k), spec.get(k)
        if g == s:
            continue
        if g is None or s is None or len(g) != len(s):
            ctx.oracle_fail(stream, case, f"after the op sequence and a rewrite, key {k!r} reads {g!r}, spec says {s!r}"[:600], None)
        else:
            for gv, sv in zip(g, s):
                if gv != sv:
                    ctx.oracle_fail(stream, dict(case, value=hx(sv)),
                                    f"after the op sequence and a rewrite, value {sv!r} of {k!r} reads {gv!r}", value_class(sv))


# -- C git ----------------------------------------------------------------------------------------

GIT_KEYS = [b"k", b"Key", b"url", b"a-b", b"x1"]


def _git_reads_dulwich_values(ctx, git, values):
    """dulwich writes each value under its own key in one file; `git config --list -z` must give the same
    values.  git rejects a whole file on one bad line, so on error fall back to one file per value."""
    def check_one(v, got, err=None):
        case = {"kind": "git-reads", "value": hx(v)}
        if err is not None:
            ctx.oracle_fail("git.reads-dulwich", case, f"git cannot read the file dulwich wrote for value {v!r}: {err}", value_class(v))
        elif got != v:
            ctx.oracle_fail("git.reads-dulwich", case, f"git reads {got!r} where dulwich wrote {v!r}", value_class(v))

    CH = 40
    for s in range(0, len(values), CH):
        chunk = values[s:s + CH]
        struct = [((b"s", None), [(b"k%d" % i, v) for i, v in enumerate(chunk)])]
        p = git.path()
        p.write_bytes(real_write(struct))
        got = git.list(p)
        if isinstance(got, tuple):
            for v in chunk:
                p = git.path()
                p.write_bytes(real_write([((b"s", None), [(b"k", v)])]))
                g = git.list(p)
                ctx.count("git.reads-dulwich", v, True, "single")
                if isinstance(g, tuple):
                    check_one(v, None, g[1])
                elif len(g) != 1 or g[0][0] != b"s.k":
                    check_one(v, g, None)
                else:
                    check_one(v, g[0][1])
            continue
        if [k for k, _ in got] != [b"s.k%d" % i for i in range(len(chunk))]:
            ctx.oracle_fail("git.reads-dulwich", {"kind": "git-reads-chunk", "values": [hx(v) for v in chunk]},
                            f"git lists keys {[k for k, _ in got]!r}", None)
            continue
        for v, (_, g) in zip(chunk, got):
            ctx.count("git.reads-dulwich", v, True, "chunk")
            check_one(v, g)


def git_grammar(struct) -> bool:
    """names git accepts: section alnum/-, non-empty; key starts with a letter; no NUL/LF in subsection"""
    for (name, sub), ents in struct:
        if not name or not all(bytes([c]).isalnum() or c == 0x2D for c in name):
            return False
        if sub is not None and (b"\n" in sub or b"\0" in sub):
            return False
        for k, v in ents:
            if not k or not k[:1].isalpha() or b"\0" in v:
                return False
    return True


def _git_reads_dulwich_files(ctx, git, structs, n):
    cnt = 0
    for s in structs:
        if cnt >= n:
            break
        if not git_grammar(s) or not any(e for _, e in s):
            continue
        try:
            data = real_write(s)
        except Exception:
            continue
        cnt += 1
        p = git.path()
        p.write_bytes(data)
        got = git.list(p)
        want = [(git_key(name, sub, k), v) for (name, sub), ents in s for k, v in ents]
        case = {"kind": "git-reads-cfg", "cfg": cfg_tokens(s), "file": hx(data)}
        ctx.count("git.reads-dulwich.files", data, True, "err" if isinstance(got, tuple) else "ok")
        if isinstance(got, tuple):
            ctx.oracle_fail("git.reads-dulwich.files", case, f"git cannot read the file dulwich wrote: {got[1]}", None)
        elif got != want:
            if len(got) == len(want) and all(g[0] == w[0] for g, w in zip(got, want)):
                # one report per differing entry, classified by its own value
                for g, w in zip(got, want):
                    if g != w:
                        ctx.oracle_fail("git.reads-dulwich.files", dict(case, value=hx(w[1])),
                                        f"git reads {g[1]!r} for {w[0]!r} where dulwich wrote {w[1]!r}", value_class(w[1]))
            else:
                ctx.oracle_fail("git.reads-dulwich.files", case, f"git lists {got!r}, dulwich wrote {want!r}"[:600], None)


def _dulwich_reads_git(ctx, git, items):
    """items: [(name, sub, key, value)] written one by one with `git config --file F --add`; dulwich must read
    what git itself reads back from that file.  Also model read vs real read on git-written bytes."""
    CH = 12
    datas = []
    for s in range(0, len(items), CH):
        chunk = items[s:s + CH]
        p = git.path()
        written = []
        for name, sub, k, v in chunk:
            rc, err = git.add(p, name + (b"" if sub is None else b"." + sub) + b"." + k, v)
            if rc == 0:
                written.append((name, sub, k, v))
        if not written:
            continue
        data = p.read_bytes()
        datas.append(data)
        gl = git.list(p)
        case = {"kind": "dulwich-reads", "file": hx(data), "items": [[hx(a), opt(b), hx(c), hx(d)] for a, b, c, d in written]}
        if isinstance(gl, tuple):
            ctx.notes.append(f"git could not list its own file: {gl[1]}")
            continue
        for it in written:
            ctx.count("dulwich.reads-git", it, True, "sub" if it[1] is not None else "plain")
        try:
            back = public_struct(real_read(data))
        except Exception as e:
            cls = None
            for name, sub, k, v in written:
                cls = cls or sub_class(sub)
            ctx.oracle_fail("dulwich.reads-git", case, f"dulwich cannot read the file git wrote: {type(e).__name__}: {e}", cls)
            continue
        got = [(git_key(name, sub, k), v) for (name, sub), ents in back for k, v in ents]
        if got != gl:
            if len(got) == len(gl) and all(g[0] == w[0] for g, w in zip(got, gl)):
                for g, w in zip(got, gl):
                    if g != w:
                        wv = w[1] or b""
                        ctx.oracle_fail("dulwich.reads-git", dict(case, value=hx(wv)),
                                        f"dulwich reads {g[1]!r} for {g[0]!r} where git reads {w[1]!r} from the file git wrote",
                                        git_written_class(wv, g[1]))
            else:
                ctx.oracle_fail("dulwich.reads-git", case, f"dulwich reads {got!r}, git reads {gl!r}"[:600], None)
    _compare_read(ctx, "file.read.git-written", datas)


WF_VALUES = [b"v1", b"v2", b" lead", b"trail ", b"a#b", b'q"q', b"back\\slash", b"tab\there", b"multi\nline", b"",
             b"x y", b"\\", b"#", b" ; ", b"a;b#", b"\\n", b"caf\xc3\xa9", b"\x08", b"a\x0bb",
             b"a;b", b";", b"a\rb", b"\rlead", b"trail\r", b"\r", b"x;y\rz", b"\x0bvt", b"ff\x0c", b"\x0c", b"\x0b a"]


def gen_interleaved(rng):
    """[actor, op, name, sub, key, value] steps; an unset is only generated for a key that is set at that point"""
    secs = [(rng.choice([b"core", b"Core", b"Remote", b"remote"]), rng.choice([None, b"o", b"O", b"a b", b'x"y', b"a.b", b"#1"]))
            for _ in range(2)]
    live: set = set()
    steps = []
    for _ in range(rng.randint(2, 9)):
        actor = rng.choice(["git", "dulwich"])
        op = rng.choice(["set", "set", "add", "add", "unset"])
        name, sub = rng.choice(secs)
        k = rng.choice([b"k", b"K", b"url", b"Url"])
        key = (name.lower(), sub, k.lower())
        if op == "unset":
            if key not in live:
                continue
            live.discard(key)
        else:
            live.add(key)
        steps.append((actor, op, name, sub, k, rng.choice(WF_VALUES)))
    return steps


def run_interleaved(ctx, git, steps, stream="interleaved") -> bool:
    """every step is done either by C git or by dulwich on the same file; after every step both readers must agree
    with the abstract multi-valued-dictionary spec.  Returns True when everything held."""
    from dulwich.config import ConfigFile
    path = git.path()
    path.write_bytes(b"")
    spec: dict = {}
    log = []
    for actor, op, name, sub, k, v in steps:
        key = (name.lower(), sub, k.lower())
        gkey = name + (b"" if sub is None else b"." + sub) + b"." + k
        log.append([actor, op, hx(name), opt(sub), hx(k), hx(v)])
        case = {"kind": "interleaved", "log": list(log)}
        try:
            if actor == "git":
                flag = {"set": b"--replace-all", "add": b"--add", "unset": b"--unset-all"}[op]
                args = [b"git", b"config", b"--file", os.fsencode(str(path)), flag, gkey] + ([] if op == "unset" else [v])
                git.calls += 1
                p = subprocess.run(args, capture_output=True, env=git.env)
                if p.returncode != 0:
                    # git refusing the file dulwich wrote is an interop failure of the property
                    ctx.oracle_fail(stream, dict(case, file=hx(path.read_bytes())),
                                    f"git config {flag.decode()} failed on the shared file: "
                                    f"{p.stderr.decode(errors='replace').strip()[:200]}", None)
                    return False
            else:
                cf = ConfigFile.from_path(str(path))
                sec = (name,) if sub is None else (name, sub)
                if op == "set":
                    cf.set(sec, k, v)
                elif op == "add":
                    cf.add(sec, k, v)
                else:
                    cf.remove(sec, k)
                cf.write_to_path(str(path))
        except Exception as e:
            ctx.oracle_fail(stream, case, f"dulwich {op} on the shared file raised {type(e).__name__}: {e}", None)
            return False
        if op == "set":
            spec[key] = [v]
        elif op == "add":
            spec.setdefault(key, []).append(v)
        else:
            spec.pop(key, None)
        case = dict(case, file=hx(path.read_bytes()))
        try:
            got_d: dict = {}
            for (nm, sb), ents in public_struct(ConfigFile.from_path(str(path))):
                for kk, vv in ents:
                    got_d.setdefault((nm.lower(), sb, kk.lower()), []).append(vv)
        except Exception as e:
            ctx.oracle_fail(stream, case, f"dulwich cannot read the shared file after step {len(log)}: {type(e).__name__}: {e}", None)
            return False
        gl = git.list(path)
        if isinstance(gl, tuple):
            ctx.oracle_fail(stream, case, f"git cannot read the shared file after step {len(log)}: {gl[1]}", None)
            return False
        got_g: dict = {}
        for kk, vv in gl:
            got_g.setdefault(kk, []).append(vv)
        want_g = {git_key(nm, sb, kk): vs for (nm, sb, kk), vs in spec.items()}
        ctx.count(stream, tuple(map(tuple, log)), True, f"{actor}:{op}")
        if got_d != spec:
            ctx.oracle_fail(stream, case, f"after step {len(log)} dulwich reads {got_d!r}, spec says {spec!r}"[:700], None)
            return False
        if got_g != want_g:
            ctx.oracle_fail(stream, case, f"after step {len(log)} git reads {got_g!r}, spec says {want_g!r}"[:700], None)
            return False
    return True


def _stream_interleaved(ctx, git, n):
    """set / add / unset / rewrite sequences shared between C git and dulwich ; any failure here is unclassified."""
    for _ in range(n):
        run_interleaved(ctx, git, gen_interleaved(ctx.rng))


def git_written_class(git_value: bytes, dulwich_value: bytes):
    """label of the reader-side class repaired by 21a48ab (no known finding matches it any more, so a recurrence is a
    violation): git writes a value whose first/last byte is VT or FF *unquoted* (git's
    isspace() does not include them) and preserves it; dulwich's bytes.strip() removes that edge run.  Narrow: the value
    must have such an edge and dulwich's reading must be exactly the value minus its edge runs of VT/FF/space bytes (git
    writes TAB as the escape \\t, LF as \\n and quotes values with CR, so only these three can be lost)."""
    edge = git_value[:1] in (b"\x0b", b"\x0c") or git_value[-1:] in (b"\x0b", b"\x0c")
    if edge and dulwich_value == git_value.strip(b"\x0b\x0c ") and dulwich_value != git_value:
        return "git-written:edge-vt-ff"
    return None


def gen_git_item(rng, values):
    name = rng.choice([b"core", b"Remote", b"x-1"])
    sub = gen_sub(rng)
    if sub is not None and (b"\n" in sub or b"\0" in sub):
        sub = b"o"
    k = rng.choice(GIT_KEYS)
    v = rng.choice(values) if rng.random() < 0.6 else gen_value(rng).replace(b"\0", b"0")
    return name, sub, k, v


# ------------------------------------------------------------------------------------------------
# corpus

def _run_corpus(ctx, git):
    """past witnesses: the repaired ones must now hold (regression), the remaining known one is re-run"""
    d = core.VERIF / "corpus" / PROP
    if not d.exists():
        return
    for f in sorted(d.glob("*.json")):
        c = json.loads(f.read_text())
        ctx.count("corpus", f.stem, True, c.get("kind"))
        _oracle_case(ctx, "corpus", c, git)


def _oracle_case(ctx, stream, c, git=None) -> None:
    kind = c.get("kind")
    if kind == "dulwich-reads" and git is not None:
        items = [(unhx(a), None if b == "~" else unhx(b), unhx(cc), unhx(d)) for a, b, cc, d in c["items"]]
        _dulwich_reads_git(ctx, git, items)
        return
    if kind == "value" and git is not None:
        _git_reads_dulwich_values(ctx, git, [unhx(c["value"])])
    if kind in ("value", "git-reads", "parse") and "value" in c:
        oracle_value(ctx, stream, unhx(c["value"]))
    elif kind == "subsection":
        oracle_subsection(ctx, stream, unhx(c.get("name", hx(b"Sec"))), unhx(c["sub"]))
    elif kind in ("cfg", "git-reads-cfg") and "cfg" in c:
        oracle_struct(ctx, stream, parse_cfg_tokens(c["cfg"]))
    elif kind == "ops":
        pass


def parse_cfg_tokens(s: str):
    struct = []
    for t in s.split():
        p = t.split(":")
        if p[0] == "S":
            struct.append(((unhx(p[1]), None if p[2] == "~" else unhx(p[2])), []))
        else:
            struct[-1][1].append((unhx(p[1]), unhx(p[2])))
    return struct


# ------------------------------------------------------------------------------------------------

#: AST fingerprints of the modelled functions at the commit the model was last brought up to date with (21a48ab).  A change never decides anything by itself,
#: it only multiplies the case budget (DESIGN 2.3 "adaptive depth").
BASELINE_FP = {
    "_format_string": "8fb19f6479ee70a3",
    "_escape_value": "3533afdf15740afa",
    "_parse_string": "eb9afd67748de890",
    "_escape_subsection": "b27e05583af733e1",
    "_unescape_subsection": "591dc33c8e10c194",
    "_check_variable_name": "58458acd9181d2c3",
    "_check_section_name": "127f55976df1fe75",
    "_strip_comments": "9bbb6bfda521fa56",
    "_is_line_continuation": "124d30a05cfe7273",
    "_parse_section_header_line": "fc125d1ba8204a61",
    "ConfigFile.from_file": "4003ccc89c4dad15",
    "ConfigFile.write_to_file": "7a7d9bc9bc5878b6",
    "lower_key": "60f343b12b431742",
    "CaseInsensitiveOrderedMultiDict.__setitem__": "3911a55733360759",
    "CaseInsensitiveOrderedMultiDict.set": "79372d9037d3eb81",
    "CaseInsensitiveOrderedMultiDict.__delitem__": "23f7b272f480a768",
    "CaseInsensitiveOrderedMultiDict.__getitem__": "bab951e38dca9f4c",
    "CaseInsensitiveOrderedMultiDict.get_all": "c2ccdf58aafde4d0",
    "CaseInsensitiveOrderedMultiDict.setdefault": "c65597d757fbd3d6",
    "ConfigDict.set": "556cf6069b42d25c",
    "ConfigDict.add": "edd6438b79997027",
    "ConfigDict.remove": "fe0f57cfe2ada240",
    "ConfigDict.get": "63bf4f7e5dc8a1ad",
    "ConfigDict.get_multivar": "e9ecf4df0a5eedf6"
}


def run(ctx: core.Ctx):
    rng = ctx.rng
    ctx.assumptions += [
        "the model's reader is ConfigFile.from_file without include expansion (generators never produce "
        "[include]/[includeIf] path settings); _handle_include_directive/_process_include are not modelled",
        "CPython semantics of bytes.strip()/isalnum()/lower()/replace()/split()/readlines(): byte classes are "
        "regenerated from the running interpreter into Gen/Config.lean, the operations are modelled by hand",
        "C git 2.39.5 is a third implementation (never the arbiter of a theorem): it is compared with what dulwich "
        "was asked to store (git reads dulwich's file) and with dulwich's reading (dulwich reads git's file)",
    ]
    fps = fingerprints(core.REPO)
    changed = sorted(k for k, v in fps.items() if BASELINE_FP and BASELINE_FP.get(k) != v)
    ctx.extra_cov["modelled_function_fingerprints_changed"] = changed
    boost = 3 if changed else 1
    if changed:
        ctx.notes.append(f"modelled functions changed since the model was written: {changed}; budgets x{boost}")

    git = Git(ctx)
    _run_corpus(ctx, git)

    # 1. values: exhaustive over the property's alphabet, then the extended alphabet, then random longer ones
    L11 = 5 if (ctx.thorough or boost > 1) else 4
    L15 = 5 if ctx.thorough else 4
    vals11 = list(exhaustive(ALPHA11, L11))
    _stream_values(ctx, "value.exhaustive11", vals11)
    _stream_values(ctx, "value.exhaustive15", [v for v in exhaustive(ALPHA15, L15) if any(c not in ALPHA11 for c in v)])
    _stream_values(ctx, "value.random", [gen_value(rng) for _ in range(ctx.budget(10000, mult=5) * boost)])
    ctx.extra_cov["exhaustive_value_len"] = {"alphabet11": L11, "alphabet15": L15}

    # 2. the reader on strings the writer never produces
    _stream_parse(ctx, "parse.exhaustive", exhaustive(PARSE_ALPHA, 5 if ctx.thorough else 4))
    _stream_parse(ctx, "parse.random", [b" " + gen_value(rng) + rng.choice([b"\n", b"\r\n", b"", b" \n"])
                                        for _ in range(ctx.budget(6000, mult=5) * boost)])

    # 3. subsections, headers, continuation test
    _stream_subsections(ctx, "subsection.exhaustive", exhaustive(SUB_ALPHA, 5 if ctx.thorough else 4))
    _stream_subsections(ctx, "subsection.random",
                        [bytes(rng.choice(SUB_ALPHA + [TAB, LF, 0, CR, 0x80, ord("="), 0x0B]) for _ in range(rng.randint(5, 12)))
                         for _ in range(ctx.budget(3000, mult=5) * boost)])
    _stream_headers(ctx, ctx.budget(8000, mult=5) * boost)
    _stream_cont(ctx, 6 if ctx.thorough else 5)

    # 4. whole files, hand-written features, operation sequences
    structs, datas = _stream_files(ctx, ctx.budget(1500, mult=5) * boost)
    _stream_mutated(ctx, datas, ctx.budget(5000, mult=5) * boost)
    _stream_ops(ctx, ctx.budget(2000, mult=5) * boost)

    # 5. C git, both directions (sampled in quick)
    if ctx.thorough:
        gvals = [v for v in exhaustive(ALPHA11, 4) if b"\0" not in v]
    else:
        gvals = rng.sample([v for v in vals11 if len(v) >= 1], 500)
    gvals += [gen_value(rng).replace(b"\0", b"0") for _ in range(ctx.budget(100))]
    _git_reads_dulwich_values(ctx, git, gvals)
    _git_reads_dulwich_files(ctx, git, structs, ctx.budget(200, mult=5))
    pool = [v for v in exhaustive(ALPHA15, 3) if len(v) >= 1]
    _dulwich_reads_git(ctx, git, [gen_git_item(rng, pool) for _ in range(ctx.budget(480, mult=8))])
    _stream_interleaved(ctx, git, ctx.budget(80, mult=5))
    ctx.extra_cov["git_invocations"] = git.calls


def search(ctx: core.Ctx):
    """Failing-input search after a broken obligation / correspondence: the direct oracle, harder, first around the
    disagreeing cases and then over bigger enumerations."""
    rng = ctx.rng
    seeds = []
    for d in ctx.disagreements:
        c = d["case"]
        if "value" in c:
            seeds.append(unhx(c["value"]))
        if c.get("kind") == "subsection":
            oracle_subsection(ctx, "search.subsection", b"Sec", unhx(c["sub"]))
        if c.get("kind") == "cfg":
            oracle_struct(ctx, "search.cfg", parse_cfg_tokens(c["cfg"]))
    tried = set()
    for v in seeds[:200]:
        neigh = {v, v + b"x", b"x" + v}
        for a in ALPHA15:
            neigh |= {v + bytes([a]), bytes([a]) + v}
            for i in range(len(v)):
                neigh.add(v[:i] + bytes([a]) + v[i + 1:])
        for w in neigh:
            if w not in tried:
                tried.add(w)
                oracle_value(ctx, "search.value", w)
        if ctx.oracle_failures:
            return
    for v in exhaustive(ALPHA15, 4):
        if v not in tried:
            oracle_value(ctx, "search.value", v)
    if ctx.oracle_failures:
        return
    for _ in range(20000):
        oracle_value(ctx, "search.value", gen_value(rng))
    for s in exhaustive(SUB_ALPHA, 5):
        oracle_subsection(ctx, "search.subsection", b"Sec", s)
    if ctx.oracle_failures:
        return
    for _ in range(3000):
        oracle_struct(ctx, "search.cfg", gen_struct(rng))
    if ctx.oracle_failures:
        return
    for _ in range(3000):
        ops = gen_ops(rng)
        res, cf = run_ops_real(ops)
        spec = spec_ops(ops)
        f = BytesIO()
        cf.write_to_file(f)
        got: dict = {}
        for (name, sub), ents in public_struct(real_read(f.getvalue())):
            for k, v in ents:
                got.setdefault((name.lower(), sub, k.lower()), []).append(v)
        if got != spec and not any(value_class(v) for vs in spec.values() for v in vs):
            ctx.oracle_fail("search.ops", {"kind": "ops", "ops": ops_tokens(ops)}, f"got {got!r} want {spec!r}"[:600], None)
            return


def replay(ctx: core.Ctx, data: dict) -> int:
    c = data.get("case", {})
    kind = c.get("kind")
    print("replaying", kind, {k: (v if len(str(v)) < 200 else str(v)[:200] + "...") for k, v in c.items()})
    if kind in ("value", "git-reads"):
        v = unhx(c["value"])
        oracle_value(ctx, "replay", v)
        if kind == "git-reads":
            _git_reads_dulwich_values(ctx, Git(ctx), [v])
    elif kind == "subsection":
        oracle_subsection(ctx, "replay", unhx(c.get("name", hx(b"Sec"))), unhx(c["sub"]))
    elif kind in ("cfg", "git-reads-cfg"):
        s = parse_cfg_tokens(c["cfg"])
        oracle_struct(ctx, "replay", s)
        if kind == "git-reads-cfg":
            _git_reads_dulwich_files(ctx, Git(ctx), [s], 1)
    elif kind == "dulwich-reads":
        items = [(unhx(a), None if b == "~" else unhx(b), unhx(cc), unhx(d)) for a, b, cc, d in c["items"]]
        _dulwich_reads_git(ctx, Git(ctx), items)
    elif kind == "interleaved":
        steps = [(a, o, unhx(n), None if sb == "~" else unhx(sb), unhx(k), unhx(v)) for a, o, n, sb, k, v in c["log"]]
        run_interleaved(ctx, Git(ctx), steps, "replay")
    elif kind == "ops":
        ops = []
        for t in c["ops"].split():
            p = t.split(":")
            ops.append(tuple([p[0], unhx(p[1]), None if p[2] == "~" else unhx(p[2])] + [unhx(x) for x in p[3:]]))
        res, cf = run_ops_real(ops)
        f = BytesIO()
        cf.write_to_file(f)
        got: dict = {}
        for (name, sub), ents in public_struct(real_read(f.getvalue())):
            for k, v in ents:
                got.setdefault((name.lower(), sub, k.lower()), []).append(v)
        if got != spec_ops(ops):
            ctx.oracle_fail("replay", c, f"got {got!r} want {spec_ops(ops)!r}"[:600], None)
    else:
        print("nothing to replay for this file (broken obligation without a failing input)")
    fails = ctx.oracle_failures
    for f in fails:
        print("  FAILS:", f["what"][:300])
    if fails or ctx.known_hit:
        for k, n in ctx.known_hit.items():
            print(f"  KNOWN-FINDING {k} hit {n}x")
    if fails:
        print(f"VIOLATION property={PROP} replay={data.get('_path', '<replayed>')}")
        return 1
    print("replay: property holds on this case" if not ctx.known_hit else "replay: fails only as the listed known finding(s)")
    return 0
